"""Mechanical extraction from /repo's current working tree: module ASTs, functions by qualname,
module-level constants (regexes, tables, sets) evaluated by a small safe evaluator.

What extraction drops (DESIGN §3): docstrings, comments, type annotations (used only for sorts),
decorators other than dataclass/classmethod/staticmethod/property, the `async` keyword (only where the
no-await obligation holds), logger.* calls. Nothing else.
"""
from __future__ import annotations

import ast
import hashlib
import re
from dataclasses import dataclass
from functools import lru_cache
from typing import Any

from verif.common import read_src, src_path


class ExtractionError(Exception):
    """The source no longer has the shape a contract is keyed to (=> undecided, never a violation)."""


@dataclass(frozen=True)
class Rx:
    pattern: str
    flags: int = 0


@dataclass(frozen=True)
class Sym:
    """A symbolic attribute reference such as TokenType.NUMBER."""

    base: str
    attr: str


@lru_cache(maxsize=None)
def module_ast(module: str) -> ast.Module:
    return ast.parse(read_src(module), filename=str(src_path(module)))


def find_def(module: str, qualname: str) -> ast.FunctionDef | ast.AsyncFunctionDef | ast.ClassDef:
    node: Any = module_ast(module)
    for part in qualname.split("."):
        found = None
        for ch in node.body:
            if isinstance(ch, (ast.FunctionDef, ast.AsyncFunctionDef, ast.ClassDef)) and ch.name == part:
                found = ch
                break
        if found is None:
            raise ExtractionError(f"{module}:{qualname} not found in the working tree")
        node = found
    return node


def source_of(module: str, qualname: str) -> str:
    node = find_def(module, qualname)
    return ast.get_source_segment(read_src(module), node) or ""


def source_hash(module: str, qualname: str) -> str:
    return hashlib.sha256(source_of(module, qualname).encode()).hexdigest()[:12]


def func_ref(module: str, qualname: str) -> str:
    node = find_def(module, qualname)
    return f"{module}:{qualname}@L{node.lineno}#{source_hash(module, qualname)}"


_RE_FLAGS = {"MULTILINE": re.MULTILINE, "M": re.MULTILINE, "DOTALL": re.DOTALL, "S": re.DOTALL, "IGNORECASE": re.IGNORECASE, "I": re.IGNORECASE, "VERBOSE": re.VERBOSE, "X": re.VERBOSE}


def eval_const(node: ast.AST, env: dict[str, Any]) -> Any:
    if isinstance(node, ast.Constant):
        return node.value
    if isinstance(node, ast.Name):
        if node.id in env:
            return env[node.id]
        raise ExtractionError(f"name {node.id} is not a known module constant")
    if isinstance(node, ast.BinOp) and isinstance(node.op, ast.Add):
        return eval_const(node.left, env) + eval_const(node.right, env)
    if isinstance(node, ast.BinOp) and isinstance(node.op, ast.BitOr):
        return eval_const(node.left, env) | eval_const(node.right, env)
    if isinstance(node, ast.Tuple):
        return tuple(eval_const(e, env) for e in node.elts)
    if isinstance(node, ast.List):
        return [eval_const(e, env) for e in node.elts]
    if isinstance(node, ast.Set):
        return frozenset(eval_const(e, env) for e in node.elts)
    if isinstance(node, ast.Dict):
        return {eval_const(k, env): eval_const(v, env) for k, v in zip(node.keys, node.values)}
    if isinstance(node, ast.JoinedStr):
        out = ""
        for v in node.values:
            if isinstance(v, ast.Constant):
                out += v.value
            elif isinstance(v, ast.FormattedValue) and v.format_spec is None and v.conversion == -1:
                out += str(eval_const(v.value, env))
            else:
                raise ExtractionError("formatted value with spec")
        return out
    if isinstance(node, ast.Attribute) and isinstance(node.value, ast.Name):
        if node.value.id == "re" and node.attr in _RE_FLAGS:
            return _RE_FLAGS[node.attr]
        return Sym(node.value.id, node.attr)
    if isinstance(node, ast.Call):
        f = node.func
        if isinstance(f, ast.Attribute) and isinstance(f.value, ast.Name) and f.value.id == "re" and f.attr == "compile":
            pat = eval_const(node.args[0], env)
            flags = eval_const(node.args[1], env) if len(node.args) > 1 else 0
            for kw in node.keywords:
                if kw.arg == "flags":
                    flags = eval_const(kw.value, env)
            return Rx(pat, flags)
        if isinstance(f, ast.Name) and f.id in ("frozenset", "set", "tuple", "list") and len(node.args) <= 1:
            if not node.args:
                return frozenset() if f.id in ("frozenset", "set") else ([] if f.id == "list" else ())
            v = eval_const(node.args[0], env)
            return {"frozenset": frozenset, "set": frozenset, "tuple": tuple, "list": list}[f.id](v)
    raise ExtractionError(f"not a simple constant: {ast.dump(node)[:120]}")


@lru_cache(maxsize=None)
def module_consts(module: str) -> dict[str, Any]:
    """Module-level (and class-level, as Class.NAME) simple constants of a repository module."""
    env: dict[str, Any] = {}

    def scan(body: list[ast.stmt], prefix: str) -> None:
        for st in body:
            tgt = None
            val = None
            if isinstance(st, ast.Assign) and len(st.targets) == 1 and isinstance(st.targets[0], ast.Name):
                tgt, val = st.targets[0].id, st.value
            elif isinstance(st, ast.AnnAssign) and isinstance(st.target, ast.Name) and st.value is not None:
                tgt, val = st.target.id, st.value
            elif isinstance(st, ast.ClassDef):
                scan(st.body, prefix + st.name + ".")
                continue
            if tgt is None:
                continue
            try:
                env[prefix + tgt] = eval_const(val, env)
            except ExtractionError:
                pass

    scan(module_ast(module).body, "")
    return env


def const(module: str, name: str) -> Any:
    env = module_consts(module)
    if name not in env:
        raise ExtractionError(f"{module}.{name} is not an extractable constant in the working tree")
    return env[name]


def regex_calls_in(module: str, qualname: str) -> list[tuple[str, Rx, int]]:
    """re.match/search/fullmatch/compile/sub calls with literal patterns inside a function: (fn, Rx, lineno)."""
    node = find_def(module, qualname)
    env = module_consts(module)
    out = []
    for n in ast.walk(node):
        if isinstance(n, ast.Call) and isinstance(n.func, ast.Attribute) and isinstance(n.func.value, ast.Name) and n.func.value.id == "re":
            if n.func.attr in ("match", "search", "fullmatch", "compile", "sub", "finditer", "findall") and n.args:
                try:
                    pat = eval_const(n.args[0], env)
                except ExtractionError:
                    continue
                flags = 0
                for kw in n.keywords:
                    if kw.arg == "flags":
                        flags = eval_const(kw.value, env)
                out.append((n.func.attr, Rx(pat, flags), n.lineno))
    return out
