"""ContractReport -> Outcome (obligation result for the property runner)."""
from __future__ import annotations

from typing import Callable

from verif import extract
from verif.common import Ctx, Ob, Outcome, Witness
from verif.pyvc.verify import FunctionContract, verify_contract


def replay_contract(factory: str, args_repr: str = ""):
    """Re-run the contract verification and report whether any elementary obligation is refuted with a
    counter-model that fails on the real function."""
    mod, _, name = factory.partition(":")
    import importlib

    base = name.split("(")[0].split("[")[0]
    f = getattr(importlib.import_module(mod), base)
    if "(" in name:
        c = f(*eval("(" + name.split("(", 1)[1].rstrip(")") + ",)"))
    elif "[" in name:
        c = f[int(name.split("[", 1)[1].rstrip("]"))]
    else:
        c = f
    rep = verify_contract(c)
    bad = [e for e in rep.elementary if e.status == "refuted"]
    txt = "\n".join(f"{e.name}: {e.detail} | {e.replay_text}" for e in bad) or "all obligations discharged"
    return any(e.replay_failed for e in bad), txt


def contract_outcome(c: FunctionContract, factory_ref: str) -> Outcome:
    rep = verify_contract(c)
    if rep.outside:
        return Outcome.undecided("pyvc", f"{c.key}: {rep.outside}")
    n = len(rep.elementary)
    dis = sum(1 for e in rep.elementary if e.status == "discharged")
    wits = []
    unknown = [e for e in rep.elementary if e.status == "unknown"]
    errors = [e for e in rep.elementary if e.status == "error"]
    for e in rep.elementary:
        if e.status == "refuted":
            wits.append(
                Witness(
                    what=f"{e.name}: {e.detail}" + (f"; replay on the real function: {e.replay_text}" if e.replay_text else ""),
                    input=e.model_args,
                    key=e.name.split("@")[0],
                    replay={"runner": "verif.pyvc.adapter:replay_contract", "args": {"factory": factory_ref}},
                    confirmed=bool(e.replay_failed),
                    verifier_output=f"{e.name}\nbackend {e.backend}, {e.seconds}s\nmodel arguments: {e.model_args}\n{e.replay_text}",
                )
            )
    by_backend = {}
    for e in rep.elementary:
        b = by_backend.setdefault(e.backend, [0, 0.0])
        b[0] += 1
        b[1] += e.seconds
    extra = dict(function=extract.func_ref(c.module, c.qualname), paths=rep.paths, inlined=rep.inlined, opaque_calls=rep.opaque, by_backend={k: [v[0], round(v[1], 3)] for k, v in by_backend.items()})
    if getattr(rep, "defaults_bound", None):
        # stage 2 of verify_contract: the claim is restricted to calls that leave these parameters at their defaults
        extra["restricted_to_default_parameters"] = sorted(set(rep.defaults_bound))
    if errors:
        return Outcome("crashed", "pyvc", [], "\n".join(e.detail for e in errors[:3]), extra, count=n, discharged=dis)
    if wits:
        return Outcome.refuted("pyvc/z3", wits, detail=f"{len(wits)} of {n} elementary obligations refuted", count=n, discharged=dis, **extra)
    if unknown:
        return Outcome("undecided", "pyvc/z3+cvc5", [], f"solver unknown on {[e.name for e in unknown][:4]}", extra, count=n, discharged=dis)
    return Outcome.ok("pyvc/z3", count=n, **extra)


def contract_ob(oid: str, title: str, c_factory: Callable[[], FunctionContract], factory_ref: str, thorough_only: bool = False, timeout: float = 1800.0, probe: Callable[[], tuple] | None = None, probe_ref: str | None = None) -> Ob:
    """`probe` (optional): concrete inputs on the real function, run ONLY when the contract comes back undecided (source outside
    the engine's subset, solver unknown). It fails => refuted with that input (confirmed on the real code); it passes => the
    obligation stays undecided. A discharged or refuted contract never consults it."""
    c0 = c_factory()

    def fn(ctx: Ctx, c_factory=c_factory, factory_ref=factory_ref) -> Outcome:
        out = contract_outcome(c_factory(), factory_ref)
        if probe is not None and out.status == "undecided":
            try:
                failed, text = probe()
            except Exception as e:  # noqa: BLE001
                out.detail = f"{out.detail}; probe could not run: {type(e).__name__}: {e}"
                return out
            if failed:
                return Outcome.refuted("pyvc+probe", [Witness(what=f"contract undecided ({out.detail[:160]}); concrete probe on the real function: {text[:600]}", input=text[:300], key=oid, replay={"runner": probe_ref, "args": {}} if probe_ref else None, confirmed=True)], count=max(out.count, 1))
            out.detail = f"{out.detail}; probe: {text[:160]}"
        return out

    return Ob(oid, c0.tier, title, [c0.key], fn, thorough_only=thorough_only, timeout=timeout)
