"""Value model of pyvc: the universal z3 sort Val for `Any`-typed Python values, and dual-mode
helpers (work on z3 terms during VC generation and on real Python values during replay).

Val = VNone | VBool(b) | VInt(i) | VFloat(fv: Real, fk: Int) | VStr(s) | VObj(ref: Int)
  fk: 0 finite, 1 +inf, 2 -inf, 3 nan.   Assumption A-float: finite floats are exact reals.
Python semantics encoded: bool is an int (isinstance, ==, arithmetic), == across numeric kinds,
str() of None/bool/str/int, truthiness. Anything else about a value is uninterpreted.
"""
from __future__ import annotations

import math
from typing import Any

import z3

Val = z3.Datatype("Val")
Val.declare("VNone")
Val.declare("VBool", ("b", z3.BoolSort()))
Val.declare("VInt", ("i", z3.IntSort()))
Val.declare("VFloat", ("fv", z3.RealSort()), ("fk", z3.IntSort()))
Val.declare("VStr", ("s", z3.StringSort()))
Val.declare("VObj", ("ref", z3.IntSort()))
Val = Val.create()

VNone, VBool, VInt, VFloat, VStr, VObj = Val.VNone, Val.VBool, Val.VInt, Val.VFloat, Val.VStr, Val.VObj
is_VNone, is_VBool, is_VInt, is_VFloat, is_VStr, is_VObj = Val.is_VNone, Val.is_VBool, Val.is_VInt, Val.is_VFloat, Val.is_VStr, Val.is_VObj

# class ids of heap objects
cls_of = z3.Function("cls_of", z3.IntSort(), z3.IntSort())
CLASS_IDS: dict[str, int] = {"list": 1, "dict": 2, "tuple": 3, "set": 4}


def class_id(name: str) -> int:
    if name not in CLASS_IDS:
        CLASS_IDS[name] = len(CLASS_IDS) + 1
    return CLASS_IDS[name]


# uninterpreted library functions
str_of_obj = z3.Function("str_of_obj", Val, z3.StringSort())  # str() of floats/objects
float_of_str_v = z3.Function("float_of_str_v", z3.StringSort(), z3.RealSort())
float_of_str_k = z3.Function("float_of_str_k", z3.StringSort(), z3.IntSort())
float_str_ok = z3.Function("float_str_ok", z3.StringSort(), z3.BoolSort())
int_of_str = z3.Function("int_of_str", z3.StringSort(), z3.IntSort())
int_str_ok = z3.Function("int_str_ok", z3.StringSort(), z3.BoolSort())
str_lower = z3.Function("str_lower", z3.StringSort(), z3.StringSort())
str_upper = z3.Function("str_upper", z3.StringSort(), z3.StringSort())
str_strip = z3.Function("str_strip", z3.StringSort(), z3.StringSort())
str_count = z3.Function("str_count", z3.StringSort(), z3.StringSort(), z3.IntSort())  # occurrences of a substring (axioms at the use site)
obj_eq = z3.Function("obj_eq", Val, Val, z3.BoolSort())  # == on heap objects (A-eq: reflexive, symmetric)
len_of_obj = z3.Function("len_of_obj", z3.IntSort(), z3.IntSort())  # len() of list/dict objects
type_name = z3.Function("type_name", Val, z3.StringSort())  # type(v).__name__


def is_z3(x: Any) -> bool:
    return isinstance(x, z3.ExprRef)


def is_val(x: Any) -> bool:
    return is_z3(x) and x.sort() == Val


def to_val(x: Any) -> z3.ExprRef:
    """Python constant / typed z3 term -> Val term."""
    if is_z3(x):
        if x.sort() == Val:
            return x
        if x.sort() == z3.BoolSort():
            return VBool(x)
        if x.sort() == z3.IntSort():
            return VInt(x)
        if x.sort() == z3.StringSort():
            return VStr(x)
        if x.sort() == z3.RealSort():
            return VFloat(x, z3.IntVal(0))
        raise TypeError(f"cannot lift sort {x.sort()} to Val")
    if x is None:
        return VNone
    if isinstance(x, bool):
        return VBool(z3.BoolVal(x))
    if isinstance(x, int):
        return VInt(z3.IntVal(x))
    if isinstance(x, float):
        if math.isnan(x):
            return VFloat(z3.RealVal(0), z3.IntVal(3))
        if math.isinf(x):
            return VFloat(z3.RealVal(0), z3.IntVal(1 if x > 0 else 2))
        return VFloat(z3.RealVal(repr(x)) if "e" not in repr(x) and "E" not in repr(x) else z3.RealVal(str(_frac(x))), z3.IntVal(0))
    if isinstance(x, str):
        return VStr(z3.StringVal(x))
    raise TypeError(f"cannot lift {type(x).__name__} to Val")


def _frac(x: float):
    from fractions import Fraction

    return Fraction(x)


def num_parts(v: z3.ExprRef) -> tuple[z3.ExprRef, z3.ExprRef]:
    """(real value, kind) of a numeric Val (int/bool/float)."""
    rv = z3.If(is_VInt(v), z3.ToReal(Val.i(v)), z3.If(is_VBool(v), z3.If(Val.b(v), z3.RealVal(1), z3.RealVal(0)), Val.fv(v)))
    k = z3.If(is_VFloat(v), Val.fk(v), z3.IntVal(0))
    return rv, k


def is_numeric(v: z3.ExprRef) -> z3.ExprRef:
    return z3.Or(is_VInt(v), is_VBool(v), is_VFloat(v))


def num_lt(a: z3.ExprRef, b: z3.ExprRef) -> z3.ExprRef:
    """a < b for numeric Vals with IEEE non-finite semantics."""
    av, ak = num_parts(a)
    bv, bk = num_parts(b)
    return z3.And(
        ak != 3,
        bk != 3,
        z3.Or(
            z3.And(ak == 0, bk == 0, av < bv),
            z3.And(ak == 2, bk != 2),  # -inf < anything but -inf
            z3.And(bk == 1, ak != 1),  # anything but +inf < +inf
        ),
    )


def num_eq(a: z3.ExprRef, b: z3.ExprRef) -> z3.ExprRef:
    av, ak = num_parts(a)
    bv, bk = num_parts(b)
    return z3.And(ak != 3, bk != 3, ak == bk, z3.Or(ak != 0, av == bv))


def num_le(a, b):
    return z3.Or(num_lt(a, b), num_eq(a, b))


def py_eq(a: Any, b: Any) -> Any:
    """Python == on two values (z3 Val terms or Python constants)."""
    if not is_z3(a) and not is_z3(b):
        return a == b
    a, b = to_val(a), to_val(b)
    return z3.If(
        z3.And(is_numeric(a), is_numeric(b)),
        num_eq(a, b),
        z3.If(
            z3.And(is_VStr(a), is_VStr(b)),
            Val.s(a) == Val.s(b),
            z3.If(z3.And(is_VNone(a), is_VNone(b)), z3.BoolVal(True), z3.If(z3.And(is_VObj(a), is_VObj(b)), z3.Or(Val.ref(a) == Val.ref(b), obj_eq(a, b)), z3.BoolVal(False))),
        ),
    )


def truthy(v: Any) -> Any:
    if not is_z3(v):
        return bool(v)
    if v.sort() == z3.BoolSort():
        return v
    if v.sort() == z3.IntSort():
        return v != 0
    if v.sort() == z3.StringSort():
        return z3.Length(v) > 0
    v = to_val(v)
    rv, k = num_parts(v)
    return z3.If(
        is_VNone(v),
        z3.BoolVal(False),
        z3.If(is_VBool(v), Val.b(v), z3.If(is_VStr(v), z3.Length(Val.s(v)) > 0, z3.If(is_numeric(v), z3.Or(k != 0, rv != 0), len_of_obj(Val.ref(v)) != 0))),
    )


def int_to_str(i: z3.ExprRef) -> z3.ExprRef:
    return z3.If(i >= 0, z3.IntToStr(i), z3.Concat(z3.StringVal("-"), z3.IntToStr(-i)))


def py_str(v: Any) -> Any:
    """str(v)."""
    if not is_z3(v):
        return str(v)
    if v.sort() == z3.StringSort():
        return v
    if v.sort() == z3.IntSort():
        return int_to_str(v)
    if v.sort() == z3.BoolSort():
        return z3.If(v, z3.StringVal("True"), z3.StringVal("False"))
    v = to_val(v)
    return z3.If(
        is_VStr(v),
        Val.s(v),
        z3.If(is_VNone(v), z3.StringVal("None"), z3.If(is_VBool(v), z3.If(Val.b(v), z3.StringVal("True"), z3.StringVal("False")), z3.If(is_VInt(v), int_to_str(Val.i(v)), str_of_obj(v)))),
    )


# ---- concrete <-> model --------------------------------------------------------------------------


def val_from_model(m: z3.ModelRef, v: z3.ExprRef, objs: dict[int, Any] | None = None) -> Any:
    e = m.eval(v, model_completion=True)
    d = e.decl().name()
    if d == "VNone":
        return None
    if d == "VBool":
        return z3.is_true(e.arg(0))
    if d == "VInt":
        return e.arg(0).as_long()
    if d == "VStr":
        return e.arg(0).as_string()
    if d == "VFloat":
        k = m.eval(e.arg(1), model_completion=True).as_long()
        if k == 1:
            return math.inf
        if k == 2:
            return -math.inf
        if k == 3:
            return math.nan
        r = e.arg(0)
        try:
            return float(r.as_fraction())
        except Exception:
            return float(r.as_decimal(17).rstrip("?"))
    if d == "VObj":
        ref = e.arg(0).as_long()
        if objs and ref in objs:
            return objs[ref]
        return _OpaqueObj(ref)
    raise ValueError(d)


class _OpaqueObj:
    def __init__(self, ref: int):
        self.ref = ref

    def __repr__(self) -> str:
        return f"<object #{self.ref}>"
