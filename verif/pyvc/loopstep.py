"""Loop bodies as step functions (inductive-invariant route for loops the summaries cannot close).

`step_function(module, qualname, loop_no)` re-reads the real source on every run, finds the
loop_no-th `for` loop of the function (source order) and builds, mechanically, a synthetic

    def <fn>__loop<k>__step(<carried...>, <targets...>):
        <the loop body, verbatim AST>
        return (<assigned carried variables...>)

where `carried` = local names the body reads or writes that are bound outside the body (function
parameters, names assigned before/after the loop) and the returned tuple lists, in sorted order, the
carried names the body assigns. A contract on the step function is one iteration's verification
condition: `pre` is the loop invariant over the carried variables (arbitrary values satisfying it =
havoc), the postconditions are the invariant after the step plus the step relation. Induction over the
iterable is the (stated) meta-argument; initialisation is checked separately on the concrete
pre-loop assignments (`initial_values`).

What the extraction drops / assumes (checked, else ExtractionError):
  * the body contains no `break`/`continue`/`return`/`yield` at loop level (raises are kept);
  * `for`-`else` is absent;
  * mutable containers reached through carried names are passed by reference - contracts use the
    delta convention (pass an empty list; the body may only `.append` to it, which `append_only`
    checks syntactically over the whole function).
The same synthetic def, compiled in the real module's namespace, is what counter-models are replayed on.
"""
from __future__ import annotations

import ast
import builtins
import copy
import importlib
from dataclasses import dataclass

from verif import extract
from verif.extract import ExtractionError


@dataclass
class Step:
    fndef: ast.FunctionDef
    params: list[str]
    targets: list[str]
    returned: list[str]
    loop: ast.AST
    owner: ast.FunctionDef


def _loops(fn: ast.AST) -> list[ast.For]:
    out = []

    def walk(stmts):
        for st in stmts:
            if isinstance(st, ast.For):
                out.append(st)
                walk(st.body)
            elif isinstance(st, (ast.If, ast.While, ast.With, ast.Try)):
                for field in ("body", "orelse", "finalbody"):
                    walk(getattr(st, field, []) or [])
                for h in getattr(st, "handlers", []) or []:
                    walk(h.body)

    walk(fn.body)
    return out


def _names(node: ast.AST, ctx) -> set[str]:
    return {n.id for n in ast.walk(node) if isinstance(n, ast.Name) and isinstance(n.ctx, ctx)}


def step_function(module: str, qualname: str, loop_no: int = 0) -> Step:
    fn = extract.find_def(module, qualname)
    loops = _loops(fn)
    if loop_no >= len(loops):
        raise ExtractionError(f"{qualname}: has {len(loops)} for-loops, wanted #{loop_no}")
    loop = loops[loop_no]
    if loop.orelse:
        raise ExtractionError(f"{qualname}: loop #{loop_no} has an else clause")
    return _make(module, qualname, fn, loop.body, sorted(_names(loop.target, ast.Store)), f"loop{loop_no}__step", loop)


def block_function(module: str, qualname: str, test_contains: str, label: str) -> Step:
    """the body of the unique `if` statement of the function whose test's source contains `test_contains`,
    as a function of the names it uses. A final `continue` (the block sits in a while loop) is dropped:
    falling off the end of the synthetic function stands for 'next iteration'."""
    fn = extract.find_def(module, qualname)
    hits = [n for n in ast.walk(fn) if isinstance(n, ast.If) and test_contains in ast.unparse(n.test)]
    if len(hits) != 1:
        raise ExtractionError(f"{qualname}: {len(hits)} if-statements test `{test_contains}` (expected exactly one)")
    body = list(hits[0].body)
    if body and isinstance(body[-1], ast.Continue):
        body = body[:-1]
    return _make(module, qualname, fn, body, [], label, hits[0])


def stmts_function(module: str, qualname: str, first_contains: str, count: int, label: str) -> Step:
    """`count` consecutive statements of one statement list of the function, starting at the unique statement whose
    source contains `first_contains`, as a function of the names they use (fall-through statements only)."""
    fn = extract.find_def(module, qualname)
    hits = []
    for n in ast.walk(fn):
        for field in ("body", "orelse", "finalbody"):
            blk = getattr(n, field, None)
            if isinstance(blk, list):
                for i, st in enumerate(blk):
                    if isinstance(st, (ast.Assign, ast.AugAssign, ast.AnnAssign, ast.Expr)) and first_contains in ast.unparse(st):
                        hits.append((blk, i))
    if len(hits) != 1:
        raise ExtractionError(f"{qualname}: {len(hits)} statements contain `{first_contains}` (expected exactly one)")
    blk, i = hits[0]
    if i + count > len(blk):
        raise ExtractionError(f"{qualname}: fewer than {count} statements follow `{first_contains}`")
    return _make(module, qualname, fn, blk[i:i + count], [], label, blk[i])


def range_function(module: str, qualname: str, locate, label: str) -> Step:
    """statements blk[i:j] chosen by `locate(fn) -> (blk, i, j)` (a structural description of the block, not its text)"""
    fn = extract.find_def(module, qualname)
    try:
        blk, i, j = locate(fn)
    except ExtractionError:
        raise
    except Exception as e:  # noqa: BLE001
        raise ExtractionError(f"{qualname}: block for {label} not found ({type(e).__name__}: {e})") from e
    if not (0 <= i < j <= len(blk)):
        raise ExtractionError(f"{qualname}: empty block for {label}")
    return _make(module, qualname, fn, blk[i:j], [], label, blk[i])


def nested_function(module: str, qualname: str, nested_name: str) -> Step:
    """a function defined inside `qualname`, lifted out: its free variables (bound in the enclosing function) become leading
    parameters. The body is copied verbatim (returns allowed: it is a function)."""
    fn = extract.find_def(module, qualname)
    inner = [n for n in ast.walk(fn) if isinstance(n, ast.FunctionDef) and n is not fn and n.name == nested_name]
    if len(inner) != 1:
        raise ExtractionError(f"{qualname}: {len(inner)} nested functions named {nested_name}")
    g = inner[0]
    own = {a.arg for a in g.args.args + g.args.kwonlyargs} | _names(ast.Module(body=g.body, type_ignores=[]), ast.Store)
    reads = _names(ast.Module(body=g.body, type_ignores=[]), ast.Load)
    outer_bound = {a.arg for a in fn.args.args} | {n.id for n in ast.walk(fn) if isinstance(n, ast.Name) and isinstance(n.ctx, ast.Store)}
    free = sorted(x for x in reads if x not in own and x in outer_bound)
    if any(isinstance(n, (ast.Nonlocal, ast.Global)) for n in ast.walk(g)):
        raise ExtractionError(f"{nested_name}: nonlocal/global")
    fdef = ast.FunctionDef(
        name=f"{qualname.replace('.', '_')}__{nested_name}",
        args=ast.arguments(posonlyargs=[], args=[ast.arg(arg=x) for x in free] + [ast.arg(arg=a.arg) for a in g.args.args], kwonlyargs=[], kw_defaults=[], defaults=[]),
        body=copy.deepcopy(g.body),
        decorator_list=[],
        returns=None,
        type_params=[],
    )
    ast.copy_location(fdef, g)
    ast.fix_missing_locations(fdef)
    return Step(fdef, free + [a.arg for a in g.args.args], [], [], g, fn)


def _make(module: str, qualname: str, fn: ast.FunctionDef, stmts: list[ast.stmt], targets: list[str], label: str, anchor: ast.AST) -> Step:
    for st in stmts:
        for n in ast.walk(st):
            if isinstance(n, (ast.Break, ast.Continue, ast.Return, ast.Yield, ast.YieldFrom)):
                raise ExtractionError(f"{qualname}: {label} contains {type(n).__name__} (L{n.lineno}); extraction covers fall-through bodies only")
            if isinstance(n, (ast.FunctionDef, ast.Lambda, ast.ClassDef, ast.Global, ast.Nonlocal)):
                raise ExtractionError(f"{qualname}: {label} contains {type(n).__name__}")
    body_mod = ast.Module(body=stmts, type_ignores=[])
    reads = _names(body_mod, ast.Load)
    writes = _names(body_mod, ast.Store)
    # names bound outside the body: parameters and assignments anywhere else in the function
    params = {a.arg for a in fn.args.args + fn.args.kwonlyargs + fn.args.posonlyargs}
    outside: set[str] = set(params)
    body_ids = {id(n) for st in stmts for n in ast.walk(st)}
    for n in ast.walk(fn):
        if isinstance(n, ast.Name) and isinstance(n.ctx, ast.Store) and id(n) not in body_ids:
            outside.add(n.id)
    outside -= set(targets)
    modconsts = set(vars(importlib.import_module(module)).keys())
    carried = sorted(x for x in (reads | writes) if x in outside)
    unknown = sorted(x for x in reads if x not in outside and x not in writes and x not in targets and x not in modconsts and not hasattr(builtins, x))
    if unknown:
        raise ExtractionError(f"{qualname}: {label} reads unbound names {unknown}")
    returned = sorted(x for x in carried if x in writes)
    name = f"{qualname.replace('.', '_')}__{label}"
    ret = ast.Return(value=ast.Tuple(elts=[ast.Name(id=x, ctx=ast.Load()) for x in returned], ctx=ast.Load()))
    fdef = ast.FunctionDef(
        name=name,
        args=ast.arguments(posonlyargs=[], args=[ast.arg(arg=x) for x in carried + targets], kwonlyargs=[], kw_defaults=[], defaults=[]),
        body=copy.deepcopy(stmts) + [ret],
        decorator_list=[],
        returns=None,
        type_params=[],
    )
    ast.copy_location(fdef, anchor)
    ast.copy_location(ret, stmts[-1])
    ast.fix_missing_locations(fdef)
    return Step(fdef, carried, targets, returned, anchor, fn)


def compile_step(module: str, step: Step):
    """the synthetic def compiled in the real module's namespace (for replay on the real statements)"""
    mod = importlib.import_module(module)
    ns: dict = {}
    code = compile(ast.Module(body=[step.fndef], type_ignores=[]), f"<step of {module}>", "exec")
    exec(code, vars(mod), ns)  # noqa: S102 - the AST is the repository's own loop body
    return ns[step.fndef.name]


def append_only(step: Step, names: list[str]) -> list[str]:
    """problems if any of `names` is used in the owner function other than: initialised to [] once,
    `.append(x)` calls, and reads after the loop"""
    problems = []
    for n in ast.walk(step.owner):
        if isinstance(n, ast.Name) and n.id in names:
            par = _parent(step.owner, n)
            if isinstance(n.ctx, ast.Store):
                asg = par
                if not (isinstance(asg, (ast.Assign, ast.AnnAssign)) and isinstance(asg.value, ast.List) and not asg.value.elts):
                    problems.append(f"L{n.lineno}: `{n.id}` bound to something other than []")
            elif isinstance(par, ast.Attribute) and par.attr != "append":
                problems.append(f"L{n.lineno}: `{n.id}.{par.attr}`")
            elif isinstance(par, (ast.Subscript, ast.Delete, ast.AugAssign)) and id(n) in {id(x) for st in getattr(step.loop, 'body', []) for x in ast.walk(st)}:
                problems.append(f"L{n.lineno}: `{n.id}` subscripted inside the loop")
    return problems


def _parent(root: ast.AST, node: ast.AST) -> ast.AST | None:
    for p in ast.walk(root):
        for c in ast.iter_child_nodes(p):
            if c is node:
                return p
    return None


def initial_values(step: Step) -> dict[str, ast.AST]:
    """the last simple assignment `name = <expr>` to each carried name before the loop (top-level statements of the owner)"""
    out: dict[str, ast.AST] = {}
    for st in step.owner.body:
        if st is step.loop:
            break
        if isinstance(st, (ast.Assign, ast.AnnAssign)):
            tgts = st.targets if isinstance(st, ast.Assign) else [st.target]
            for t in tgts:
                if isinstance(t, ast.Name) and t.id in step.params and st.value is not None:
                    out[t.id] = st.value
    return out
