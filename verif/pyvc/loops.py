"""Automatic summaries for `for x in <symbolic sequence>` loops (route (a) of DESIGN §2 E1).

The body is executed ONCE on a generic element xs[i] (i fresh, 0 <= i < |xs|). Its paths are
classified:
  exit paths   : return / raise / break, with condition E_k(i)
  cont paths   : normal / continue, with condition C_m(i); they may append to lists that exist
                 before the loop (accumulators) and assign locals, nothing else.
Summary after the loop
  * exit at the least index i0 (= the generic i itself, now a Skolem constant):
        E_k(i0)  and  forall j. 0 <= j < i0 -> C(j)        outcome of path k
    (only allowed when cont paths do not touch accumulators: early-exit search)
  * no exit:   forall j. 0 <= j < |xs| -> C(j)
        locals assigned in the body are havocked; every accumulator L becomes a symbolic list with
        |L'| = |L| + n, n >= 0, (n > 0  <->  exists j. 0 <= j < |xs| and C(j) and appended_on_that_path)
        whose new elements are opaque objects.
Everything else (stores to pre-existing objects inside the body, nested data flow between
iterations through locals) is outside the summary and raises OutsideSubset (=> invariant needed).
"""
from __future__ import annotations

import ast
from typing import Any, Iterator

import z3

from verif.pyvc import val as V
from verif.pyvc.interp import Opaque, OutsideSubset, Raised, SList, State, SymSeq, _clone, fresh


def assigned_names(body: list[ast.stmt]) -> set[str]:
    out: set[str] = set()
    for st in body:
        for n in ast.walk(st):
            if isinstance(n, ast.Name) and isinstance(n.ctx, ast.Store):
                out.add(n.id)
    return out


def _lists_in_env(env: dict) -> dict[int, Any]:
    out = {}
    seen = set()

    def walk(v):
        if id(v) in seen:
            return
        seen.add(id(v))
        if isinstance(v, (SList, SymSeq)):
            out[id(v)] = v
        if isinstance(v, dict):
            for k, x in v.items():
                if k in ("$caller",):
                    walk(x[0])
                else:
                    walk(x)
        elif hasattr(v, "fields") and isinstance(getattr(v, "fields"), dict):
            for x in v.fields.values():
                walk(x)
        elif isinstance(v, SList):
            pass

    walk(env)
    return out


def _size(v: Any) -> Any:
    if isinstance(v, SList):
        return len(v.items)
    if isinstance(v, SymSeq):
        return (v.length, len(v.appended))
    return None


def summarize_for(I, n: ast.For, xs: SymSeq, st: State) -> Iterator[tuple[State, tuple]]:
    if n.orelse:
        raise OutsideSubset("for-else over a symbolic sequence")
    if xs.appended:
        raise OutsideSubset("loop over a symbolic list with appended items")
    i = fresh("i", z3.IntSort())
    rng_i = z3.And(i >= 0, i < xs.length)
    body_vars = assigned_names(n.body) | set(_tnames(n.target))
    # accumulators: lists reachable from the environment before the loop, keyed by a stable label
    before_lists = _lists_in_env(st.env)
    labels = {k: f"acc{idx}" for idx, k in enumerate(before_lists)}
    for k, v in before_lists.items():
        v._acc_label = labels[k]
    pre = st.clone()  # pristine copy for the "no exit" continuation
    gen = st  # generic iteration runs on st itself
    base_pc = len(gen.pc)
    base_trace = len(gen.trace)
    gen.pc.append(rng_i)
    sizes_before = {v._acc_label: _size(v) for v in before_lists.values()}
    exits: list[tuple[State, tuple]] = []
    conts: list[tuple[z3.ExprRef, dict[str, bool]]] = []
    for s1, r in I.assign(n.target, xs.at(i), gen):
        if isinstance(r, Raised):
            raise OutsideSubset("loop target binding raised")
        for s2, out in I.exec_block(n.body, s1):
            delta = [c for c in s2.pc[base_pc + 1:] if not getattr(c, "_aux", False)]
            cond = z3.And(*delta) if delta else z3.BoolVal(True)
            # what did this path do to the accumulators?
            grew: dict[str, bool] = {}
            now = {getattr(v, "_acc_label", None): v for v in _lists_in_env(s2.env).values() if getattr(v, "_acc_label", None)}
            for lab, sz in sizes_before.items():
                v = now.get(lab)
                if v is None:
                    continue
                grew[lab] = _size(v) != sz
            stores = [t for t in s2.trace[base_trace:] if t[0] == "store"]
            if out[0] in ("normal", "continue"):
                if stores:
                    raise OutsideSubset(f"loop body stores to an object ({stores[0]}): needs an invariant")
                conts.append((cond, grew))
            else:
                if any(grew.values()) or stores:
                    raise OutsideSubset("loop exit path after mutating an accumulator")
                exits.append((s2, out))
    cont_any = z3.Or(*[c for c, _ in conts]) if conts else z3.BoolVal(False)
    touches_acc = any(any(g.values()) for _, g in conts)
    j = fresh("j", z3.IntSort())

    def at_j(f: z3.ExprRef) -> z3.ExprRef:
        return z3.substitute(f, (i, j))

    _check_closed(cont_any, i, base_pc, gen)
    # ---- exit paths -------------------------------------------------------------------------------
    if exits and touches_acc:
        raise OutsideSubset("loop with both early exits and accumulation: needs an invariant")
    for s2, out in exits:
        s2.pc.append(z3.ForAll([j], z3.Implies(z3.And(j >= 0, j < i), at_j(cont_any)), patterns=[_pattern(xs, j)]))
        if out[0] == "break":
            yield s2, ("normal",)
        else:
            yield s2, out
    # ---- no exit ------------------------------------------------------------------------------------
    s3 = pre
    s3.pc.append(z3.ForAll([j], z3.Implies(z3.And(j >= 0, j < xs.length), at_j(cont_any)), patterns=[_pattern(xs, j)]))
    for nm in body_vars:
        if nm in s3.env:
            s3.env[nm] = Opaque(f"loopvar:{nm}")
        else:
            s3.env[nm] = Opaque(f"loopvar:{nm}")
    if touches_acc:
        pre_lists = {getattr(v, "_acc_label", None): v for v in _lists_in_env(s3.env).values()}
        for lab in sizes_before:
            app = [c for c, g in conts if g.get(lab)]
            if not app:
                continue
            target = pre_lists.get(lab)
            if target is None:
                raise OutsideSubset("accumulator not found in the continuation state")
            nn = fresh("napp", z3.IntSort())
            some = z3.Exists([j], z3.And(j >= 0, j < xs.length, at_j(z3.Or(*app))))
            s3.pc.append(z3.And(nn >= 0, (nn > 0) == some))
            _grow(target, nn, s3)
    yield s3, ("normal",)


def _grow(target: Any, nn: z3.ExprRef, st: State) -> None:
    """Turn `target` (in place, to keep aliases) into 'old content + nn opaque elements'."""
    if isinstance(target, SList):
        old_items = list(target.items)
        old_n = len(old_items)
        new = SymSeq(None, "obj", f"grown#{nn}", z3.IntVal(old_n) + nn, None, None)

        def maker(k, old_items=old_items):
            if z3.is_int_value(z3.simplify(k)) and z3.simplify(k).as_long() < len(old_items):
                return old_items[z3.simplify(k).as_long()]
            return Opaque("acc.elem")

        new.elem_maker = maker
        # replace the SList object by the SymSeq everywhere it is referenced in the environment
        _replace_obj(st.env, target, new, set())
    elif isinstance(target, SymSeq):
        base_len = target.length + len(target.appended)
        old_maker = target.elem_maker
        old_app = list(target.appended)
        target.length = base_len + nn
        target.appended = []
        target.kind = "obj"
        target.elem_maker = lambda k: Opaque("acc.elem")
    else:
        raise OutsideSubset("accumulator kind")


def _replace_obj(v: Any, old: Any, new: Any, seen: set) -> None:
    if id(v) in seen:
        return
    seen.add(id(v))
    if isinstance(v, dict):
        for k in list(v.keys()):
            if v[k] is old:
                v[k] = new
            elif k == "$caller":
                _replace_obj(v[k][0], old, new, seen)
            else:
                _replace_obj(v[k], old, new, seen)
    elif hasattr(v, "fields") and isinstance(getattr(v, "fields"), dict):
        for k in list(v.fields.keys()):
            if v.fields[k] is old:
                v.fields[k] = new
            else:
                _replace_obj(v.fields[k], old, new, seen)
    elif isinstance(v, SList):
        for idx, x in enumerate(v.items):
            if x is old:
                v.items[idx] = new
            else:
                _replace_obj(x, old, new, seen)


def _pattern(xs: SymSeq, j: z3.ExprRef):
    e = xs.at(j)
    if V.is_z3(e):
        return e
    ref = getattr(e, "ref", None)
    if ref is not None:
        return ref
    items = getattr(e, "items", None)
    if items and V.is_z3(items[0]):
        return items[0]
    return j + 0


def _tnames(t: ast.AST) -> list[str]:
    if isinstance(t, ast.Name):
        return [t.id]
    if isinstance(t, (ast.Tuple, ast.List)):
        out = []
        for e in t.elts:
            out += _tnames(e)
        return out
    return []


def _check_closed(f: z3.ExprRef, i: z3.ExprRef, base_pc: int, st: State) -> None:
    """The continuation condition may mention only the generic index and pre-loop symbols. Fresh
    constants created during the generic iteration (call results, opaque values) would be captured
    by the quantifier: refuse."""
    pre_syms = set()
    for c in st.pc[:base_pc]:
        pre_syms |= _consts(c)
    extra = {str(c) for c in _consts(f)} - {str(c) for c in pre_syms} - {str(i)}
    bad = [c for c in extra if "!" in c and not c.startswith(("j!", "mj!", "sj!", "k!"))]
    # constants with '!' are interpreter-generated fresh symbols; those not known before the loop
    # were created inside the generic iteration
    if bad:
        raise OutsideSubset(f"loop continuation condition depends on values created inside the iteration: {bad[:3]}")


def _consts(f: z3.ExprRef) -> set:
    out = set()
    seen = set()
    stack = [f]
    while stack:
        x = stack.pop()
        if x.get_id() in seen:
            continue
        seen.add(x.get_id())
        if z3.is_const(x) and x.decl().kind() == z3.Z3_OP_UNINTERPRETED:
            out.add(x)
        if z3.is_quantifier(x):
            stack.append(x.body())
        else:
            stack.extend(x.children())
    return out
