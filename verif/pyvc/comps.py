"""Comprehensions and any()/all() over generators.

Concrete spine: unrolled. Symbolic sequence (SymSeq): replaced by a quantified summary.
  r = [f(x) for x in xs if p(x)]   introduces a fresh sequence r and an index map c with
     (A1) forall j. 0<=j<|xs| & p(xs[j])  =>  0 <= c(j) < |r|  &  r[c(j)] = f(xs[j])
     (A2) forall j1<j2 both qualifying  =>  c(j1) < c(j2)
     (A3) forall k. 0<=k<|r|  =>  0 <= d(k) < |xs| & p(xs[d(k)]) & c(d(k)) = k & r[k] = f(xs[d(k)])
  any(p(x) for x in xs) = exists j. 0<=j<|xs| & p(xs[j])     (as a Skolem-free z3 Exists)
The element expression and the condition are evaluated symbolically on a generic element; they must
not raise and must not depend on path forks other than through their own boolean structure.
"""
from __future__ import annotations

import ast
from typing import Any, Iterator

import z3

from verif.pyvc import val as V
from verif.pyvc.exprs import _and, _not, _or
from verif.pyvc.interp import Opaque, OutsideSubset, Raised, SDict, SList, State, STuple, SymObj, SymSeq, _Items, fresh


def comprehension(I, n: ast.AST, st: State) -> Iterator[tuple[State, Any]]:
    if len(n.generators) != 1:
        raise OutsideSubset("comprehension with several generators")
    g = n.generators[0]
    for s2, it in I.ev(g.iter, st):
        if isinstance(it, Raised):
            yield s2, it
            continue
        items = I.concrete_iter(it)
        if items is not None:
            yield from _unrolled(I, n, g, items, 0, [], s2)
            continue
        if isinstance(it, SymSeq) and not it.appended:
            yield from _summary(I, n, g, it, s2)
            continue
        if isinstance(it, Opaque):
            yield s2, Opaque("comp")
            continue
        raise OutsideSubset(f"comprehension over {type(it).__name__}")


def _unrolled(I, n, g, items: list, i: int, acc: list, st: State):
    if i == len(items):
        if isinstance(n, ast.DictComp):
            d = SDict()
            for k, v in acc:
                d.entries[k] = v
            yield st, d
        elif isinstance(n, ast.GeneratorExp):
            yield st, SList(acc)
        else:
            yield st, SList(acc)
        return
    saved = {k: st.env.get(k, _MISSING) for k in _target_names(g.target)}
    for s2, r in I.assign(g.target, items[i], st):
        if isinstance(r, Raised):
            yield s2, r
            continue
        for s3, conds in I.ev_list(list(g.ifs), s2):
            if isinstance(conds, Raised):
                yield s3, conds
                continue
            t = _and([I.truth(c) for c in conds])
            for s4, b in I.branch(s3, t):
                if not b:
                    yield from _unrolled(I, n, g, items, i + 1, acc, s4)
                    continue
                if isinstance(n, ast.DictComp):
                    for s5, kv in I.ev_list([n.key, n.value], s4):
                        if isinstance(kv, Raised):
                            yield s5, kv
                        else:
                            yield from _unrolled(I, n, g, items, i + 1, acc + [(kv[0], kv[1])], s5)
                else:
                    for s5, v in I.ev(n.elt, s4):
                        if isinstance(v, Raised):
                            yield s5, v
                        else:
                            yield from _unrolled(I, n, g, items, i + 1, acc + [v], s5)


_MISSING = object()


def _target_names(t: ast.AST) -> list[str]:
    if isinstance(t, ast.Name):
        return [t.id]
    if isinstance(t, (ast.Tuple, ast.List)):
        out = []
        for e in t.elts:
            out += _target_names(e)
        return out
    return []


def eval_on_element(I, exprs: list[ast.AST], target: ast.AST, elem: Any, st: State) -> list[tuple[z3.ExprRef, list]]:
    """Evaluate expressions with `target` bound to a generic element, in a scratch copy of the state.
    Returns [(guard, [values])]: guards partition the element space (from the expressions' own
    branching). Raising paths are not allowed."""
    scratch = st.clone()
    base = len(scratch.pc)
    out = []
    for s2, r in I.assign(target, elem, scratch):
        if isinstance(r, Raised):
            raise OutsideSubset("comprehension target binding raised")
        for s3, vals in I.ev_list(exprs, s2):
            if isinstance(vals, Raised):
                # an element on which the expression raises: record as a guard with a marker
                out.append((z3.And(*s3.pc[base:]) if len(s3.pc) > base else z3.BoolVal(True), None))
                continue
            guard = z3.And(*s3.pc[base:]) if len(s3.pc) > base else z3.BoolVal(True)
            out.append((guard, vals))
    return out


def _merge_bool(alts: list[tuple[z3.ExprRef, Any]], I) -> z3.ExprRef:
    parts = []
    for g, v in alts:
        t = v if not isinstance(v, bool) else z3.BoolVal(v)
        parts.append(z3.And(g, t))
    return z3.Or(*parts) if parts else z3.BoolVal(False)


def _merge_term(alts: list[tuple[z3.ExprRef, Any]], I, sort) -> z3.ExprRef:
    if not alts:
        raise OutsideSubset("empty alternatives")
    conv = []
    for g, v in alts:
        if sort == V.Val:
            conv.append((g, I.as_val(v)))
        elif sort == z3.StringSort():
            conv.append((g, v if V.is_z3(v) else z3.StringVal(v)))
        else:
            raise OutsideSubset("element sort")
    t = conv[-1][1]
    for g, v in reversed(conv[:-1]):
        t = z3.If(g, v, t)
    return t


def _summary(I, n, g, xs: SymSeq, st: State):
    j = fresh("j", z3.IntSort())
    elem = xs.at(j)
    exprs = list(g.ifs)
    alts = eval_on_element(I, exprs, g.target, elem, st) if exprs else [(z3.BoolVal(True), [])]
    if any(v is None for _, v in alts):
        raise OutsideSubset("comprehension condition may raise on some element")
    p_j = _merge_bool([(gd, _and([I.truth(c) for c in vals]) if vals else True) for gd, vals in alts], I)
    in_range = z3.And(j >= 0, j < xs.length)
    if isinstance(n, ast.GeneratorExp) and getattr(n, "_quant", None):
        raise OutsideSubset("internal")
    # element expression
    if isinstance(n, ast.DictComp):
        raise OutsideSubset("dict comprehension over a symbolic sequence")
    ealts = eval_on_element(I, [n.elt], g.target, elem, st)
    if any(v is None for _, v in ealts):
        raise OutsideSubset("comprehension element expression may raise")
    # result kind
    sample = ealts[0][1][0]
    from verif.pyvc.interp import SObj as _SObj

    if isinstance(sample, (_SObj, SDict)) and not exprs:
        # map to freshly built objects, no filter: same length, element i = template with j := i
        if len(ealts) != 1:
            raise OutsideSubset("object-building comprehension with branching element expression")
        template = sample
        out = SymSeq(None, "obj", f"map({xs.name})", xs.length, getattr(template, "cls", "dict"), lambda i, t=template, j=j: subst_tree(t, j, i if V.is_z3(i) else z3.IntVal(i)))
        out.fresh = True
        yield st, out
        return
    obj_mode = xs.kind == "obj" and isinstance(sample, SymObj)
    if obj_mode and not (isinstance(n.elt, ast.Name) and isinstance(g.target, ast.Name) and n.elt.id == g.target.id):
        raise OutsideSubset("mapping comprehension over objects")
    d0 = fresh("d0", z3.IntSort())
    d1 = fresh("d1", z3.IntSort())
    if obj_mode:
        r_len = fresh("rlen", z3.IntSort())
        sort = None
    else:
        sort = z3.StringSort() if (V.is_z3(sample) and sample.sort() == z3.StringSort()) or isinstance(sample, str) else V.Val
        f_j = _merge_term([(gd, vals[0]) for gd, vals in ealts], I, sort)
        r = z3.Function(f"r!{j}", z3.IntSort(), sort)
        r_len = fresh("rlen", z3.IntSort())
    # Sound consequences of r = [f(x) for x in xs if p(x)] (bounded-prefix axiomatisation: nothing is
    # said about r[k] for k >= 2):
    p_at = lambda t: z3.substitute(p_j, (j, t))  # noqa: E731
    rng = lambda t: z3.And(t >= 0, t < xs.length)  # noqa: E731
    ax = [r_len >= 0, r_len <= xs.length]
    # first / second element come from the least / second-least qualifying index
    ax.append(z3.Implies(r_len > 0, z3.And(rng(d0), p_at(d0))))
    ax.append(z3.Implies(r_len > 1, z3.And(rng(d1), p_at(d1), d0 < d1)))
    pat = xs.at(j).ref if obj_mode else xs.at(j)
    if not V.is_z3(pat):
        pat = j + 0
    ax.append(z3.ForAll([j], z3.Implies(z3.And(in_range, p_j), z3.And(r_len > 0, j >= d0)), patterns=[pat]))
    ax.append(z3.ForAll([j], z3.Implies(z3.And(in_range, p_j, j != d0), z3.And(r_len > 1, j >= d1)), patterns=[pat]))
    if not obj_mode:
        ax.append(z3.Implies(r_len > 0, r(0) == z3.substitute(f_j, (j, d0))))
        ax.append(z3.Implies(r_len > 1, r(1) == z3.substitute(f_j, (j, d1))))
    st.pc.extend(ax)
    if obj_mode:
        dmap = z3.Function(f"dmap!{j}", z3.IntSort(), z3.IntSort())
        st.pc.append(z3.And(dmap(0) == d0, dmap(1) == d1))
        k = fresh("k", z3.IntSort())
        st.pc.append(z3.ForAll([k], z3.Implies(z3.And(k >= 0, k < r_len), z3.And(rng(dmap(k)), p_at(dmap(k)))), patterns=[dmap(k)]))
        k1, k2 = fresh("k", z3.IntSort()), fresh("k", z3.IntSort())
        st.pc.append(z3.ForAll([k1, k2], z3.Implies(z3.And(k1 >= 0, k1 < k2, k2 < r_len), dmap(k1) < dmap(k2)), patterns=[z3.MultiPattern(dmap(k1), dmap(k2))]))
        out = SymSeq(None, "obj", f"filter({xs.name})", r_len, xs.elem_cls, lambda i, xs=xs, dmap=dmap: xs.at(dmap(i)))
        out.src = (xs, dmap, p_j, j)
    else:
        out = SymSeq(r, "str" if sort == z3.StringSort() else "val", f"comp({xs.name})", r_len)
        out.src = (xs, None, p_j, j)
    out.fresh = True
    yield st, out


def subst_tree(v: Any, j: z3.ExprRef, i: z3.ExprRef) -> Any:
    from verif.pyvc.interp import SObj as _SObj

    if V.is_z3(v):
        return z3.substitute(v, (j, i))
    if isinstance(v, _SObj):
        return _SObj(v.cls, {k: subst_tree(x, j, i) for k, x in v.fields.items()}, v.fresh)
    if isinstance(v, SList):
        return SList([subst_tree(x, j, i) for x in v.items], v.fresh)
    if isinstance(v, STuple):
        return STuple(subst_tree(x, j, i) for x in v.items)
    if isinstance(v, SDict):
        d = SDict({k: subst_tree(x, j, i) for k, x in v.entries.items()}, v.fresh)
        return d
    if isinstance(v, SymObj):
        return SymObj(z3.substitute(v.ref, (j, i)), v.cls, v.exact)
    return v


def quantified(I, kind: str, gen: ast.GeneratorExp, st: State) -> Iterator[tuple[State, Any]]:
    """any(...) / all(...) over a generator expression."""
    g = gen.generators[0]
    for s2, it in I.ev(g.iter, st):
        if isinstance(it, Raised):
            yield s2, it
            continue
        items = I.concrete_iter(it)
        if items is not None:
            # evaluate without forking where possible
            parts = []
            ok = True
            for x in items:
                alts = eval_on_element(I, list(g.ifs) + [gen.elt], g.target, x, s2)
                if any(v is None for _, v in alts):
                    ok = False
                    break
                conds = []
                for gd, vals in alts:
                    t = _and([I.truth(c) for c in vals[:-1]]) if len(vals) > 1 else True
                    e = I.truth(vals[-1])
                    tv = _and([t, e]) if kind == "any" else _or([_not(t), e])
                    conds.append(z3.And(gd, tv if not isinstance(tv, bool) else z3.BoolVal(tv)))
                parts.append(z3.Or(*conds) if len(conds) > 1 else conds[0])
            if ok:
                res = (z3.Or(*parts) if kind == "any" else z3.And(*parts)) if parts else (kind == "all")
                yield s2, (z3.simplify(res) if V.is_z3(res) else res)
                continue
            raise OutsideSubset("any/all element expression may raise")
        if isinstance(it, SymSeq) and not it.appended:
            j = fresh("j", z3.IntSort())
            alts = eval_on_element(I, list(g.ifs) + [gen.elt], g.target, it.at(j), s2)
            if any(v is None for _, v in alts):
                raise OutsideSubset("any/all element expression may raise")
            conds = []
            for gd, vals in alts:
                t = _and([I.truth(c) for c in vals[:-1]]) if len(vals) > 1 else True
                e = I.truth(vals[-1])
                tv = _and([t, e]) if kind == "any" else _or([_not(t), e])
                conds.append(z3.And(gd, tv if not isinstance(tv, bool) else z3.BoolVal(tv)))
            body = z3.Or(*conds) if len(conds) > 1 else conds[0]
            rng = z3.And(j >= 0, j < it.length)
            if kind == "any":
                yield s2, z3.Exists([j], z3.And(rng, body))
            else:
                yield s2, z3.ForAll([j], z3.Implies(rng, body))
            continue
        if isinstance(it, Opaque):
            yield s2, fresh("anyall", z3.BoolSort())
            continue
        raise OutsideSubset(f"{kind}() over {type(it).__name__}")
