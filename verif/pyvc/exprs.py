"""Expression evaluation for the pyvc interpreter (see interp.py)."""
from __future__ import annotations

import ast
from typing import Any, Iterator

import z3

from verif import extract
from verif.pyvc import val as V
from verif.pyvc.interp import (
    Opaque, OutsideSubset, Raised, SBound, SBuiltin, SClass, SDict, SEnum, SExc, SFunc, SList, SModule, SObj, State, STuple, SymObj, SymSeq, _hashable_const, _Items, fresh,
)

BUILTINS = {
    "isinstance", "len", "str", "int", "float", "bool", "list", "dict", "set", "tuple", "any", "all", "sorted", "min", "max", "sum", "range", "enumerate", "zip", "hasattr",
    "getattr", "repr", "type", "print", "abs", "frozenset", "reversed", "iter", "next", "open", "id", "hash", "round", "ord", "chr", "format", "map", "filter", "super",
    "ValueError", "TypeError", "KeyError", "IndexError", "Exception", "OSError", "PermissionError", "RuntimeError", "AttributeError", "OverflowError", "FileNotFoundError", "NotImplementedError",
}
EXC_BUILTINS = {"ValueError", "TypeError", "KeyError", "IndexError", "Exception", "OSError", "PermissionError", "RuntimeError", "AttributeError", "OverflowError", "FileNotFoundError", "NotImplementedError"}


def const_to_sym(c: Any) -> Any:
    """Extracted module constant -> interpreter value."""
    if isinstance(c, (str, int, float, bool)) or c is None:
        return c
    if isinstance(c, dict):
        d = SDict({k: const_to_sym(v) for k, v in c.items()}, fresh_obj=False)
        return d
    if isinstance(c, list):
        return SList([const_to_sym(x) for x in c], fresh_obj=False)
    if isinstance(c, tuple):
        return STuple(const_to_sym(x) for x in c)
    if isinstance(c, frozenset):
        # elements too: a set of enum members arrives as extract.Sym items, which must become SEnum values or
        # `member in THE_SET` would be (unsoundly) false
        items = [const_to_sym(x) for x in c]
        if all(_hashable_const(x) or isinstance(x, SEnum) for x in items):
            return frozenset(items)
        return Opaque("const:frozenset")
    if isinstance(c, extract.Rx):
        return c
    if isinstance(c, extract.Sym):
        return SEnum(c.base, c.attr)
    return Opaque(f"const:{type(c).__name__}")


def lookup_name(I, name: str, st: State) -> Any:
    if name in st.env:
        return st.env[name]
    outer = st.env.get("$outer")
    while outer is not None:
        if name in outer:
            return outer[name]
        outer = outer.get("$outer")
    mod = st.frame.module
    consts = extract.module_consts(mod)
    if name in consts:
        return const_to_sym(consts[name])
    r = I.pkg.resolve_name(mod, name)
    if r:
        kind, key = r
        if kind == "func":
            m, q = key.split(":")
            return SFunc(m, q)
        if kind == "class":
            m, q = key.split(":")
            return SClass(q, m)
        if kind == "module":
            return SModule(key)
        if kind == "ext":
            base = key.split(".")[-1]
            # constants re-exported from repository modules
            m = ".".join(key.split(".")[:-1])
            if m in I.pkg.modules:
                c2 = extract.module_consts(m)
                if base in c2:
                    return const_to_sym(c2[base])
            if base in EXC_BUILTINS or base.endswith(("Error", "Exception")):
                return SClass(base, None)
            return SModule(key)
    if name in BUILTINS:
        return SClass(name, None) if name in EXC_BUILTINS else SBuiltin(name)
    if name in ("True", "False", "None"):
        return {"True": True, "False": False, "None": None}[name]
    # a module-level table of classes (e.g. a priority tuple used with isinstance): tuple/list of class names or `A | B` unions
    tbl = _class_table(I, mod, name)
    if tbl is not None:
        return tbl
    # module-level non-constant global
    return Opaque(f"global:{mod}.{name}")


def _class_table(I, mod: str, name: str):
    try:
        tree = extract.module_ast(mod)
    except Exception:  # noqa: BLE001
        return None
    asg = [n for n in tree.body if isinstance(n, (ast.Assign, ast.AnnAssign)) and any(isinstance(t, ast.Name) and t.id == name for t in (n.targets if isinstance(n, ast.Assign) else [n.target]))]
    if len(asg) != 1 or asg[0].value is None or not isinstance(asg[0].value, (ast.Tuple, ast.List)):
        return None

    def one(e):
        if isinstance(e, ast.Name):
            r = I.pkg.resolve_name(mod, e.id)
            if r and r[0] == "class":
                m, q = r[1].split(":")
                return SClass(q, m)
            return None
        if isinstance(e, ast.BinOp) and isinstance(e.op, ast.BitOr):
            l, r2 = one(e.left), one(e.right)
            if l is None or r2 is None:
                return None
            return (l if isinstance(l, tuple) else (l,)) + (r2 if isinstance(r2, tuple) else (r2,))
        if isinstance(e, ast.Tuple):
            xs = [one(x) for x in e.elts]
            return None if any(x is None for x in xs) else tuple(y for x in xs for y in (x if isinstance(x, tuple) else (x,)))
        return None

    items = [one(e) for e in asg[0].value.elts]
    if any(x is None for x in items):
        return None
    return STuple(items) if isinstance(asg[0].value, ast.Tuple) else SList(items, fresh_obj=False)


def ev(I, n: ast.AST, st: State) -> Iterator[tuple[State, Any]]:
    if isinstance(n, ast.Constant):
        yield st, n.value
        return
    if isinstance(n, ast.Name):
        yield st, lookup_name(I, n.id, st)
        return
    if isinstance(n, ast.Await):
        yield from I.ev(n.value, st)
        return
    if isinstance(n, ast.NamedExpr):
        for s2, v in I.ev(n.value, st):
            if not isinstance(v, Raised):
                s2.env[n.target.id] = v
            yield s2, v
        return
    if isinstance(n, ast.Tuple):
        for s2, vs in I.ev_list(n.elts, st):
            yield s2, (vs if isinstance(vs, Raised) else STuple(vs))
        return
    if isinstance(n, ast.List):
        for s2, vs in I.ev_list(n.elts, st):
            yield s2, (vs if isinstance(vs, Raised) else SList(vs))
        return
    if isinstance(n, ast.Set):
        for s2, vs in I.ev_list(n.elts, st):
            if isinstance(vs, Raised):
                yield s2, vs
            elif all(_hashable_const(v) and not isinstance(v, SEnum) or isinstance(v, SEnum) for v in vs):
                yield s2, frozenset(vs)
            else:
                yield s2, SList(vs)
        return
    if isinstance(n, ast.Dict):
        keys = [k for k in n.keys]
        if any(k is None for k in keys):
            # {**other, ...}
            yield from _dict_with_splat(I, n, st)
            return
        for s2, ks in I.ev_list(keys, st):
            if isinstance(ks, Raised):
                yield s2, ks
                continue
            for s3, vs in I.ev_list(n.values, s2):
                if isinstance(vs, Raised):
                    yield s3, vs
                    continue
                if not all(_hashable_const(k) for k in ks):
                    # one symbolic string key (and nothing else): the same representation as a store under a symbolic
                    # key into an empty dict - recorded in sym_pairs, open for every other operation
                    if len(ks) == 1 and V.is_z3(ks[0]) and ks[0].sort() == z3.StringSort():
                        d = SDict({})
                        d.sym_pairs = [(ks[0], vs[0])]
                        d.open = True
                        yield s3, d
                        continue
                    raise OutsideSubset("dict literal with symbolic keys")
                yield s3, SDict(dict(zip(ks, vs)))
        return
    if isinstance(n, ast.JoinedStr):
        yield from _joined(I, n, st)
        return
    if isinstance(n, ast.IfExp):
        for s2, c in I.ev(n.test, st):
            if isinstance(c, Raised):
                yield s2, c
                continue
            for s3, b in I.branch(s2, I.truth(c)):
                yield from I.ev(n.body if b else n.orelse, s3)
        return
    if isinstance(n, ast.BoolOp):
        yield from _boolop(I, n.values, isinstance(n.op, ast.And), st)
        return
    if isinstance(n, ast.UnaryOp):
        for s2, v in I.ev(n.operand, st):
            if isinstance(v, Raised):
                yield s2, v
            elif isinstance(n.op, ast.Not):
                t = I.truth(v)
                yield s2, (not t) if isinstance(t, bool) else z3.Not(t)
            elif isinstance(n.op, ast.USub):
                if isinstance(v, (int, float)):
                    yield s2, -v
                elif V.is_z3(v) and v.sort() == z3.IntSort():
                    yield s2, -v
                else:
                    raise OutsideSubset("unary minus on non-int")
            else:
                raise OutsideSubset("unary op")
        return
    if isinstance(n, ast.Compare):
        yield from _compare(I, n, st)
        return
    if isinstance(n, ast.BinOp):
        for s2, vs in I.ev_list([n.left, n.right], st):
            if isinstance(vs, Raised):
                yield s2, vs
            else:
                a, b = vs
                # str + Any / Any + str: defined only when the Any operand is a str on this path
                sv = lambda x: isinstance(x, str) or (V.is_z3(x) and x.sort() == z3.StringSort())  # noqa: E731
                av = lambda x: V.is_z3(x) and x.sort() == V.Val  # noqa: E731
                if isinstance(n.op, ast.Add) and ((sv(a) and av(b)) or (av(a) and sv(b))):
                    anyv = b if av(b) else a
                    for s3, ok in I.branch(s2, V.is_VStr(anyv)):
                        if ok:
                            yield s3, binop(I, n.op, V.Val.s(a) if av(a) else a, V.Val.s(b) if av(b) else b, s3)
                        else:
                            yield s3, Raised(SExc("TypeError", note="str + non-str"))
                    continue
                yield s2, binop(I, n.op, a, b, s2)
        return
    if isinstance(n, ast.Attribute):
        for s2, o in I.ev(n.value, st):
            if isinstance(o, Raised):
                yield s2, o
            else:
                yield from get_attr(I, o, n.attr, s2)
        return
    if isinstance(n, ast.Subscript):
        yield from _subscript(I, n, st)
        return
    if isinstance(n, ast.Call):
        from verif.pyvc import calls

        yield from calls.call(I, n, st)
        return
    if isinstance(n, (ast.ListComp, ast.GeneratorExp, ast.SetComp, ast.DictComp)):
        from verif.pyvc import comps

        yield from comps.comprehension(I, n, st)
        return
    if isinstance(n, ast.Lambda):
        yield st, ("lambda", n, dict(st.env))
        return
    if isinstance(n, ast.Starred):
        yield from I.ev(n.value, st)
        return
    if isinstance(n, ast.Slice):
        for s2, vs in I.ev_list([x if x is not None else ast.Constant(value=None) for x in (n.lower, n.upper, n.step)], st):
            yield s2, (vs if isinstance(vs, Raised) else ("slice", vs[0], vs[1], vs[2]))
        return
    raise OutsideSubset(f"expression {type(n).__name__}")


def _dict_with_splat(I, n: ast.Dict, st: State):
    def go(i: int, s: State, acc: dict):
        if i == len(n.keys):
            yield s, SDict(acc)
            return
        if n.keys[i] is None:
            for s2, v in I.ev(n.values[i], s):
                if isinstance(v, Raised):
                    yield s2, v
                    continue
                if isinstance(v, SDict) and not v.open:
                    a2 = dict(acc)
                    a2.update(v.entries)
                    yield from go(i + 1, s2, a2)
                else:
                    raise OutsideSubset("** of a non-concrete dict")
        else:
            for s2, kv in I.ev_list([n.keys[i], n.values[i]], s):
                if isinstance(kv, Raised):
                    yield s2, kv
                    continue
                a2 = dict(acc)
                a2[kv[0]] = kv[1]
                yield from go(i + 1, s2, a2)

    yield from go(0, st, {})


def to_str_term(I, v: Any) -> Any:
    """str(v) as python str or z3 String."""
    if isinstance(v, str):
        return v
    if isinstance(v, bool) or v is None or isinstance(v, (int, float)):
        return str(v)
    if V.is_z3(v):
        return V.py_str(v)
    if isinstance(v, SEnum):
        return f"{v.cls}.{v.member}"
    if isinstance(v, SExc):
        return fresh("excmsg", z3.StringSort())
    if isinstance(v, (SObj, SList, SDict, STuple, SymSeq, SymObj, Opaque, frozenset)):
        return fresh("repr", z3.StringSort())
    raise OutsideSubset(f"str() of {type(v).__name__}")


def str_concat(parts: list) -> Any:
    if all(isinstance(p, str) for p in parts):
        return "".join(parts)
    zs = [z3.StringVal(p) if isinstance(p, str) else p for p in parts if not (isinstance(p, str) and p == "")]
    if not zs:
        return ""
    return zs[0] if len(zs) == 1 else z3.Concat(*zs)


def _joined(I, n: ast.JoinedStr, st: State):
    nodes = [v.value for v in n.values if isinstance(v, ast.FormattedValue)]
    for s2, vs in I.ev_list(nodes, st):
        if isinstance(vs, Raised):
            yield s2, vs
            continue
        parts = []
        it = iter(vs)
        for v in n.values:
            if isinstance(v, ast.Constant):
                parts.append(v.value)
            else:
                x = next(it)
                if v.format_spec is not None or v.conversion not in (-1, 115, 114):
                    parts.append(fresh("fmt", z3.StringSort()))
                elif v.conversion == 114:
                    parts.append(fresh("repr", z3.StringSort()) if not isinstance(x, (int, bool)) else repr(x))
                else:
                    parts.append(to_str_term(I, x))
        yield s2, str_concat(parts)


def _boolop(I, values: list[ast.AST], is_and: bool, st: State):
    for s2, v in I.ev(values[0], st):
        if isinstance(v, Raised) or len(values) == 1:
            yield s2, v
            continue
        t = I.truth(v)
        for s3, b in I.branch(s2, t):
            if b == is_and:
                yield from _boolop(I, values[1:], is_and, s3)
            else:
                yield s3, v


def is_none(v: Any) -> Any:
    if v is None:
        return True
    if V.is_z3(v):
        return V.is_VNone(v) if v.sort() == V.Val else False
    if isinstance(v, Opaque):
        return fresh(f"{v.tag}.isnone", z3.BoolSort())
    if type(v).__name__ == "SMatch":
        # re.match(...) returns None exactly when there is no match
        return _not(v.ok) if V.is_z3(v.ok) else (not v.ok)
    return False


def eq(I, a: Any, b: Any) -> Any:
    """Python == (bool or z3 Bool)."""
    if not V.is_z3(a) and not V.is_z3(b):
        if isinstance(a, (SObj, SymObj, SList, SDict, SymSeq, Opaque)) or isinstance(b, (SObj, SymObj, SList, SDict, SymSeq, Opaque)):
            if a is b:
                return True
            if isinstance(a, SObj) and isinstance(b, SObj) and a.cls == b.cls and set(a.fields) == set(b.fields):
                # dataclass equality: field-wise
                parts = [eq(I, a.fields[k], b.fields[k]) for k in a.fields]
                return _and(parts)
            if isinstance(a, SList) and isinstance(b, SList):
                if len(a.items) != len(b.items):
                    return False
                return _and([eq(I, x, y) for x, y in zip(a.items, b.items)])
            if isinstance(a, Opaque) or isinstance(b, Opaque):
                return fresh("opaque.eq", z3.BoolSort())
            if isinstance(a, (str, int, float, bool, type(None))) or isinstance(b, (str, int, float, bool, type(None))):
                return False
            return fresh("obj.eq", z3.BoolSort())
        if isinstance(a, STuple) and isinstance(b, STuple):
            if len(a.items) != len(b.items):
                return False
            return _and([eq(I, x, y) for x, y in zip(a.items, b.items)])
        return a == b
    if V.is_z3(a) and V.is_z3(b) and a.sort() == b.sort() and a.sort() != V.Val:
        return a == b
    if isinstance(a, (SObj, SymObj, SList, SDict, SymSeq, STuple, SEnum, Opaque)) or isinstance(b, (SObj, SymObj, SList, SDict, SymSeq, STuple, SEnum, Opaque)):
        za, zb = (a, b) if V.is_z3(a) else (b, a)
        if za.sort() != V.Val:
            return False
        if isinstance(zb, SymObj):
            return z3.And(V.is_VObj(za), z3.Or(V.Val.ref(za) == zb.ref, V.obj_eq(za, V.VObj(zb.ref))))
        return z3.And(V.is_VObj(za), fresh("objeq", z3.BoolSort()))
    return V.py_eq(a, b)


def _and(parts: list) -> Any:
    if any(p is False for p in parts):
        return False
    zs = [p for p in parts if p is not True]
    if not zs:
        return True
    return z3.And(*zs) if len(zs) > 1 else zs[0]


def _or(parts: list) -> Any:
    if any(p is True for p in parts):
        return True
    zs = [p for p in parts if p is not False]
    if not zs:
        return False
    return z3.Or(*zs) if len(zs) > 1 else zs[0]


def _not(p: Any) -> Any:
    return (not p) if isinstance(p, bool) else z3.Not(p)


def contains(I, container: Any, x: Any, st: State) -> Any:
    container = st.resolve(container)
    if isinstance(container, (SList, STuple)):
        return _or([eq(I, x, y) for y in container.items])
    if isinstance(container, (frozenset, tuple, list)):
        if isinstance(x, (str, int, bool)) or x is None or isinstance(x, SEnum):
            return x in container
        return _or([eq(I, x, y) for y in container])
    if isinstance(container, SDict):
        if getattr(container, "sym_exact", False) and not container.entries and (isinstance(x, str) or (V.is_z3(x) and x.sort() == z3.StringSort())):
            return _or([eq(I, x, k) for k, _ in container.sym_pairs])
        if _hashable_const(x):
            if x in container.entries:
                return True
            return fresh(f"{container.tag}.has[{x!r}]", z3.BoolSort()) if container.open else False
        parts = [eq(I, x, k) for k in container.entries]
        if container.open:
            parts.append(fresh(f"{container.tag}.has?", z3.BoolSort()))
        return _or(parts)
    if isinstance(container, str) or (V.is_z3(container) and container.sort() == z3.StringSort()):
        xs = x if V.is_z3(x) else z3.StringVal(x) if isinstance(x, str) else None
        if xs is None or (V.is_z3(xs) and xs.sort() != z3.StringSort()):
            raise OutsideSubset("`in` on a string with a non-string needle")
        c = container if V.is_z3(container) else z3.StringVal(container)
        if isinstance(container, str) and isinstance(x, str):
            return x in container
        return z3.Contains(c, xs)
    if isinstance(container, SymSeq):
        parts = [eq(I, x, y) for y in container.appended]
        j = fresh("mj", z3.IntSort())
        rng = z3.And(j >= 0, j < container.length)
        if container.kind == "str":
            xs = x if V.is_z3(x) else (z3.StringVal(x) if isinstance(x, str) else None)
            if xs is not None and xs.sort() == z3.StringSort():
                parts.append(z3.Exists([j], z3.And(rng, container.at(j) == xs)))
            elif xs is not None and xs.sort() == V.Val:
                parts.append(z3.And(V.is_VStr(xs), z3.Exists([j], z3.And(rng, container.at(j) == V.Val.s(xs)))))
        elif container.kind == "val":
            parts.append(z3.Exists([j], z3.And(rng, V.py_eq(container.at(j), I.as_val(x)))))
        else:
            raise OutsideSubset("`in` on a list of objects")
        return _or(parts)
    if V.is_z3(container) and container.sort() == V.Val:
        return fresh("val.contains", z3.BoolSort())
    if isinstance(container, Opaque):
        return fresh("opaque.contains", z3.BoolSort())
    raise OutsideSubset(f"`in` on {type(container).__name__}")


def _num_rel(op: ast.cmpop, a: Any, b: Any) -> Any:
    py = {ast.Lt: lambda x, y: x < y, ast.LtE: lambda x, y: x <= y, ast.Gt: lambda x, y: x > y, ast.GtE: lambda x, y: x >= y}
    for x in (a, b):
        if not V.is_z3(x) and not isinstance(x, (int, float, bool)):
            # an operand the engine has no numeric reading for (an opaque result, None, a heap object): outside the subset -
            # the contract answers undecided instead of the checker crashing inside z3's coercion
            raise OutsideSubset(f"ordering on {type(x).__name__}")
    if not V.is_z3(a) and not V.is_z3(b):
        return py[type(op)](a, b)
    za = a if V.is_z3(a) else None
    zb = b if V.is_z3(b) else None
    int_like = lambda z: z is None or z.sort() == z3.IntSort()  # noqa: E731
    if int_like(za) and int_like(zb) and not isinstance(a, float) and not isinstance(b, float):
        return py[type(op)](a, b)
    va, vb = V.to_val(a), V.to_val(b)
    if isinstance(op, ast.Lt):
        return V.num_lt(va, vb)
    if isinstance(op, ast.LtE):
        return V.num_le(va, vb)
    if isinstance(op, ast.Gt):
        return V.num_lt(vb, va)
    return V.num_le(vb, va)


def _compare(I, n: ast.Compare, st: State):
    nodes = [n.left] + list(n.comparators)
    for s2, vs in I.ev_list(nodes, st):
        if isinstance(vs, Raised):
            yield s2, vs
            continue
        parts = []
        for op, a, b in zip(n.ops, vs, vs[1:]):
            if isinstance(op, ast.Eq):
                parts.append(eq(I, a, b))
            elif isinstance(op, ast.NotEq):
                parts.append(_not(eq(I, a, b)))
            elif isinstance(op, ast.Is):
                parts.append(_is(a, b))
            elif isinstance(op, ast.IsNot):
                parts.append(_not(_is(a, b)))
            elif isinstance(op, ast.In):
                parts.append(contains(I, b, a, s2))
            elif isinstance(op, ast.NotIn):
                parts.append(_not(contains(I, b, a, s2)))
            else:
                if (isinstance(a, str) or isinstance(b, str)) and not (isinstance(a, str) and isinstance(b, str)):
                    raise OutsideSubset("ordering on strings")
                parts.append(_num_rel(op, a, b))
        yield s2, _and(parts)


def _is(a: Any, b: Any) -> Any:
    if a is None or b is None:
        return is_none(b if a is None else a)
    if isinstance(a, bool) and isinstance(b, bool):
        return a is b
    if isinstance(a, (SObj, SList, SDict, SymSeq)) and isinstance(b, (SObj, SList, SDict, SymSeq)):
        return a is b
    if isinstance(a, SymObj) and isinstance(b, SymObj):
        return a.ref == b.ref
    if isinstance(a, SEnum) and isinstance(b, SEnum):
        return a == b
    if V.is_z3(a) and V.is_z3(b) and a.sort() == b.sort():
        return a == b  # identity of immutable scalars approximated by equality (only used for bool/None tests)
    if isinstance(a, (SObj, SymObj)) or isinstance(b, (SObj, SymObj)):
        return False if not (isinstance(a, (SymObj, Opaque)) or isinstance(b, (SymObj, Opaque))) else fresh("is", z3.BoolSort())
    raise OutsideSubset("`is` between these operands")


def binop(I, op: ast.operator, a: Any, b: Any, st: State) -> Any:
    if isinstance(op, ast.BitOr) and isinstance(a, (SClass, SBuiltin, tuple)) and isinstance(b, (SClass, SBuiltin, tuple)):
        # int | float in isinstance
        return (a if isinstance(a, tuple) else (a,)) + (b if isinstance(b, tuple) else (b,))
    if isinstance(op, ast.BitOr) and (a is None or b is None) and (isinstance(a, (SClass, SBuiltin, tuple)) or isinstance(b, (SClass, SBuiltin, tuple))):
        x = a if a is not None else b
        return (x if isinstance(x, tuple) else (x,)) + (SBuiltin("NoneType"),)
    is_strish = lambda x: isinstance(x, str) or (V.is_z3(x) and x.sort() == z3.StringSort())  # noqa: E731
    is_intish = lambda x: (isinstance(x, int) and not isinstance(x, bool)) or (V.is_z3(x) and x.sort() == z3.IntSort())  # noqa: E731
    if isinstance(op, ast.Add):
        if is_strish(a) and is_strish(b):
            from verif.pyvc.exprs import str_concat

            return str_concat([a, b])
        if is_intish(a) and is_intish(b):
            return a + b
        if isinstance(a, SList) and isinstance(b, SList):
            return SList(a.items + b.items)
        if isinstance(a, STuple) and isinstance(b, STuple):
            return STuple(a.items + b.items)
        if isinstance(a, SymSeq) and isinstance(b, SList):
            n = SymSeq(a.seq, a.kind, a.name, a.length, a.elem_cls, a.elem_maker)
            n.appended = list(a.appended) + list(b.items)
            n.fresh = True
            return n
        if isinstance(a, SymSeq) and isinstance(b, SymSeq) and not a.appended and not b.appended:
            la = a.length
            n = SymSeq(None, "obj" if "obj" in (a.kind, b.kind) else a.kind, f"({a.name}+{b.name})", a.length + b.length, None, lambda i, a=a, b=b, la=la: z3.If(i < la, a.at(i), b.at(i - la)) if V.is_z3(a.at(i)) and V.is_z3(b.at(i - la)) else Opaque("concat.elem"))
            if n.kind != "obj":
                n.kind = "obj"
            n.concat_of = (a, b)
            n.fresh = True
            return n
    if isinstance(op, (ast.Sub, ast.Mult, ast.FloorDiv, ast.Mod)) and is_intish(a) and is_intish(b):
        if isinstance(op, ast.Sub):
            return a - b
        if isinstance(op, ast.Mult):
            return a * b
        if isinstance(a, int) and isinstance(b, int):
            return a // b if isinstance(op, ast.FloorDiv) else a % b
    if isinstance(op, ast.Mult) and isinstance(a, str) and is_intish(b) and isinstance(b, int):
        return a * b
    if isinstance(op, ast.Mult) and isinstance(a, str) and V.is_z3(b):
        return fresh("strrep", z3.StringSort())
    if isinstance(op, ast.Div) and isinstance(a, _PathLike) or isinstance(b, _PathLike):
        pass
    if isinstance(op, ast.BitAnd) and is_intish(a) and is_intish(b):
        return fresh("bitand", z3.IntSort()) if V.is_z3(a) or V.is_z3(b) else a & b
    if isinstance(a, Opaque) or isinstance(b, Opaque):
        return Opaque()
    if isinstance(op, ast.Sub) and isinstance(a, frozenset) and isinstance(b, frozenset):
        return a - b
    raise OutsideSubset(f"binary {type(op).__name__} on {type(a).__name__}, {type(b).__name__}")


class _PathLike:
    pass


def read_symobj_field(I, o: SymObj, attr: str, st: State) -> Any:
    """Field of a pre-existing object: latest store on this path whose ref equals o.ref, else the
    entry value given by the parameter spec's field function."""
    base = I.field_reader(o, attr)
    for ref, val in reversed(st.upd.get((o.cls, attr), [])):
        same = z3.simplify(ref == o.ref)
        if z3.is_true(same):
            return val
        if z3.is_false(same):
            continue
        # possible alias: only supported for Val-typed fields
        if V.is_z3(base) and V.is_z3(val) and base.sort() == val.sort():
            base = z3.If(same, val, base)
        elif V.is_z3(base) and base.sort() == V.Val:
            base = z3.If(same, I.as_val(val), base)
        else:
            raise OutsideSubset("aliased store to an object-typed field")
    return base


def get_attr(I, o: Any, attr: str, st: State) -> Iterator[tuple[State, Any]]:
    o = st.resolve(o)
    if isinstance(o, SObj):
        if attr in o.fields:
            yield st, o.fields[attr]
            return
        # class-level constant or method
        infos = I.pkg.class_by_name.get(o.cls, [])
        for ci in infos:
            for c in I.pkg.mro(ci):
                if attr in c.methods:
                    yield st, SBound(o, attr)
                    return
                consts = extract.module_consts(c.module)
                if f"{c.name}.{attr}" in consts:
                    from verif.pyvc.exprs import const_to_sym

                    yield st, const_to_sym(consts[f"{c.name}.{attr}"])
                    return
        if o.cls in ("str", "sha256", "bytes", "datetime"):
            yield st, SBound(o, attr)
            return
        hook = getattr(I, "attr_hook", None)
        if hook:
            r = hook(I, o, attr, st)
            if r is not None:
                yield st, r
                return
        yield st, Raised(SExc("AttributeError", note=f"{o.cls}.{attr}"))
        return
    if isinstance(o, SymObj):
        infos = I.pkg.class_by_name.get(o.cls, [])
        for ci in infos:
            for c in I.pkg.mro(ci):
                if attr in c.methods:
                    yield st, SBound(o, attr)
                    return
        yield st, read_symobj_field(I, o, attr, st)
        return
    if isinstance(o, SEnum):
        if attr == "value":
            if o.value is not None:
                yield st, o.value
                return
            v = I.enum_value(o)
            yield st, v
            return
        if attr == "name":
            yield st, o.member
            return
    if isinstance(o, SClass):
        infos = I.pkg.class_by_name.get(o.name, [])
        for ci in infos:
            if ci.is_enum:
                yield st, SEnum(o.name, attr)
                return
            if attr in ci.methods:
                yield st, SBound(o, attr)
                return
            consts = extract.module_consts(ci.module)
            if f"{ci.name}.{attr}" in consts:
                yield st, const_to_sym(consts[f"{ci.name}.{attr}"])
                return
        if attr == "__name__":
            yield st, o.name
            return
        yield st, SBound(o, attr)
        return
    if isinstance(o, SModule):
        m = o.name
        if m in I.pkg.modules:
            if f"{m}:{attr}" in I.pkg.funcs:
                yield st, SFunc(m, attr)
                return
            if f"{m}:{attr}" in I.pkg.classes:
                yield st, SClass(attr, m)
                return
            c = extract.module_consts(m)
            if attr in c:
                yield st, const_to_sym(c[attr])
                return
        yield st, SModule(f"{m}.{attr}")
        return
    if isinstance(o, SExc):
        if attr in ("message", "args", "error_code", "line", "column", "target_name"):
            yield st, fresh(f"exc.{attr}", z3.StringSort())
            return
    if isinstance(o, Opaque):
        yield st, Opaque(f"{o.tag}.{attr}")
        return
    if isinstance(o, tuple) and o and o[0] == "type" and attr == "__name__":
        v = o[1]
        if V.is_z3(v) or isinstance(v, (str, int, float, bool)) or v is None:
            yield st, V.type_name(I.as_val(v))
        elif isinstance(v, SObj):
            yield st, v.cls
        else:
            yield st, fresh("typename", z3.StringSort())
        return
    # methods on scalars / containers
    yield st, SBound(o, attr)


def _subscript(I, n: ast.Subscript, st: State):
    for s2, vs in I.ev_list([n.value, n.slice], st):
        if isinstance(vs, Raised):
            yield s2, vs
            continue
        o, k = vs
        yield from subscript(I, o, k, s2)


def clamp_index(I, st, x: Any, L: Any) -> Any:
    """Python's slice/str.find clamping of an index into [0, L]; when the path condition already
    entails 0 <= x <= L the index is used as is (keeps the string VCs small)."""
    if isinstance(x, int):
        if x >= 0:
            x = z3.IntVal(x)
        else:
            return z3.If(L + x < 0, 0, L + x)
    try:
        if not I.feasible(st, z3.Not(z3.And(x >= 0, x <= L))):
            return x
    except Exception:  # noqa: BLE001
        pass
    return z3.If(x < 0, z3.If(L + x < 0, 0, L + x), z3.If(x > L, L, x))


def _norm_index(i: Any, length: Any) -> Any:
    if isinstance(i, int) and isinstance(length, int):
        return i + length if i < 0 else i
    if isinstance(i, int):
        return (length + i) if i < 0 else i
    return z3.If(i < 0, i + length, i)


def subscript(I, o: Any, k: Any, st: State):
    o = st.resolve(o)
    # slices on strings
    is_str = isinstance(o, str) or (V.is_z3(o) and o.sort() == z3.StringSort())
    if isinstance(k, tuple) and k and k[0] == "slice":
        _, lo, hi, step = k
        if step is not None:
            raise OutsideSubset("slice step")
        if isinstance(o, str) and (lo is None or isinstance(lo, int)) and (hi is None or isinstance(hi, int)):
            yield st, o[lo:hi]
            return
        if is_str:
            s = o if V.is_z3(o) else z3.StringVal(o)
            L = z3.Length(s)
            lo2 = 0 if lo is None else lo
            hi2 = L if hi is None else hi

            def clamp(x):
                return clamp_index(I, st, x, L)

            a, b = clamp(lo2) if not (isinstance(lo2, int) and lo2 == 0) else z3.IntVal(0), clamp(hi2) if hi is not None else L
            if not I.feasible(st, z3.Not(b >= a)):
                yield st, z3.SubString(s, a, b - a)  # z3: substr with length 0 is ""
                return
            yield st, z3.If(b > a, z3.SubString(s, a, b - a), z3.StringVal(""))
            return
        if isinstance(o, SList) and (lo is None or isinstance(lo, int)) and (hi is None or isinstance(hi, int)):
            yield st, SList(o.items[lo:hi])
            return
        if isinstance(o, STuple) and (lo is None or isinstance(lo, int)) and (hi is None or isinstance(hi, int)):
            yield st, STuple(o.items[lo:hi])
            return
        raise OutsideSubset(f"slice of {type(o).__name__}")
    if isinstance(o, (SList, STuple)):
        if isinstance(k, int):
            if -len(o.items) <= k < len(o.items):
                yield st, o.items[k]
            else:
                yield st, Raised(SExc("IndexError"))
            return
        raise OutsideSubset("symbolic index into a concrete list")
    if isinstance(o, SDict):
        if _hashable_const(k):
            if k in o.entries:
                yield st, o.entries[k]
            elif o.open:
                s2 = st.clone()
                yield st, I.open_dict_value(o, k, st)
                yield s2, Raised(SExc("KeyError"))
            else:
                yield st, Raised(SExc("KeyError", note=repr(k)))
            return
        if getattr(o, "sym_exact", False) and not o.entries and V.is_z3(k) and k.sort() == z3.StringSort():
            # read by a symbolic key from a dict whose keys are exactly the symbolic keys stored so far: the latest store
            # under an equal key wins; no equal key => KeyError
            cur = st
            for j in range(len(o.sym_pairs) - 1, -1, -1):
                nxt = None
                ki = o.sym_pairs[j][0]
                for s2, b in I.branch(cur, eq(I, k, ki)):
                    if b:
                        yield s2, s2.resolve(o).sym_pairs[j][1]  # the dict's copy that belongs to this (possibly forked) state
                    else:
                        nxt = s2
                if nxt is None:
                    return
                cur = nxt
            yield cur, Raised(SExc("KeyError"))
            return
        raise OutsideSubset("symbolic key into a dict")
    if isinstance(o, SymSeq):
        total = o.length + len(o.appended) if o.appended else o.length
        idx = _norm_index(k, total)
        if isinstance(k, int) and k < 0 and o.appended and -k <= len(o.appended):
            yield st, o.appended[k]
            return
        ok = z3.And(idx >= 0, idx < o.length) if not o.appended else None
        if ok is None:
            raise OutsideSubset("index into a symbolic list with appended items")
        for s2, b in I.branch(st, ok):
            if b:
                yield s2, o.at(idx if V.is_z3(idx) else z3.IntVal(idx))
            else:
                yield s2, Raised(SExc("IndexError"))
        return
    if is_str:
        s = o if V.is_z3(o) else z3.StringVal(o)
        L = z3.Length(s)
        idx = _norm_index(k, L)
        ok = z3.And(idx >= 0, idx < L)
        for s2, b in I.branch(st, ok):
            if b:
                yield s2, z3.SubString(s, idx, 1)
            else:
                yield s2, Raised(SExc("IndexError"))
        return
    if isinstance(o, Opaque):
        s2 = st.clone()
        yield st, Opaque(f"{o.tag}[]")
        yield s2, Raised(SExc("AnyException"))
        return
    raise OutsideSubset(f"subscript on {type(o).__name__}")
