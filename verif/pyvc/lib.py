"""Library models for pyvc: builtins, str/list/dict methods, re, math, hashlib, datetime, json.
Every model states what it assumes; anything not modelled is an opaque call (may raise)."""
from __future__ import annotations

from typing import Any, Iterator

import z3

from verif import extract
from verif.pyvc import val as V
from verif.pyvc.calls import SMatch, opaque_call
from verif.pyvc.exprs import _and, _not, _or, contains, eq, is_none, str_concat, to_str_term
from verif.pyvc.interp import (
    Opaque, OutsideSubset, Raised, SBound, SBuiltin, SClass, SDict, SEnum, SExc, SFunc, SList, SModule, SObj, State, STuple, SymObj, SymSeq, _hashable_const, _Items, fresh,
)

sha256_fn = z3.Function("sha256", z3.StringSort(), z3.StringSort())  # A-sha: injective (collision freedom idealised)
iso_ok = z3.Function("fromisoformat_ok", z3.StringSort(), z3.BoolSort())  # A-datetime
_re_funcs: dict[tuple, z3.FuncDeclRef] = {}


def re_pred(pattern: str, flags: int, how: str) -> z3.FuncDeclRef:
    k = (pattern, flags, how)
    if k not in _re_funcs:
        _re_funcs[k] = z3.Function(f"re_{how}_{len(_re_funcs)}", z3.StringSort(), z3.BoolSort())
    return _re_funcs[k]


def re_group(pattern: str, flags: int, how: str, k: int) -> z3.FuncDeclRef:
    """group k of the match of `pattern` on a subject, as a function of the subject (A-regex-group: a
    participating str group; deterministic, so two reads agree)"""
    key = (pattern, flags, how, "group", k)
    if key not in _re_funcs:
        _re_funcs[key] = z3.Function(f"re_{how}_group{k}_{len(_re_funcs)}", z3.StringSort(), z3.StringSort())
    return _re_funcs[key]


def zstr(x: Any) -> z3.ExprRef:
    return x if V.is_z3(x) else z3.StringVal(x)


def is_strish(x: Any) -> bool:
    return isinstance(x, str) or (V.is_z3(x) and x.sort() == z3.StringSort())


def isinstance_test(I, v: Any, T: Any) -> Any:
    """bool or z3 Bool."""
    if isinstance(T, STuple):
        return _or([isinstance_test(I, v, t) for t in T.items])
    if isinstance(T, tuple):
        return _or([isinstance_test(I, v, t) for t in T])
    tname = T.name if isinstance(T, (SBuiltin, SClass)) else None
    if tname is None:
        raise OutsideSubset("isinstance against a non-class")
    prim = tname in ("str", "int", "float", "bool", "list", "dict", "tuple", "set", "frozenset", "NoneType", "object")
    if tname == "object":
        return True
    if V.is_z3(v):
        s = v.sort()
        if s == z3.BoolSort():
            return tname in ("bool", "int")
        if s == z3.IntSort():
            return tname == "int"
        if s == z3.StringSort():
            return tname == "str"
        if s == V.Val:
            if tname == "str":
                return V.is_VStr(v)
            if tname == "bool":
                return V.is_VBool(v)
            if tname == "int":
                return z3.Or(V.is_VInt(v), V.is_VBool(v))
            if tname == "float":
                return V.is_VFloat(v)
            if tname == "NoneType":
                return V.is_VNone(v)
            if prim:
                return z3.And(V.is_VObj(v), V.cls_of(V.Val.ref(v)) == V.class_id(tname))
            ids = _subclass_ids(I, tname)
            return z3.And(V.is_VObj(v), z3.Or(*[V.cls_of(V.Val.ref(v)) == i for i in ids]))
    if v is None:
        return tname == "NoneType"
    if isinstance(v, bool):
        return tname in ("bool", "int")
    if isinstance(v, int):
        return tname == "int"
    if isinstance(v, float):
        return tname == "float"
    if isinstance(v, str):
        return tname == "str"
    if isinstance(v, (SList, SymSeq)):
        return tname == "list"
    if isinstance(v, SDict):
        return tname == "dict"
    if isinstance(v, STuple):
        return tname == "tuple"
    if isinstance(v, frozenset):
        return tname in ("set", "frozenset")
    if isinstance(v, SObj):
        if prim:
            return False
        return _is_subclass(I, v.cls, tname)
    if isinstance(v, SymObj):
        if prim:
            return False
        if _is_subclass(I, v.cls, tname):
            return True
        if v.exact or not _is_subclass(I, tname, v.cls):
            return False
        ids = _subclass_ids(I, tname)
        return z3.Or(*[V.cls_of(v.ref) == i for i in ids])
    if isinstance(v, SExc):
        return _is_subclass(I, v.cls, tname)
    if isinstance(v, (SEnum,)):
        return v.cls == tname
    if isinstance(v, Opaque):
        return fresh(f"{v.tag}.isinstance.{tname}", z3.BoolSort())
    if isinstance(v, SMatch):
        return False
    raise OutsideSubset(f"isinstance of {type(v).__name__}")


def _is_subclass(I, name: str, base: str) -> bool:
    if name == base:
        return True
    for ci in I.pkg.class_by_name.get(name, []):
        if any(c.name == base for c in I.pkg.mro(ci)):
            return True
    return False


def _subclass_ids(I, name: str) -> list[int]:
    ids = [V.class_id(name)]
    for ci in I.pkg.class_by_name.get(name, []):
        for c in I.pkg.subclasses(ci):
            i = V.class_id(c.name)
            if i not in ids:
                ids.append(i)
    return ids


def py_len(I, x: Any, st: State) -> Iterator[tuple[State, Any]]:
    if isinstance(x, (str,)):
        yield st, len(x)
    elif isinstance(x, (SList, STuple)):
        if getattr(x, "is_set", False):
            raise OutsideSubset("len of a modelled set")
        if getattr(x, "havocked", False):
            yield st, fresh("len", z3.IntSort())
        else:
            yield st, len(x.items)
    elif isinstance(x, frozenset):
        yield st, len(x)
    elif isinstance(x, SDict):
        yield st, (len(x.entries) if not x.open else fresh("len", z3.IntSort()))
    elif isinstance(x, SymSeq):
        yield st, (x.length + len(x.appended) if x.appended else x.length)
    elif V.is_z3(x) and x.sort() == z3.StringSort():
        yield st, z3.Length(x)
    elif V.is_z3(x) and x.sort() == V.Val:
        for s2, b in I.branch(st, z3.Or(V.is_VStr(x), V.is_VObj(x))):
            if b:
                n = z3.If(V.is_VStr(x), z3.Length(V.Val.s(x)), V.len_of_obj(V.Val.ref(x)))
                s2.pc.append(V.len_of_obj(V.Val.ref(x)) >= 0)
                yield s2, n
            else:
                yield s2, Raised(SExc("TypeError", note="len() of a scalar"))
    elif isinstance(x, Opaque):
        s2 = st.clone()
        n = fresh("len", z3.IntSort())
        st.pc.append(n >= 0)
        yield st, n
        yield s2, Raised(SExc("TypeError"))
    else:
        raise OutsideSubset(f"len of {type(x).__name__}")


_FLOAT_ROUND = z3.Function("float_round_of_int", z3.IntSort(), z3.RealSort())


def py_float(I, x: Any, st: State) -> Iterator[tuple[State, Any]]:
    """float(x): Val in -> Val (VFloat) out; str may raise ValueError; None/objects raise TypeError."""
    if isinstance(x, (int, float)) and not isinstance(x, bool):
        yield st, V.to_val(float(x))
        return
    v = I.as_val(x) if not (V.is_z3(x) and x.sort() == V.Val) else x
    if V.is_z3(x) and x.sort() == z3.StringSort():
        v = V.VStr(x)
    for s2, b in I.branch(st, V.is_numeric(v)):
        if b:
            # float(int) is NOT the identity on mathematical integers: exact up to 2**53, ROUNDED beyond (an uninterpreted
            # function of the integer: nothing may be concluded from the rounded value), OverflowError from 2**1024 on.
            # (Before round 6 it was modelled as exact, which hid RANGE's float(value) on big integers.)
            for s3, is_int in I.branch(s2, V.is_VInt(v)):
                if not is_int:
                    rv, k = V.num_parts(v)
                    yield s3, V.VFloat(rv, k)
                    continue
                i = V.Val.i(v)
                mag = z3.If(i >= 0, i, -i)
                for s4, small in I.branch(s3, mag <= 2**53):
                    if small:
                        yield s4, V.VFloat(z3.ToReal(i), z3.IntVal(0))
                        continue
                    for s5, huge in I.branch(s4, mag >= 2**1024):
                        if huge:
                            yield s5, Raised(SExc("OverflowError", note="float() of an integer beyond the float range"))
                        else:
                            yield s5, V.VFloat(_FLOAT_ROUND(i), z3.IntVal(0))
        else:
            for s3, b2 in I.branch(s2, V.is_VStr(v)):
                if b2:
                    s = V.Val.s(v)
                    for s4, ok in I.branch(s3, V.float_str_ok(s)):
                        if ok:
                            k = V.float_of_str_k(s)
                            s4.pc.append(z3.And(k >= 0, k <= 3))
                            yield s4, V.VFloat(V.float_of_str_v(s), k)
                        else:
                            yield s4, Raised(SExc("ValueError", note="float()"))
                else:
                    yield s3, Raised(SExc("TypeError", note="float()"))


def py_int(I, x: Any, st: State) -> Iterator[tuple[State, Any]]:
    if isinstance(x, int):
        yield st, int(x)
        return
    if isinstance(x, str):
        try:
            yield st, int(x)
        except ValueError:
            yield st, Raised(SExc("ValueError"))
        return
    v = V.VStr(x) if (V.is_z3(x) and x.sort() == z3.StringSort()) else I.as_val(x)
    for s2, b in I.branch(st, V.is_VStr(v)):
        if b:
            s = V.Val.s(v)
            for s3, ok in I.branch(s2, V.int_str_ok(s)):
                yield (s3, V.int_of_str(s)) if ok else (s3, Raised(SExc("ValueError", note="int()")))
        else:
            for s3, b2 in I.branch(s2, z3.Or(V.is_VInt(v), V.is_VBool(v))):
                if b2:
                    yield s3, z3.If(V.is_VInt(v), V.Val.i(v), z3.If(V.Val.b(v), 1, 0))
                else:
                    s4 = s3.clone()
                    yield s3, fresh("int", z3.IntSort())
                    yield s4, Raised(SExc("TypeError", note="int()"))


def builtin(I, name: str, pos: list, kw: dict, st: State) -> Iterator[tuple[State, Any]]:
    if name == "isinstance":
        yield st, isinstance_test(I, pos[0], pos[1])
        return
    if name == "len":
        yield from py_len(I, pos[0], st)
        return
    if name == "str":
        yield st, ("" if not pos else to_str_term(I, pos[0]))
        return
    if name == "repr":
        yield st, (repr(pos[0]) if isinstance(pos[0], (int, bool, str)) else fresh("repr", z3.StringSort()))
        return
    if name == "bool":
        yield st, (False if not pos else I.truth(pos[0]))
        return
    if name == "float":
        yield from py_float(I, pos[0], st)
        return
    if name == "int":
        yield from py_int(I, pos[0], st)
        return
    if name in ("list", "tuple"):
        if not pos:
            yield st, (SList() if name == "list" else STuple(()))
            return
        items = I.concrete_iter(pos[0])
        if items is not None:
            yield st, (SList(items) if name == "list" else STuple(items))
            return
        if isinstance(pos[0], SymSeq):
            n = SymSeq(pos[0].seq, pos[0].kind, pos[0].name, pos[0].length, pos[0].elem_cls, pos[0].elem_maker)
            n.appended = list(pos[0].appended)
            n.fresh = True
            yield st, n
            return
        raise OutsideSubset(f"{name}() of {type(pos[0]).__name__}")
    if name == "dict":
        if not pos and not kw:
            yield st, SDict()
            return
        if pos and isinstance(pos[0], SDict):
            d = SDict(dict(pos[0].entries))
            d.open = pos[0].open
            yield st, d
            return
        raise OutsideSubset("dict() call form")
    if name in ("set", "frozenset"):
        if not pos:
            yield st, frozenset()
            return
        items = I.concrete_iter(pos[0])
        if items is not None and all(_hashable_const(x) for x in items):
            yield st, frozenset(items)
            return
        if items is not None:
            yield st, SList(items)  # set of symbolic items: kept as a list (membership = Or of equalities)
            return
        raise OutsideSubset("set() of a symbolic sequence")
    if name in ("any", "all"):
        items = I.concrete_iter(pos[0])
        if items is None:
            raise OutsideSubset(f"{name}() over a symbolic sequence outside a generator expression")
        ts = [I.truth(x) for x in items]
        yield st, (_or(ts) if name == "any" else _and(ts))
        return
    if name == "sorted":
        items = I.concrete_iter(pos[0])
        if items is not None and all(isinstance(x, (str, int)) for x in items) and "key" not in kw:
            yield st, SList(sorted(items))
            return
        if items is not None and len(items) <= 1:
            yield st, SList(items)
            return
        yield st, Opaque("sorted")
        return
    if name == "range":
        if all(isinstance(p, int) for p in pos):
            yield st, range(*pos)
            return
        if len(pos) == 1 and V.is_z3(pos[0]) and pos[0].sort() == z3.IntSort():
            n = pos[0]
            yield st, SymSeq(None, "range", f"range({n})", z3.If(n > 0, n, 0))
            return
        raise OutsideSubset("range with symbolic bounds of this form")
    if name == "enumerate":
        items = I.concrete_iter(pos[0])
        if items is None:
            raise OutsideSubset("enumerate of a symbolic sequence")
        start = kw.get("start", pos[1] if len(pos) > 1 else 0)
        yield st, SList([STuple((start + i, x)) for i, x in enumerate(items)])
        return
    if name == "zip":
        seqs = [I.concrete_iter(p) for p in pos]
        if any(s is None for s in seqs):
            raise OutsideSubset("zip of symbolic sequences")
        yield st, SList([STuple(t) for t in zip(*seqs)])
        return
    if name == "hasattr":
        o, a = pos
        if isinstance(o, SObj) and isinstance(a, str):
            if a in o.fields:
                yield st, True
                return
            for ci in I.pkg.class_by_name.get(o.cls, []):
                for c in I.pkg.mro(ci):
                    if a in c.fields or a in c.methods:
                        yield st, True
                        return
            yield st, False
            return
        if isinstance(o, SymObj) and isinstance(a, str):
            for ci in I.pkg.class_by_name.get(o.cls, []):
                for c in I.pkg.mro(ci):
                    if a in c.fields or a in c.methods:
                        yield st, True
                        return
            yield st, fresh("hasattr", z3.BoolSort())
            return
        yield st, fresh("hasattr", z3.BoolSort())
        return
    if name == "getattr":
        o, a = pos[0], pos[1]
        if isinstance(a, str):
            from verif.pyvc.exprs import get_attr

            for s2, r in get_attr(I, o, a, st):
                if isinstance(r, Raised) and len(pos) > 2:
                    yield s2, pos[2]
                else:
                    yield s2, r
            return
        raise OutsideSubset("getattr with a symbolic name")
    if name == "type":
        v = pos[0]
        yield st, ("type", v)
        return
    if name == "print":
        yield st, None
        return
    if name in ("min", "max", "sum", "abs", "round"):
        if all(isinstance(p, (int, float)) for p in pos):
            yield st, {"min": min, "max": max, "sum": sum, "abs": abs, "round": round}[name](*pos)
            return
        yield st, Opaque(name)
        return
    if name == "id" or name == "hash":
        yield st, fresh(name, z3.IntSort())
        return
    if name == "open":
        hook = getattr(I, "open_hook", None)
        if hook:
            yield from hook(I, pos, kw, st)
            return
    yield from opaque_call(I, name, pos, kw, st)


# ---- methods on scalars and containers ------------------------------------------------------------------------


def method(I, recv: Any, name: str, pos: list, kw: dict, st: State) -> Iterator[tuple[State, Any]]:
    if isinstance(recv, tuple) and recv and recv[0] == "type":
        if name == "__name__":
            pass
    if is_strish(recv):
        yield from str_method(I, recv, name, pos, kw, st)
        return
    if V.is_z3(recv) and recv.sort() == V.Val:
        # method call on an Any value: only safe if it is a str on this path
        for s2, b in I.branch(st, V.is_VStr(recv)):
            if b:
                yield from str_method(I, V.Val.s(recv), name, pos, kw, s2)
            else:
                yield s2, Raised(SExc("AttributeError", note=f"Any.{name}"))
        return
    if isinstance(recv, SList):
        yield from list_method(I, recv, name, pos, kw, st)
        return
    if isinstance(recv, SymSeq):
        if name == "append":
            recv.appended.append(pos[0])
            st.trace.append(("append", recv.name))
            yield st, None
            return
        if name == "extend":
            items = I.concrete_iter(pos[0])
            if items is None:
                raise OutsideSubset("extend with a symbolic sequence")
            recv.appended.extend(items)
            st.trace.append(("append", recv.name))
            yield st, None
            return
        if name == "copy":
            n = SymSeq(recv.seq, recv.kind, recv.name, recv.length, recv.elem_cls, recv.elem_maker)
            n.appended = list(recv.appended)
            n.fresh = True
            yield st, n
            return
        raise OutsideSubset(f"list.{name} on a symbolic list")
    if isinstance(recv, SDict):
        yield from dict_method(I, recv, name, pos, kw, st)
        return
    if isinstance(recv, extract.Rx):
        if name in ("match", "search", "fullmatch"):
            s = pos[0]
            if isinstance(s, str):
                import re as _re

                real = getattr(_re.compile(recv.pattern, recv.flags), name)(s)
                yield st, SMatch(real is not None, recv.pattern, (recv.pattern, recv.flags, name), s, real)
                return
            if not is_strish(s):
                if V.is_z3(s) and s.sort() == V.Val:
                    s = V.Val.s(s)
                else:
                    raise OutsideSubset("regex on a non-string")
            ok = re_pred(recv.pattern, recv.flags, name)(zstr(s))
            yield st, SMatch(ok, f"{recv.pattern}", (recv.pattern, recv.flags, name), zstr(s))
            return
        if name == "sub":
            yield st, fresh("re.sub", z3.StringSort())
            return
    if isinstance(recv, SMatch):
        if name == "group" and len(pos) <= 1 and all(isinstance(k, int) for k in pos) and recv.rx is not None:
            k = pos[0] if pos else 0
            if recv.real is not None:
                yield st, recv.real.group(k)
                return
            if recv.real is None and isinstance(recv.subject, str):
                yield st, Raised(SExc("AttributeError", note="group on a failed match"))
                return
            yield st, re_group(*recv.rx, k)(recv.subject)
            return
        if name in ("group", "groups", "end", "start"):
            yield st, fresh("match.group", z3.StringSort())
            return
    if isinstance(recv, SObj) and recv.cls == "sha256":
        if name == "hexdigest":
            yield st, sha256_fn(zstr(recv.fields["data"]))
            return
    if isinstance(recv, frozenset):
        if name == "copy":
            yield st, recv
            return
    if isinstance(recv, SExc):
        yield st, Opaque(f"exc.{name}")
        return
    if isinstance(recv, Opaque):
        yield from opaque_call(I, f"{recv.tag}.{name}", pos, kw, st)
        return
    hook = getattr(I, "method_hook", None)
    if hook:
        r = hook(I, recv, name, pos, kw, st)
        if r is not None:
            yield from r
            return
    raise OutsideSubset(f"method {name} on {type(recv).__name__}")


def str_method(I, s: Any, name: str, pos: list, kw: dict, st: State) -> Iterator[tuple[State, Any]]:
    conc = isinstance(s, str) and all(isinstance(p, (str, int)) or p is None for p in pos)
    if conc and name in ("lower", "upper", "strip", "lstrip", "rstrip", "startswith", "endswith", "replace", "isdigit", "isalpha", "isalnum", "find", "count", "title", "zfill", "isascii", "isspace", "isdecimal", "rfind", "removeprefix", "removesuffix", "casefold"):
        yield st, getattr(s, name)(*pos)
        return
    if conc and name in ("split", "rsplit", "splitlines"):
        yield st, SList(getattr(s, name)(*pos))
        return
    z = zstr(s)
    if name == "lower":
        yield st, V.str_lower(z)
        return
    if name == "upper":
        yield st, V.str_upper(z)
        return
    if name == "strip" and not pos:
        r = V.str_strip(z)
        # axioms: result is a substring no longer than the input; idempotent
        st.pc.append(z3.And(z3.Length(r) <= z3.Length(z), z3.Contains(z, r), V.str_strip(r) == r))
        yield st, r
        return
    if name in ("startswith", "endswith"):
        p = pos[0]
        alts = p.items if isinstance(p, STuple) else [p]
        f = z3.PrefixOf if name == "startswith" else z3.SuffixOf
        yield st, _or([f(zstr(a), z) for a in alts])
        return
    if name == "join":
        items = I.concrete_iter(pos[0])
        if items is None:
            yield st, fresh("join", z3.StringSort())
            return
        parts: list = []
        for i, it in enumerate(items):
            if i:
                parts.append(s)
            if not is_strish(it):
                if V.is_z3(it) and it.sort() == V.Val:
                    it = V.Val.s(it)
                else:
                    yield st, Raised(SExc("TypeError", note="join of non-str"))
                    return
            parts.append(it)
        yield st, str_concat(parts)
        return
    if name == "format":
        yield st, fresh("format", z3.StringSort())
        return
    if name == "encode":
        yield st, SObj("bytes", {"text": s})
        return
    if name in ("replace", "lstrip", "rstrip", "strip", "title", "casefold", "zfill", "removeprefix", "removesuffix", "expandtabs"):
        f = z3.Function(f"str_{name}_{len(pos)}", *([z3.StringSort()] * (1 + len(pos))), z3.StringSort())
        yield st, f(z, *[zstr(p) for p in pos])
        return
    if name in ("isdigit", "isalpha", "isalnum", "isascii", "isspace", "isdecimal", "isupper", "islower"):
        f = z3.Function(f"str_{name}", z3.StringSort(), z3.BoolSort())
        yield st, f(z)
        return
    if name in ("find", "index", "rfind", "rindex") and 1 <= len(pos) <= 3 and is_strish(pos[0]):
        # exact semantics over the clamped window [lo, hi): first / last occurrence, -1 or ValueError when absent
        sub = zstr(pos[0])
        L = z3.Length(z)

        def clamp(x, default):
            if x is None:
                return default
            from verif.pyvc.exprs import clamp_index

            return clamp_index(I, st, x, L)

        lo = clamp(pos[1] if len(pos) > 1 else None, z3.IntVal(0))
        hi = clamp(pos[2] if len(pos) > 2 else None, L)
        window = z3.SubString(z, lo, hi - lo) if not I.feasible(st, z3.Not(hi >= lo)) else z3.If(hi > lo, z3.SubString(z, lo, hi - lo), z3.StringVal(""))
        found = z3.And(lo <= hi, z3.Contains(window, sub))
        r = fresh(f"str.{name}", z3.IntSort())
        n = z3.Length(sub)
        if name in ("find", "index"):
            # first occurrence: position of sub in the window
            ax = z3.And(r == lo + z3.IndexOf(window, sub, 0))
        else:
            ax = z3.And(r >= lo, r + n <= hi, z3.SubString(z, r, n) == sub, z3.Not(z3.Contains(z3.SubString(z, r + 1, hi - (r + 1)), sub)))
        for s2, b in I.branch(st, found):
            if b:
                s2.pc.append(ax)
                yield s2, r
            elif name in ("find", "rfind"):
                yield s2, -1
            else:
                yield s2, Raised(SExc("ValueError", note="substring not found"))
        return
    if name == "count" and len(pos) == 1 and is_strish(pos[0]):
        c = V.str_count(z, zstr(pos[0]))
        st.pc.append(z3.And(c >= 0, c <= z3.Length(z), (c == 0) == z3.Not(z3.Contains(z, zstr(pos[0])))))
        yield st, c
        return
    if name in ("find", "index", "rfind", "rindex", "count"):
        yield st, fresh(f"str.{name}", z3.IntSort())
        return
    if name in ("split", "rsplit", "splitlines"):
        # result: a non-empty list of strings (at least one part), otherwise uninterpreted
        f = z3.Function(f"split!{id(z) % 100000}!{len(st.pc)}", z3.IntSort(), z3.StringSort())
        ln = fresh("nparts", z3.IntSort())
        st.pc.append(ln >= (0 if name == "splitlines" or not pos else 1))
        out = SymSeq(f, "str", f"{name}(...)", ln)
        out.fresh = True
        yield st, out
        return
    if name == "partition":
        yield st, Opaque(f"str.{name}")
        return
    raise OutsideSubset(f"str.{name}")


def list_method(I, lst: SList, name: str, pos: list, kw: dict, st: State) -> Iterator[tuple[State, Any]]:
    if getattr(lst, "is_set", False):
        # a set modelled by the list of the elements added so far: only membership and `add` are meaningful
        if name != "add":
            raise OutsideSubset(f"set.{name}")
        lst.items.append(pos[0])
        yield st, None
        return
    if name == "append":
        lst.items.append(pos[0])
        yield st, None
    elif name == "extend":
        items = I.concrete_iter(pos[0])
        if items is None:
            if isinstance(pos[0], SymSeq) and not lst.items:
                raise OutsideSubset("extend of a concrete list with a symbolic one")
            raise OutsideSubset("extend with a symbolic sequence")
        lst.items.extend(items)
        yield st, None
    elif name == "insert" and isinstance(pos[0], int):
        lst.items.insert(pos[0], pos[1])
        yield st, None
    elif name == "pop":
        if not lst.items:
            yield st, Raised(SExc("IndexError"))
        else:
            yield st, lst.items.pop(*[p for p in pos if isinstance(p, int)])
    elif name == "copy":
        yield st, SList(lst.items)
    elif name == "index":
        for i, x in enumerate(lst.items):
            if x is pos[0] or (isinstance(x, (str, int)) and x == pos[0]):
                yield st, i
                return
        yield st, Raised(SExc("ValueError"))
    elif name == "sort":
        if len(lst.items) <= 1 or all(isinstance(x, (str, int)) for x in lst.items):
            lst.items.sort() if all(isinstance(x, (str, int)) for x in lst.items) else None
            yield st, None
        else:
            raise OutsideSubset("sort of symbolic items")
    elif name == "clear":
        lst.items.clear()
        yield st, None
    elif name == "reverse":
        lst.items.reverse()
        yield st, None
    else:
        raise OutsideSubset(f"list.{name}")


def _reclone(val, s2, st):
    return val


def dict_method(I, d: SDict, name: str, pos: list, kw: dict, st: State) -> Iterator[tuple[State, Any]]:
    if name == "get":
        k = pos[0]
        default = pos[1] if len(pos) > 1 else kw.get("default")
        if _hashable_const(k):
            if k in d.entries:
                yield st, d.entries[k]
            elif d.open:
                yield st, I.open_dict_get(d, k, default, st)
            else:
                yield st, default
            return
        # symbolic key against concrete entries
        if V.is_z3(k) and not d.open:
            cur = st
            for kk, vv in list(d.entries.items()):
                c = eq(I, k, kk)
                nxt = None
                for s2, b in I.branch(cur, c):
                    if b:
                        yield s2, vv
                    else:
                        nxt = s2
                if nxt is None:
                    return
                cur = nxt
            yield cur, default
            return
        if d.open and getattr(d, "sym_get", None) is not None:
            for cond, val in d.sym_get(I, k, default):
                if cond is True:
                    yield st, val
                    return
                s2 = st.clone()
                if I.feasible(s2, cond):
                    s2.pc.append(cond)
                    yield s2, _reclone(val, s2, st)
            return
        raise OutsideSubset("dict.get with a symbolic key on an open dict")
    if name in ("items", "keys", "values"):
        if d.open:
            raise OutsideSubset(f"dict.{name}() of an open (symbolic) dict")
        if name == "items":
            yield st, _Items(list(d.entries.items()))
        elif name == "keys":
            yield st, SList(list(d.entries.keys()), fresh_obj=True)
        else:
            yield st, SList(list(d.entries.values()), fresh_obj=True)
        return
    if name == "copy":
        n = SDict(dict(d.entries))
        n.open = d.open
        yield st, n
        return
    if name == "pop":
        k = pos[0]
        if _hashable_const(k):
            if k in d.entries:
                yield st, d.entries.pop(k)
            elif len(pos) > 1:
                yield st, pos[1]
            elif d.open:
                yield st, Opaque("pop")
            else:
                yield st, Raised(SExc("KeyError"))
            return
        raise OutsideSubset("dict.pop with a symbolic key")
    if name == "update":
        o = pos[0] if pos else SDict(kw)
        if isinstance(o, SDict) and not o.open:
            d.entries.update(o.entries)
            yield st, None
            return
        raise OutsideSubset("dict.update with a symbolic dict")
    if name == "setdefault":
        k = pos[0]
        if _hashable_const(k):
            if k not in d.entries:
                d.entries[k] = pos[1] if len(pos) > 1 else None
            yield st, d.entries[k]
            return
    raise OutsideSubset(f"dict.{name}")


# ---- module-level library functions ---------------------------------------------------------------------------


def module_call(I, name: str, pos: list, kw: dict, st: State) -> Iterator[tuple[State, Any]]:
    short = name.split(".")[-1]
    if name.endswith("math.isfinite") or name == "math.isfinite":
        v = pos[0]
        if isinstance(v, (int, float)):
            import math

            yield st, math.isfinite(v)
            return
        vv = I.as_val(v)
        _, k = V.num_parts(vv)
        yield st, k == 0
        return
    if name.endswith("hashlib.sha256"):
        b = pos[0]
        data = b.fields["text"] if isinstance(b, SObj) and b.cls == "bytes" else fresh("bytes", z3.StringSort())
        yield st, SObj("sha256", {"data": data})
        return
    if name.endswith("datetime.fromisoformat") or name.endswith("datetime.datetime.fromisoformat"):
        s = pos[0]
        if V.is_z3(s) and s.sort() == V.Val:
            s = V.Val.s(s)
        for s2, ok in I.branch(st, iso_ok(zstr(s))):
            yield (s2, SObj("datetime", {})) if ok else (s2, Raised(SExc("ValueError", note="fromisoformat")))
        return
    if name in ("re.match", "re.search", "re.fullmatch") or name.endswith((".re.match", ".re.search")):
        pat, s = pos[0], pos[1]
        if isinstance(pat, str):
            flags = pos[2] if len(pos) > 2 and isinstance(pos[2], int) else (kw.get("flags", 0) if isinstance(kw.get("flags", 0), int) else 0)
            if V.is_z3(s) and s.sort() == V.Val:
                s = V.Val.s(s)
            yield st, SMatch(re_pred(pat, flags, short)(zstr(s)), pat)
            return
    if name == "re.compile":
        if isinstance(pos[0], str):
            try:
                import re as _re

                _re.compile(pos[0])
                yield st, extract.Rx(pos[0], 0)
            except Exception:
                yield st, Raised(SExc("re.error"))
            return
        s2 = st.clone()
        yield st, Opaque("re.compile")
        yield s2, Raised(SExc("re.error"))
        return
    if name.endswith("re.escape"):
        yield st, fresh("re.escape", z3.StringSort())
        return
    if name.endswith("dataclasses.replace") or name == "replace":
        o = pos[0]
        if isinstance(o, SObj):
            n = SObj(o.cls, dict(o.fields))
            n.fields.update(kw)
            n._orig = getattr(o, "_orig", o.name)  # provenance of dataclasses.replace copies
            st.trace.append(("new", n.name, o.cls))
            yield st, n
            return
        hook = getattr(I, "replace_hook", None)
        if hook:
            yield from hook(I, o, kw, st)
            return
    if name.endswith("unicodedata.normalize"):
        f = z3.Function("nfc", z3.StringSort(), z3.StringSort())
        yield st, f(zstr(pos[1]))
        return
    hook = getattr(I, "module_hook", None)
    if hook:
        r = hook(I, name, pos, kw, st)
        if r is not None:
            yield from r
            return
    yield from opaque_call(I, name, pos, kw, st)
