"""Contracts (sidecar) -> verification conditions -> z3/cvc5 -> counter-model replay on the real code.

A FunctionContract names a real function, gives the shape of its parameters (ParamSpec objects that
build the symbolic value AND rebuild a concrete Python value from a model), a precondition and named
postconditions. Postconditions are dual-mode Python (verif.pyvc.spec helpers): evaluated on symbolic
values they yield z3 terms, evaluated on real values they yield bools — the same text is discharged
by the solver and executed when a counter-model is replayed on the real function.
"""
from __future__ import annotations

import importlib
import time
import traceback
from dataclasses import dataclass, field
from typing import Any, Callable

import z3

from verif import extract
from verif.pyvc import val as V
from verif.pyvc.interp import Interp, Opaque, OutsideSubset, PathResult, SDict, SEnum, SExc, SList, SObj, State, STuple, SymObj, SymSeq, fresh

# ---- parameter specs ----------------------------------------------------------------------------------------------


class P:
    """Parameter shape. make(I, name) -> symbolic value; concrete(model, sym, ctx) -> python value."""

    def make(self, I: Interp, name: str) -> Any:
        raise NotImplementedError

    def concrete(self, m: z3.ModelRef, sym: Any, ctx: dict) -> Any:
        raise NotImplementedError


def wf_val(v: z3.ExprRef) -> z3.ExprRef:
    """representation invariant of Val terms: float kind in 0..3, non-finite floats carry payload 0"""
    return z3.Implies(V.is_VFloat(v), z3.And(V.Val.fk(v) >= 0, V.Val.fk(v) <= 3, z3.Implies(V.Val.fk(v) != 0, V.Val.fv(v) == 0)))


class AnyVal(P):
    """Any scalar or opaque object: the universal Val sort. `objs`: classes an object-valued model
    may be concretised to (class name -> factory)."""

    def __init__(self, objs: dict[str, Callable[[], Any]] | None = None):
        self.objs = objs or {}

    def make(self, I, name):
        v = z3.Const(name, V.Val)
        I.base_assumptions.append(wf_val(v))
        return v

    def concrete(self, m, sym, ctx):
        e = m.eval(sym, model_completion=True)
        if e.decl().name() == "VObj":
            ref = e.arg(0).as_long()
            cid = m.eval(V.cls_of(e.arg(0)), model_completion=True).as_long()
            for cname, fac in self.objs.items():
                if V.class_id(cname) == cid:
                    return fac()
            # default stand-ins by class id
            inv = {i: n for n, i in V.CLASS_IDS.items()}
            nm = inv.get(cid)
            if nm == "list":
                n = m.eval(V.len_of_obj(e.arg(0)), model_completion=True).as_long()
                return [0] * max(0, min(n, 6))
            if nm == "dict":
                n = m.eval(V.len_of_obj(e.arg(0)), model_completion=True).as_long()
                return {str(i): i for i in range(max(0, min(n, 6)))}
            if nm == "tuple":
                return ()
            if nm == "set":
                return set()
            if nm in self.objs:
                return self.objs[nm]()
            return object()
        return V.val_from_model(m, sym)


class Str(P):
    def make(self, I, name):
        return z3.String(name)

    def concrete(self, m, sym, ctx):
        return m.eval(sym, model_completion=True).as_string()


class Int(P):
    def make(self, I, name):
        return z3.Int(name)

    def concrete(self, m, sym, ctx):
        return m.eval(sym, model_completion=True).as_long()


class Bool(P):
    def make(self, I, name):
        return z3.Bool(name)

    def concrete(self, m, sym, ctx):
        return z3.is_true(m.eval(sym, model_completion=True))


class Const(P):
    def __init__(self, value: Any):
        self.value = value

    def make(self, I, name):
        return self.value

    def concrete(self, m, sym, ctx):
        return self.value


class StrList(P):
    def make(self, I, name):
        s = SymSeq(z3.Function(f"{name}.at", z3.IntSort(), z3.StringSort()), "str", name)
        I.base_assumptions.append(s.length >= 0)
        return s

    def concrete(self, m, sym, ctx):
        n = m.eval(sym.length, model_completion=True).as_long()
        return [m.eval(sym.at(i), model_completion=True).as_string() for i in range(min(n, 50))]


class ValList(P):
    def make(self, I, name):
        s = SymSeq(z3.Function(f"{name}.at", z3.IntSort(), V.Val), "val", name)
        I.base_assumptions.append(s.length >= 0)
        return s

    def concrete(self, m, sym, ctx):
        n = m.eval(sym.length, model_completion=True).as_long()
        return [V.val_from_model(m, sym.at(i)) for i in range(min(n, 50))]


class Obj(P):
    """Instance of a repository class with given field shapes; built through the real constructor on replay
    (`build`: callable(**fields) -> instance, default: the class itself looked up by module:name)."""

    def __init__(self, cls: str, module: str | None = None, build: Callable | None = None, **fields: P):
        self.cls, self.module, self.build, self.fields = cls, module, build, fields

    def make(self, I, name):
        o = SObj(self.cls, {k: p.make(I, f"{name}.{k}") for k, p in self.fields.items()}, fresh_obj=False, name=name)
        o._spec = self
        return o

    def concrete(self, m, sym, ctx):
        vals = {k: p.concrete(m, sym.fields[k], ctx) for k, p in self.fields.items()}
        if self.build:
            return self.build(**vals)
        mod = importlib.import_module(self.module)
        return getattr(mod, self.cls)(**vals)


class FixedList(P):
    """A list with a concrete spine of given element shapes."""

    def __init__(self, *elems: P):
        self.elems = elems

    def make(self, I, name):
        l = SList([p.make(I, f"{name}[{i}]") for i, p in enumerate(self.elems)], fresh_obj=False)
        return l

    def concrete(self, m, sym, ctx):
        return [p.concrete(m, x, ctx) for p, x in zip(self.elems, sym.items)]


class EmptySet(P):
    """an initially empty set; modelled by the list of elements added (membership and `add` only)"""

    def make(self, I, name):
        l = SList([], fresh_obj=False)
        l.is_set = True
        return l

    def concrete(self, m, sym, ctx):
        return set()


class EnumConst(P):
    """a fixed member of a repository enum"""

    def __init__(self, module: str, cls: str, member: str):
        self.module, self.cls, self.member = module, cls, member

    def make(self, I, name):
        return SEnum(self.cls, self.member)

    def concrete(self, m, sym, ctx):
        return getattr(getattr(importlib.import_module(self.module), self.cls), self.member)


class IntPairList(P):
    """list[tuple[int, int]] of symbolic length"""

    def make(self, I, name):
        a = z3.Function(f"{name}.first", z3.IntSort(), z3.IntSort())
        b = z3.Function(f"{name}.second", z3.IntSort(), z3.IntSort())
        s = SymSeq(None, "obj", name, None, None, lambda i, a=a, b=b: STuple([a(i if V.is_z3(i) else z3.IntVal(i)), b(i if V.is_z3(i) else z3.IntVal(i))]))
        s.first, s.second = a, b
        I.base_assumptions.append(s.length >= 0)
        return s

    def concrete(self, m, sym, ctx):
        n = m.eval(sym.length, model_completion=True).as_long()
        return [(m.eval(sym.first(z3.IntVal(i)), model_completion=True).as_long(), m.eval(sym.second(z3.IntVal(i)), model_completion=True).as_long()) for i in range(min(n, 30))]


class FixedTuple(P):
    def __init__(self, *elems: P):
        self.elems = elems

    def make(self, I, name):
        return STuple([p.make(I, f"{name}[{i}]") for i, p in enumerate(self.elems)])

    def concrete(self, m, sym, ctx):
        return tuple(p.concrete(m, x, ctx) for p, x in zip(self.elems, sym.items))


class FixedDict(P):
    def __init__(self, **entries: P):
        self.entries = entries

    def make(self, I, name):
        return SDict({k: p.make(I, f"{name}[{k}]") for k, p in self.entries.items()}, fresh_obj=False)

    def concrete(self, m, sym, ctx):
        return {k: p.concrete(m, sym.entries[k], ctx) for k, p in self.entries.items()}


# ---- contracts -----------------------------------------------------------------------------------------------------


@dataclass
class FunctionContract:
    module: str
    qualname: str
    params: dict[str, P]
    posts: dict[str, Callable]  # name -> fn(a: Args, r: Result) -> z3 Bool | bool
    pre: Callable | None = None  # fn(a) -> z3 Bool | bool
    raises: tuple[str, ...] = ()  # exception classes the function may raise (others: obligation fails)
    raise_posts: dict[str, Callable] = field(default_factory=dict)  # name -> fn(a, exc_cls) -> cond that must hold when raising
    callee_contracts: dict[str, Callable] = field(default_factory=dict)
    setup: Callable | None = None  # fn(I): install hooks, field readers, loop invariants
    covers: dict[str, Callable] = field(default_factory=dict)  # reachability: fn(a, r) must be satisfiable on some path
    call: Callable | None = None  # replay: fn(real_function_or_class, concrete args dict) -> result ; default f(**args)
    inline_depth: int = 4
    timeout_ms: int = 20000
    tier: str = "P"
    z3_first_ms: int | None = None  # string-heavy contracts: give z3 only this long, then cvc5 --strings-exp decides
    replay_hints: list = field(default_factory=list)  # concrete argument dicts tried on the real function when the solver's own model does not fail there
    step: Callable | None = None  # () -> loopstep.Step: verify this synthetic step function (a loop body of `qualname`) instead of the whole function
    label: str = ""

    @property
    def key(self) -> str:
        return f"{self.module}:{self.qualname}{self.label}"


class Args:
    def __init__(self, d: dict[str, Any]):
        self.__dict__.update(d)
        self._d = d

    def __getitem__(self, k):
        return self._d[k]


@dataclass
class Elementary:
    name: str
    status: str  # discharged | refuted | unknown | error
    backend: str
    seconds: float
    detail: str = ""
    model_args: dict | None = None
    replay_failed: bool | None = None
    replay_text: str = ""


@dataclass
class ContractReport:
    key: str
    elementary: list[Elementary]
    paths: int
    outside: str | None = None
    inlined: list[str] = field(default_factory=list)
    opaque: list[str] = field(default_factory=list)
    seconds: float = 0.0
    defaults_bound: list[str] = field(default_factory=list)


Z3_FIRST_MS: int | None = None  # when set (string-heavy contracts): z3 gets only this long before cvc5 is asked


def _z3_check_guarded(s: z3.Solver, budget_ms: int) -> str:
    """check-sat in a forked child under a hard wall-clock limit. z3's own `timeout` is honoured almost always, but a
    string/quantifier query was once seen spinning for 30 minutes on a saturated machine; a child that does not answer
    within budget + 5 s is killed and the query counts as `unknown` (never as a verdict). 10 ms per query."""
    import os
    import select
    import signal

    if os.environ.get("PYVC_NO_FORK"):
        return str(s.check())
    rfd, wfd = os.pipe()
    pid = os.fork()
    if pid == 0:
        code = 0
        try:
            os.close(rfd)
            try:
                res = str(s.check())
            except BaseException:  # noqa: BLE001
                res = "unknown"
            os.write(wfd, res.encode())
        finally:
            os._exit(code)
    os.close(wfd)
    res = "unknown"
    try:
        ready, _, _ = select.select([rfd], [], [], budget_ms / 1000 + 5)
        if ready:
            got = os.read(rfd, 16).decode()
            if got in ("sat", "unsat", "unknown"):
                res = got
        else:
            os.kill(pid, signal.SIGKILL)
    finally:
        os.close(rfd)
        try:
            os.waitpid(pid, 0)
        except ChildProcessError:
            pass
    return res


def _solve(assertions: list, timeout_ms: int) -> tuple[str, Any, str]:
    """returns (sat|unsat|unknown, model, backend)"""
    s = z3.Solver()
    budget = min(timeout_ms, Z3_FIRST_MS) if Z3_FIRST_MS else timeout_ms
    s.set("timeout", budget)
    s.add(*assertions)
    r = _z3_check_guarded(s, budget)
    if r == "unsat":
        return "unsat", None, "z3"
    if r == "sat":
        # the model is needed in this process: the child has just shown the query to be quickly satisfiable
        if s.check() == z3.sat:
            return "sat", s.model(), "z3"
    # second opinion: cvc5 through SMT-LIB
    try:
        import subprocess
        import tempfile
        import os

        smt = s.to_smt2()
        with tempfile.NamedTemporaryFile("w", suffix=".smt2", delete=False) as f:
            f.write("(set-logic ALL)\n" + smt)
            path = f.name
        try:
            p = subprocess.run(["cvc5", "--strings-exp", f"--tlimit={timeout_ms}", path], capture_output=True, text=True, timeout=timeout_ms / 1000 + 5)
            out = p.stdout.strip().splitlines()[:1]
            if out and out[0] == "unsat":
                return "unsat", None, "cvc5"
            if out and out[0] == "sat":
                # cvc5 found the VC falsifiable: fetch its values for the free constants and let z3
                # rebuild a model around them (z3 models are what the concretiser reads)
                m = _model_via_cvc5(s, smt, timeout_ms)
                return "sat", m, "cvc5" if m is None else "cvc5+z3"
        finally:
            os.unlink(path)
    except Exception:
        pass
    import os as _os

    if _os.environ.get("PYVC_DUMP"):
        import hashlib

        smt = s.to_smt2()
        with open(_os.path.join(_os.environ["PYVC_DUMP"], "unknown_" + hashlib.sha1(smt.encode()).hexdigest()[:10] + ".smt2"), "w") as f:
            f.write("(set-logic ALL)\n" + smt)
    return "unknown", None, "z3+cvc5"


def _model_via_cvc5(solver: z3.Solver, smt: str, timeout_ms: int):
    import os
    import re
    import subprocess
    import tempfile

    with tempfile.NamedTemporaryFile("w", suffix=".smt2", delete=False) as f:
        f.write("(set-option :produce-models true)\n(set-logic ALL)\n" + smt + "\n(get-model)\n")
        path = f.name
    try:
        p = subprocess.run(["cvc5", "--strings-exp", f"--tlimit={timeout_ms}", path], capture_output=True, text=True, timeout=timeout_ms / 1000 + 5)
    except Exception:
        return None
    finally:
        os.unlink(path)
    vals: dict[str, Any] = {}
    for mm in re.finditer(r'\(define-fun (\|[^|]*\||\S+) \(\) (String|Int|Bool) ("(?:[^"]|"")*"|\(- \d+\)|-?\d+|true|false)\)', p.stdout):
        name, sort, raw = mm.group(1).strip("|"), mm.group(2), mm.group(3)
        if sort == "String":
            txt = raw[1:-1].replace('""', '"')
            txt = re.sub(r"\\u\{([0-9a-fA-F]+)\}", lambda u: chr(int(u.group(1), 16)), txt)
            vals[name] = z3.StringVal(txt)
        elif sort == "Int":
            vals[name] = z3.IntVal(int(raw.replace("(- ", "-").rstrip(")")))
        else:
            vals[name] = z3.BoolVal(raw == "true")
    if not vals:
        return None
    s2 = z3.Solver()
    s2.set("timeout", 10000)
    s2.add(*solver.assertions())
    consts = {}
    for a in solver.assertions():
        for d in _consts(a):
            consts[d.decl().name()] = d
    for n, v in vals.items():
        c = consts.get(n)
        if c is not None and c.sort() == v.sort():
            s2.add(c == v)
    return s2.model() if s2.check() == z3.sat else None


def _consts(e, seen=None):
    seen = seen if seen is not None else set()
    out = []
    stack = [e]
    while stack:
        x = stack.pop()
        if x.get_id() in seen:
            continue
        seen.add(x.get_id())
        if z3.is_const(x) and x.decl().kind() == z3.Z3_OP_UNINTERPRETED:
            out.append(x)
        if z3.is_app(x):
            stack.extend(x.children())
        elif z3.is_quantifier(x):
            stack.append(x.body())
    return out


def to_bool_term(x: Any) -> z3.ExprRef:
    if isinstance(x, bool):
        return z3.BoolVal(x)
    return x


def verify_contract(c: FunctionContract, replay: bool = True) -> ContractReport:
    global Z3_FIRST_MS
    Z3_FIRST_MS = c.z3_first_ms
    try:
        rep = _verify_contract(c, replay)
        if rep.outside is None and c.step is None and any(e.status != "discharged" for e in rep.elementary):
            # Stage 2. Parameters the contract does not mention were unconstrained (the strongest reading). A refuted /
            # unknown obligation may be due only to a NEW optional parameter whose non-default value changes the
            # behaviour: re-verify with every unmentioned parameter at its declared default — the calls the contract
            # was written about. If everything discharges, that (weaker, stated) claim is what is reported.
            rep2 = _verify_contract(c, replay, bind_defaults=True)
            if rep2.defaults_bound and rep2.outside is None and rep2.elementary and all(e.status == "discharged" for e in rep2.elementary):
                for e in rep2.elementary:
                    e.detail = (e.detail + " " if e.detail else "") + f"[holds for calls that leave {', '.join(sorted(set(rep2.defaults_bound)))} at the declared default; unconstrained, the obligation is not discharged]"
                return rep2
        return rep
    finally:
        Z3_FIRST_MS = None


def _verify_contract(c: FunctionContract, replay: bool = True, bind_defaults: bool = False) -> ContractReport:
    t0 = time.time()
    I = Interp(contracts=dict(c.callee_contracts), inline_depth=c.inline_depth)
    I.bind_defaults = bind_defaults
    I.defaults_bound = []
    if c.setup:
        c.setup(I)
    els: list[Elementary] = []
    try:
        extract.find_def(c.module, c.qualname)
    except extract.ExtractionError as e:
        return ContractReport(c.key, [], 0, outside=f"contract no longer matches the source: {e}")
    sym = {k: p.make(I, k) for k, p in c.params.items()}
    a = Args(sym)
    pre = to_bool_term(c.pre(a)) if c.pre else z3.BoolVal(True)
    I.base_assumptions.append(pre)
    st = State()
    st.roots = sym
    from verif.pyvc.interp import _clone

    old = Args(_clone(sym, {}))
    try:
        if c.step is not None:
            try:
                stepdef = c.step()
            except extract.ExtractionError as e:
                return ContractReport(c.key, [], 0, outside=f"contract no longer matches the source: {e}")
            missing = [x for x in stepdef.params + stepdef.targets if x not in sym]
            if missing:
                # havoc-ing an undeclared variable would be sound but can refute a correct block (its relation to the
                # declared ones is unknown): the contract answers "outside", the property module falls back to a probe
                return ContractReport(c.key, [], 0, outside=f"contract no longer matches the source: the block now reads {missing}, which the contract does not describe")
            paths = I.run_function(c.module, c.qualname, {k: sym[k] for k in stepdef.params + stepdef.targets}, st, fndef=stepdef.fndef)
        else:
            paths = I.run_function(c.module, c.qualname, dict(sym), st)
    except OutsideSubset as e:
        return ContractReport(c.key, [], I.npaths, outside=f"outside reach: {e}", inlined=sorted(I.inlined), opaque=sorted(I.opaque_calls), seconds=time.time() - t0)
    base = list(I.base_assumptions)
    # vacuity: at least one feasible path under the precondition
    feasible_any = False
    for i, p in enumerate(paths):
        r, m, be = _solve(base + p.state.pc, 5000)
        p.feasible = r
        if r == "sat":
            feasible_any = True
    if not feasible_any:
        # quantified summaries often answer unknown; accept unknown as "not refuted" but say so
        if not any(getattr(p, "feasible", "") == "unknown" for p in paths):
            els.append(Elementary(f"{c.key}#reachable", "refuted", "z3", 0.0, "no feasible path under the precondition (vacuous contract)"))
    else:
        els.append(Elementary(f"{c.key}#reachable", "discharged", "z3", 0.0, f"{sum(1 for p in paths if p.feasible == 'sat')} of {len(paths)} paths have a model"))
    for cname, cov in c.covers.items():
        hit = False
        for p in paths:
            if p.kind != "return":
                continue
            try:
                ca = Args(p.state.roots)
                ca.old = old
                cond = to_bool_term(cov(ca, p.value))
            except Exception:
                continue
            r, m, be = _solve(base + p.state.pc + [cond], 5000)
            if r == "sat":
                hit = True
                break
        els.append(Elementary(f"{c.key}#cover.{cname}", "discharged" if hit else "refuted", "z3", 0.0, "" if hit else "cover not reachable: the contract would hold vacuously for this case"))
    for i, p in enumerate(paths):
        if getattr(p, "feasible", "") == "unsat":
            continue
        a = Args(p.state.roots)
        a.old = old
        a.trace = p.state.trace
        a.state = p.state
        if p.kind == "raise":
            exc: SExc = p.value
            allowed = exc.cls in c.raises or any(_exc_sub(I, exc.cls, r) for r in c.raises)
            t1 = time.time()
            if allowed:
                for rn, rp in c.raise_posts.items():
                    cond = to_bool_term(rp(a, exc.cls))
                    r, m, be = _solve(base + p.state.pc + [z3.Not(cond)], c.timeout_ms)
                    els.append(_elem(c, I, f"{c.key}#raise.{rn}@path{i}", r, m, be, t1, sym, a, None, rp, replay, exc_expected=exc.cls))
                continue
            r, m, be = _solve(base + p.state.pc, c.timeout_ms)
            if r == "unsat":
                continue
            els.append(_elem(c, I, f"{c.key}#no-raise@path{i}", r, m, be, t1, sym, a, None, None, replay, raised=exc))
            continue
        for pname, post in c.posts.items():
            t1 = time.time()
            try:
                cond = to_bool_term(post(a, p.value))
            except Exception as e:  # noqa: BLE001
                els.append(Elementary(f"{c.key}#{pname}@path{i}", "error", "python", 0.0, f"postcondition could not be evaluated on this path's result ({type(p.value).__name__}): {type(e).__name__}: {e}\n{traceback.format_exc()[-600:]}"))
                continue
            r, m, be = _solve(base + p.state.pc + [z3.Not(cond)], c.timeout_ms)
            els.append(_elem(c, I, f"{c.key}#{pname}@path{i}", r, m, be, t1, sym, a, p, post, replay))
    return ContractReport(c.key, els, len(paths), inlined=sorted(I.inlined), opaque=sorted(I.opaque_calls), seconds=time.time() - t0, defaults_bound=list(I.defaults_bound))


def _exc_sub(I, cls: str, base: str) -> bool:
    from verif.pyvc.interp import exc_matches

    return exc_matches(cls, base, I.pkg) is True


def _elem(c, I, name, r, m, be, t1, sym, a, p, post, replay, raised=None, exc_expected=None) -> Elementary:
    dt = round(time.time() - t1, 3)
    if r == "unsat":
        return Elementary(name, "discharged", be, dt)
    if r == "unknown":
        return Elementary(name, "unknown", be, dt, "solver returned unknown on both back ends")
    if m is None:
        return Elementary(name, "refuted", be, dt, "cvc5 found the verification condition falsifiable; no model could be transferred for replay")
    # counter-model: concretise and replay on the real function
    detail = f"counter-model found ({'raises ' + raised.cls + ' ' + raised.note if raised else 'postcondition false'})"
    e = Elementary(name, "refuted", be, dt, detail)
    if not replay:
        return e
    try:
        ctx: dict = {}
        conc = {k: c.params[k].concrete(m, sym[k], ctx) for k in c.params}
        e.model_args = {k: _short(v) for k, v in conc.items()}
        failed, text = replay_concrete(c, conc, post, raised)
        if not failed and post is not None and raised is None:
            # the model is one member of the counterexample set; uninterpreted symbols (NFC, regex groups...) may
            # behave differently for real. Try the contract's concrete hints: a hint that breaks the run-time
            # contract on the real function is a real failing input.
            for hint in c.replay_hints:
                try:
                    hv = hint() if callable(hint) else dict(hint)  # callable hints build fresh (mutable) arguments per use
                    f2, t2 = replay_concrete(c, dict(hv), post, None)
                except Exception:  # noqa: BLE001
                    continue
                if f2:
                    failed, text, e.model_args = True, t2 + " (concrete hint; the solver's own model " + text[:120] + ")", {k: _short(v) for k, v in hv.items()}
                    break
        e.replay_failed, e.replay_text = failed, text
    except Exception as ex:  # noqa: BLE001
        e.replay_failed, e.replay_text = None, f"could not concretise/replay the model: {type(ex).__name__}: {ex}"
    return e


def _describe(v: Any) -> str:
    """repr, except for token-list holders (Parser): their token list is what identifies the input"""
    toks = getattr(v, "tokens", None)
    if isinstance(toks, list) and toks and hasattr(toks[0], "type"):
        return f"{type(v).__name__}(tokens={[(t.type.name, t.value) + ((t.raw,) if getattr(t, 'raw', None) is not None else ()) for t in toks[:8]]}, pos={getattr(v, 'pos', None)})"
    return repr(v)


def _short(v: Any) -> Any:
    if hasattr(v, "tokens"):
        return _describe(v)
    try:
        import json

        json.dumps(v)
        return v
    except Exception:
        return repr(v)


def real_function(c: FunctionContract):
    if c.step is not None:
        from verif.pyvc import loopstep

        stepdef = c.step()
        f = loopstep.compile_step(c.module, stepdef)
        names = stepdef.params + stepdef.targets
        return lambda **kw: f(**{k: kw[k] for k in names})
    mod = importlib.import_module(c.module)
    o: Any = mod
    for part in c.qualname.split("."):
        o = getattr(o, part)
    return o


def replay_concrete(c: FunctionContract, conc: dict[str, Any], post: Callable | None, raised: SExc | None) -> tuple[bool, str]:
    """Run the real function on concrete arguments under the run-time contract. (failed, text)"""
    f = real_function(c)
    a = Args(conc)
    if c.pre is not None:
        ok = c.pre(a)
        if ok is not True and not (isinstance(ok, bool) and ok):
            return False, f"model does not satisfy the precondition concretely ({ok!r}); not a replayable input"
    import copy

    call_args = copy.deepcopy(conc)
    try:
        res = c.call(f, call_args) if c.call else f(**call_args)
    except Exception as ex:  # noqa: BLE001
        allowed = any(type(ex).__name__ == r or any(b.__name__ == r for b in type(ex).__mro__) for r in c.raises)
        if allowed:
            return False, f"real function raised allowed {type(ex).__name__}"
        return True, f"real function raised {type(ex).__name__}: {ex} on {_short_args(conc)}"
    if raised is not None:
        return False, f"the real function returned normally on the model's arguments {_short_args(conc)} (the path raising {raised.cls} comes from an over-approximated callee)"
    if post is None:
        return False, "no postcondition to evaluate"
    try:
        a2 = Args(call_args)
        a2.old = Args(conc)
        ok = post(a2, res)
    except Exception as ex:  # noqa: BLE001
        return False, f"run-time contract could not be evaluated: {type(ex).__name__}: {ex}"
    if ok is True or (isinstance(ok, bool) and ok):
        return False, f"run-time contract holds on {_short_args(conc)} -> {res!r}"
    return True, f"contract violated on the real function: args {_short_args(conc)} -> {_short(res)!r}"


def _short_args(conc: dict) -> str:
    return ", ".join(f"{k}={v!r}"[:160] for k, v in conc.items() if k != "self") + (f", self={_describe(conc['self'])}"[:300] if "self" in conc else "")
