"""Dual-mode specification helpers: the same contract text works on symbolic values (z3 terms,
SObj/SList shapes) during VC generation and on real Python values when a counter-model is replayed."""
from __future__ import annotations

import math
from typing import Any, Callable

import z3

from verif.pyvc import val as V
from verif.pyvc.interp import SDict, SEnum, SList, SObj, STuple, SymObj, SymSeq


def symbolic(*xs: Any) -> bool:
    return any(V.is_z3(x) for x in xs)


def And(*xs):
    if symbolic(*xs):
        return z3.And(*[z3.BoolVal(x) if isinstance(x, bool) else x for x in xs])
    return all(xs)


def Or(*xs):
    if symbolic(*xs):
        return z3.Or(*[z3.BoolVal(x) if isinstance(x, bool) else x for x in xs])
    return any(xs)


def Not(x):
    return z3.Not(x) if V.is_z3(x) else (not x)


def Implies(a, b):
    if symbolic(a, b):
        return z3.Implies(z3.BoolVal(a) if isinstance(a, bool) else a, z3.BoolVal(b) if isinstance(b, bool) else b)
    return (not a) or b


def Iff(a, b):
    if symbolic(a, b):
        return (z3.BoolVal(a) if isinstance(a, bool) else a) == (z3.BoolVal(b) if isinstance(b, bool) else b)
    return bool(a) == bool(b)


def attr(o: Any, name: str) -> Any:
    if isinstance(o, SObj):
        return o.fields[name]
    return getattr(o, name)


def items(x: Any) -> list:
    if isinstance(x, (SList, STuple)):
        return list(x.items)
    return list(x)


def length(x: Any) -> Any:
    if isinstance(x, (SList, STuple)):
        return len(x.items)
    if isinstance(x, SymSeq):
        return x.length + len(x.appended) if x.appended else x.length
    if V.is_z3(x):
        return z3.Length(x)
    return len(x)


# ---- tests on Any values ------------------------------------------------------------------------------


def is_none(v):
    if V.is_z3(v):
        return V.is_VNone(v) if v.sort() == V.Val else False
    return v is None


def is_str(v):
    if V.is_z3(v):
        return V.is_VStr(v) if v.sort() == V.Val else v.sort() == z3.StringSort()
    return isinstance(v, str)


def is_bool(v):
    if V.is_z3(v):
        return V.is_VBool(v) if v.sort() == V.Val else v.sort() == z3.BoolSort()
    return isinstance(v, bool)


def is_int(v):
    """int but not bool"""
    if V.is_z3(v):
        return V.is_VInt(v) if v.sort() == V.Val else v.sort() == z3.IntSort()
    return isinstance(v, int) and not isinstance(v, bool)


def is_float(v):
    if V.is_z3(v):
        return V.is_VFloat(v) if v.sort() == V.Val else False
    return isinstance(v, float)


def is_number(v):
    """int or float, not bool"""
    return Or(is_int(v), is_float(v))


def is_obj_of(v, *class_names: str):
    """heap object whose class is one of the given builtin container names / repository classes"""
    if V.is_z3(v):
        if v.sort() != V.Val:
            return False
        return z3.And(V.is_VObj(v), z3.Or(*[V.cls_of(V.Val.ref(v)) == V.class_id(c) for c in class_names]))
    return type(v).__name__ in class_names


def is_list(v):
    if isinstance(v, (SList, SymSeq)):
        return True
    return is_obj_of(v, "list")


def str_val(v):
    """payload of a str value"""
    if V.is_z3(v):
        return V.Val.s(v) if v.sort() == V.Val else v
    return v


def str_of(v):
    return V.py_str(v) if V.is_z3(v) else str(v)


def eq(a, b):
    if symbolic(a, b):
        if V.is_z3(a) and V.is_z3(b) and a.sort() == b.sort() and a.sort() != V.Val:
            return a == b
        return V.py_eq(a, b)
    return a == b


def str_eq(a, b):
    if type(a).__name__ == "_Missing" or type(b).__name__ == "_Missing":
        return False
    if symbolic(a, b):
        return (a if V.is_z3(a) else z3.StringVal(a)) == (b if V.is_z3(b) else z3.StringVal(b))
    return a == b


def num_le(a, b):
    """a <= b on numeric values (IEEE: false when either is nan)"""
    if symbolic(a, b):
        return V.num_le(V.to_val(a), V.to_val(b))
    try:
        return a <= b
    except TypeError:
        return False


def is_nan(v):
    if V.is_z3(v):
        return z3.And(V.is_VFloat(v), V.Val.fk(v) == 3)
    return isinstance(v, float) and math.isnan(v)


def startswith(s, prefix):
    if symbolic(s, prefix):
        return z3.PrefixOf(prefix if V.is_z3(prefix) else z3.StringVal(prefix), s if V.is_z3(s) else z3.StringVal(s))
    return s.startswith(prefix)


def in_strlist(x, lst):
    """x in lst for a list of str (symbolic: SymSeq / SList; concrete: list)"""
    if isinstance(lst, SymSeq):
        j = z3.FreshInt("sj")
        return z3.Exists([j], z3.And(j >= 0, j < lst.length, lst.at(j) == (x if V.is_z3(x) else z3.StringVal(x))))
    if isinstance(lst, SList):
        return Or(*[str_eq(x, y) for y in lst.items]) if lst.items else False
    return x in lst


def exists_index(lst, pred: Callable[[Any, Any], Any]):
    """exists j. pred(j, lst[j])"""
    if isinstance(lst, SymSeq):
        j = z3.FreshInt("sj")
        return z3.Exists([j], z3.And(j >= 0, j < lst.length, pred(j, lst.at(j))))
    xs = items(lst)
    return Or(*[pred(j, x) for j, x in enumerate(xs)]) if xs else False


def forall_index(lst, pred: Callable[[Any, Any], Any]):
    if isinstance(lst, SymSeq):
        j = z3.FreshInt("sj")
        return z3.ForAll([j], z3.Implies(z3.And(j >= 0, j < lst.length), pred(j, lst.at(j))))
    xs = items(lst)
    return And(*[pred(j, x) for j, x in enumerate(xs)]) if xs else True


def exists_two(lst, pred: Callable[[Any], Any]):
    """exists j1 != j2 with pred(lst[j1]) and pred(lst[j2])"""
    if isinstance(lst, SymSeq):
        j1, j2 = z3.FreshInt("sj"), z3.FreshInt("sj")
        return z3.Exists([j1, j2], z3.And(j1 >= 0, j1 < j2, j2 < lst.length, pred(lst.at(j1)), pred(lst.at(j2))))
    xs = items(lst)
    return Or(*[And(pred(xs[i]), pred(xs[j])) for i in range(len(xs)) for j in range(i + 1, len(xs))]) if len(xs) > 1 else False


def distinct_strs(lst):
    if isinstance(lst, SymSeq):
        j1, j2 = z3.FreshInt("sj"), z3.FreshInt("sj")
        return z3.ForAll([j1, j2], z3.Implies(z3.And(j1 >= 0, j1 < j2, j2 < lst.length), lst.at(j1) != lst.at(j2)))
    xs = items(lst)
    return len(set(xs)) == len(xs)


# ---- regex / text functions shared with the interpreter's uninterpreted symbols ---------------------------------


def _z(s):
    return s if V.is_z3(s) else z3.StringVal(s)


def re_ok(rx, how: str, s):
    """truthiness of `<rx>.<how>(s)`; symbolic: the interpreter's predicate symbol for that regex"""
    if V.is_z3(s):
        from verif.pyvc import lib

        return lib.re_pred(rx.pattern, rx.flags, how)(s)
    import re

    return getattr(re.compile(rx.pattern, rx.flags), how)(s) is not None


def re_grp(rx, how: str, k: int, s):
    """`<rx>.<how>(s).group(k)` (meaningful under re_ok)"""
    if V.is_z3(s):
        from verif.pyvc import lib

        return lib.re_group(rx.pattern, rx.flags, how, k)(s)
    import re

    m = getattr(re.compile(rx.pattern, rx.flags), how)(s)
    return m.group(k) if m else ""


def nfc(s):
    if V.is_z3(s):
        return z3.Function("nfc", z3.StringSort(), z3.StringSort())(s)
    import unicodedata

    return unicodedata.normalize("NFC", s)


def strip(s):
    if V.is_z3(s):
        return V.str_strip(s)
    return s.strip()


def count(s, sub):
    if V.is_z3(s):
        return V.str_count(s, _z(sub))
    return s.count(sub)
