"""pyvc interpreter: path-enumerating symbolic execution of real function ASTs.

A path carries a Python-level store whose leaves are z3 terms (Bool / Int / String / Val), concrete
heap shapes for objects created on the path or described by the contract's parameter spec, and a
list of path conditions. Branches on symbolic conditions fork; infeasible branches are pruned by a
quick solver call. Calls: (1) library models, (2) sidecar contracts (assume post, havoc frame),
(3) inlining of repository functions (depth-limited), (4) otherwise an opaque result that may raise
any Exception. Loops over symbolic sequences need a summary (comprehensions, any/all, early-exit
search) or an invariant from the sidecar; loops over concrete spines are unrolled.
"""
from __future__ import annotations

import ast
import sys
import os
import itertools
from dataclasses import dataclass, field
from typing import Any, Callable, Iterator

import z3

from verif import extract
from verif.frames.analysis import package
from verif.pyvc import val as V


class OutsideSubset(Exception):
    pass


_ctr = itertools.count()


def fresh(prefix: str, sort) -> z3.ExprRef:
    return z3.Const(f"{prefix}!{next(_ctr)}", sort)


# ---- symbolic value classes ------------------------------------------------------------------------


class SObj:
    def __init__(self, cls: str, fields: dict[str, Any] | None = None, fresh_obj: bool = True, name: str = ""):
        self.cls = cls  # simple class name
        self.fields = dict(fields or {})
        self.fresh = fresh_obj
        self.name = name or f"{cls}#{next(_ctr)}"

    def __repr__(self) -> str:
        return f"<{self.name} {self.fields}>"


class SList:
    def __init__(self, items: list | None = None, fresh_obj: bool = True):
        self.items = list(items or [])
        self.fresh = fresh_obj


class STuple:
    def __init__(self, items):
        self.items = tuple(items)


class SDict:
    def __init__(self, entries: dict | None = None, fresh_obj: bool = True):
        self.entries = dict(entries or {})  # concrete (hashable python) keys, insertion ordered
        self.fresh = fresh_obj
        self.open = False  # True: may contain further unknown keys (symbolic parameter dict)
        self.tag = f"dict#{next(_ctr)}"


class SymSeq:
    """Symbolic-length list (from a parameter or a summarised comprehension): a length term and an
    element function index -> element (uninterpreted function for str / Val elements, an object
    maker for lists of objects). No z3 sequence theory is used: `x in xs` is an existential over
    indices."""

    def __init__(self, fn, kind: str, name: str, length: z3.ExprRef | None = None, elem_cls: str | None = None, elem_maker: Callable | None = None):
        self.fn = fn  # z3 FuncDeclRef Int -> String | Val   (kinds 'str' / 'val')
        self.kind = kind  # 'str' | 'val' | 'obj'
        self.name = name
        self.length = length if length is not None else z3.Int(f"len({name})")
        self.elem_cls = elem_cls
        self.elem_maker = elem_maker  # index term -> symbolic element (for kind 'obj')
        self.appended: list = []  # items appended on this path (frame: prefix unchanged)
        self.fresh = False

    @property
    def seq(self):
        return self.fn

    def at(self, i) -> Any:
        if isinstance(i, int):
            i = z3.IntVal(i)
        if self.kind == "obj":
            return self.elem_maker(i)
        if self.kind == "range":
            return i
        return self.fn(i)


class SymObj:
    """Pre-existing object with symbolic identity: fields are uninterpreted functions of `ref`;
    per-path updates recorded in the state."""

    def __init__(self, ref: z3.ExprRef, cls: str, exact: bool = False):
        self.ref = ref
        self.cls = cls  # static (declared) class; dynamic class = cls_of(ref)
        self.exact = exact  # dynamic class known to be exactly cls


class SEnum:
    def __init__(self, cls: str, member: str, value: Any = None):
        self.cls, self.member, self.value = cls, member, value

    def __eq__(self, o):
        return isinstance(o, SEnum) and (self.cls, self.member) == (o.cls, o.member)

    def __hash__(self):
        return hash((self.cls, self.member))

    def __repr__(self):
        return f"{self.cls}.{self.member}"


class SClass:
    def __init__(self, name: str, module: str | None = None):
        self.name, self.module = name, module


class SFunc:
    def __init__(self, module: str, qualname: str):
        self.module, self.qualname = module, qualname


class SBound:
    def __init__(self, recv: Any, name: str):
        self.recv, self.name = recv, name


class SBuiltin:
    def __init__(self, name: str):
        self.name = name


class SModule:
    def __init__(self, name: str):
        self.name = name


class SExc:
    def __init__(self, cls: str, args: list | None = None, note: str = ""):
        self.cls, self.args, self.note = cls, list(args or []), note

    def __repr__(self):
        return f"{self.cls}({self.note})"


class Opaque:
    def __init__(self, tag: str = ""):
        self.tag = tag or f"opaque#{next(_ctr)}"

    def __repr__(self):
        return f"<{self.tag}>"


class Raised:
    def __init__(self, exc: SExc):
        self.exc = exc


EXC_TREE = {
    "BaseException": None, "Exception": "BaseException", "ValueError": "Exception", "TypeError": "Exception", "KeyError": "LookupError", "IndexError": "LookupError",
    "LookupError": "Exception", "AttributeError": "Exception", "OverflowError": "ArithmeticError", "ZeroDivisionError": "ArithmeticError", "ArithmeticError": "Exception",
    "OSError": "Exception", "PermissionError": "OSError", "FileNotFoundError": "OSError", "RuntimeError": "Exception", "AssertionError": "Exception", "StopIteration": "Exception",
    "UnicodeDecodeError": "ValueError", "UnicodeError": "ValueError", "re.error": "Exception", "NotImplementedError": "RuntimeError", "RecursionError": "RuntimeError",
    "AnyException": "Exception",  # an unknown subclass of Exception raised by an opaque callee
}


def exc_matches(exc_cls: str, handler: str, pkg) -> bool | None:
    """True / False / None (unknown: AnyException may or may not match a specific handler)."""
    if handler in ("Exception", "BaseException"):
        return True
    c = exc_cls
    seen = 0
    while c is not None and seen < 20:
        if c == handler:
            return True
        nxt = EXC_TREE.get(c)
        if nxt is None and c not in EXC_TREE:
            # repository exception class
            infos = pkg.class_by_name.get(c.split(".")[-1])
            nxt = infos[0].bases[0].split(".")[-1] if infos and infos[0].bases else "Exception"
        c = nxt
        seen += 1
    if exc_cls == "AnyException":
        return None
    return False


# ---- state ---------------------------------------------------------------------------------------


class State:
    def __init__(self):
        self.env: dict[str, Any] = {}
        self.pc: list[z3.ExprRef] = []
        self.upd: dict[tuple[str, str], list[tuple[z3.ExprRef, Any]]] = {}  # (class-field) -> [(ref, value)] newest last
        self.trace: list[tuple] = []  # ghost effect trace
        self.assumed: list[str] = []  # contracts / opaque calls used on this path
        self.depth = 0

    def clone(self) -> "State":
        memo: dict[int, Any] = {}
        s = State()
        s.env = _clone(self.env, memo)
        s.pc = list(self.pc)
        s.upd = {k: [(r, _clone(v, memo)) for r, v in lst] for k, lst in self.upd.items()}
        s.trace = [_clone(t, memo) for t in self.trace]
        s.assumed = list(self.assumed)
        s.depth = self.depth
        s.frame = getattr(self, "frame", None)
        s.stack = getattr(self, "stack", ())
        s.roots = _clone(getattr(self, "roots", {}), memo)
        # handles obtained before a fork are re-resolved in the forked state (see State.resolve)
        keep = getattr(self, "remap", {})
        new = {}
        for k, (orig, cur) in keep.items():
            new[k] = (orig, memo.get(id(cur), cur))
        for k, v in memo.items():
            if k not in new and isinstance(v, (SObj, SList, SDict, SymSeq)):
                o = memo.get(("orig", k))
                if o is not None:
                    new[k] = (o, v)
        s.remap = new
        return s

    def resolve(self, o: Any) -> Any:
        """The version of a (possibly pre-fork) object handle that belongs to this state."""
        r = getattr(self, "remap", None)
        if r and isinstance(o, (SObj, SList, SDict, SymSeq)):
            hit = r.get(id(o))
            if hit is not None and hit[0] is o:
                return hit[1]
        return o


def _clone(v: Any, memo: dict[int, Any]) -> Any:
    if isinstance(v, (SObj, SList, SDict, SymSeq)):
        if id(v) in memo:
            return memo[id(v)]
        memo[("orig", id(v))] = v
        if isinstance(v, SObj):
            n = SObj(v.cls, None, v.fresh, v.name)
            memo[id(v)] = n
            for k, x in v.__dict__.items():
                if k not in ("cls", "fields", "fresh", "name"):
                    n.__dict__[k] = x
            n.fields = {k: _clone(x, memo) for k, x in v.fields.items()}
            return n
        if isinstance(v, SList):
            n = SList(None, v.fresh)
            memo[id(v)] = n
            for k, x in v.__dict__.items():
                if k not in ("items", "fresh"):
                    n.__dict__[k] = x
            n.items = [_clone(x, memo) for x in v.items]
            return n
        if isinstance(v, SDict):
            n = SDict(None, v.fresh)
            n.open, n.tag = v.open, v.tag
            for k, x in v.__dict__.items():
                if k not in ("entries", "fresh", "open", "tag", "sym_pairs"):  # sym_exact and other flags are copied here
                    n.__dict__[k] = x
            memo[id(v)] = n
            n.entries = {k: _clone(x, memo) for k, x in v.entries.items()}
            if hasattr(v, "sym_pairs"):
                n.sym_pairs = [(k, _clone(x, memo)) for k, x in v.sym_pairs]
            return n
        n = SymSeq(v.seq, v.kind, v.name, v.length, v.elem_cls, v.elem_maker)
        memo[id(v)] = n
        for k, x in v.__dict__.items():
            if k not in ("fn", "kind", "name", "length", "elem_cls", "elem_maker", "appended"):
                n.__dict__[k] = x
        n.appended = [_clone(x, memo) for x in v.appended]
        return n
    if isinstance(v, STuple):
        return STuple(_clone(x, memo) for x in v.items)
    if isinstance(v, tuple):
        return tuple(_clone(x, memo) for x in v)
    if isinstance(v, list):
        return [_clone(x, memo) for x in v]
    if isinstance(v, SBound):
        return SBound(_clone(v.recv, memo), v.name)
    if isinstance(v, dict):
        if id(v) in memo:
            return memo[id(v)]
        n = {}
        memo[id(v)] = n
        for k, x in v.items():
            n[k] = _clone(x, memo)
        return n
    return v


class Frame:
    def __init__(self, module: str, func_key: str):
        self.module = module
        self.func_key = func_key
        self.env: dict[str, Any] = {}


@dataclass
class PathResult:
    state: State
    kind: str  # 'return' | 'raise'
    value: Any


# ---- the interpreter ---------------------------------------------------------------------------------


class Interp:
    def __init__(self, contracts: dict | None = None, inline_depth: int = 4, solver_timeout_ms: int = 300, max_paths: int = 4000):
        self.pkg = package()
        self.contracts = contracts or {}  # func key -> CalleeContract
        self.inline_depth = inline_depth
        self.solver_timeout_ms = solver_timeout_ms
        self.max_paths = max_paths
        self.base_assumptions: list[z3.ExprRef] = []
        self.npaths = 0
        self.loop_invariants: dict = {}
        self.notes: list[str] = []
        self.inlined: set[str] = set()
        self.opaque_calls: set[str] = set()

    # -- symbolic object fields ------------------------------------------------------------------------
    def declare_field(self, cls: str, attr: str, kind: Any) -> None:
        if not hasattr(self, "sym_fields"):
            self.sym_fields = {}
        self.sym_fields[(cls, attr)] = kind

    def field_reader(self, o: "SymObj", attr: str) -> Any:
        from verif.pyvc import lib

        decl = getattr(self, "sym_fields", {})
        kind = None
        owner = None
        for (c, a), k in decl.items():
            if a == attr and (lib._is_subclass(self, c, o.cls) or lib._is_subclass(self, o.cls, c)):
                kind, owner = k, c
                break
        if kind is None:
            raise OutsideSubset(f"field {o.cls}.{attr} of a symbolic object is not declared in the contract")
        return self.make_field(owner, attr, kind, o.ref)

    def make_field(self, owner: str, attr: str, kind: Any, ref: z3.ExprRef) -> Any:
        base = f"{owner}.{attr}"
        if kind == "val":
            return z3.Function(base, z3.IntSort(), V.Val)(ref)
        if kind == "str":
            return z3.Function(base, z3.IntSort(), z3.StringSort())(ref)
        if kind == "int":
            return z3.Function(base, z3.IntSort(), z3.IntSort())(ref)
        if kind == "bool":
            return z3.Function(base, z3.IntSort(), z3.BoolSort())(ref)
        if kind == "strlist":
            f = z3.Function(base + ".at", z3.IntSort(), z3.IntSort(), z3.StringSort())
            ln = z3.Function(base + ".len", z3.IntSort(), z3.IntSort())(ref)
            s = SymSeq(lambda i, f=f, ref=ref: f(ref, i), "str", f"{base}({ref})", ln)
            self.base_assumptions.append(ln >= 0) if z3.is_const(ref) else None
            s.len_nonneg = ln >= 0
            return s
        if isinstance(kind, tuple) and kind[0] == "obj":
            r = z3.Function(base, z3.IntSort(), z3.IntSort())(ref)
            o = SymObj(r, kind[1])
            if len(kind) > 2 and kind[2] == "nullable":
                o.null = z3.Function(base + ".isnone", z3.IntSort(), z3.BoolSort())(ref)
            return o
        if isinstance(kind, tuple) and kind[0] == "objlist":
            f = z3.Function(base + ".at", z3.IntSort(), z3.IntSort(), z3.IntSort())
            ln = z3.Function(base + ".len", z3.IntSort(), z3.IntSort())(ref)
            s = SymSeq(None, "obj", f"{base}({ref})", ln, kind[1], lambda i, f=f, ref=ref, c=kind[1]: SymObj(f(ref, i if V.is_z3(i) else z3.IntVal(i)), c))
            s.len_nonneg = ln >= 0
            return s
        raise OutsideSubset(f"field kind {kind}")

    # -- feasibility ---------------------------------------------------------------------------------
    def feasible(self, st: State, extra: z3.ExprRef | None = None) -> bool:
        s = z3.Solver()
        s.set("timeout", self.solver_timeout_ms)
        s.add(*self.base_assumptions)
        s.add(*st.pc)
        if extra is not None:
            s.add(extra)
        return s.check() != z3.unsat

    def branch(self, st: State, cond: Any) -> Iterator[tuple[State, bool]]:
        """Fork on a condition (python bool or z3 Bool)."""
        if isinstance(cond, bool):
            yield st, cond
            return
        c = z3.simplify(cond)
        if z3.is_true(c):
            yield st, True
            return
        if z3.is_false(c):
            yield st, False
            return
        t_ok = self.feasible(st, c)
        f_ok = self.feasible(st, z3.Not(c))
        if t_ok and f_ok:
            st2 = st.clone()
            st.pc.append(c)
            st2.pc.append(z3.Not(c))
            yield st, True
            yield st2, False
        elif t_ok:
            st.pc.append(c)
            yield st, True
        elif f_ok:
            st.pc.append(z3.Not(c))
            yield st, False

    # -- truthiness / coercions ------------------------------------------------------------------------
    def truth(self, v: Any) -> Any:
        if isinstance(v, (bool, int, float, str)) or v is None:
            return bool(v)
        if V.is_z3(v):
            return V.truthy(v)
        if isinstance(v, SList):
            return len(v.items) > 0
        if isinstance(v, STuple):
            return len(v.items) > 0
        if isinstance(v, SDict):
            if v.open:
                return fresh(f"{v.tag}.nonempty", z3.BoolSort()) if not v.entries else True
            return len(v.entries) > 0
        if isinstance(v, SymSeq):
            return (v.length + len(v.appended)) > 0 if v.appended else v.length > 0
        if isinstance(v, (SObj, SymObj)):
            # classes with __bool__ / __len__ : Absent is falsy
            if isinstance(v, SObj) and v.cls == "Absent":
                return False
            return True
        if isinstance(v, (SEnum, SClass, SFunc, SBound, SBuiltin, SModule)):
            return True
        if isinstance(v, Opaque):
            return fresh(f"{v.tag}.truth", z3.BoolSort())
        if hasattr(v, "ok") and type(v).__name__ == "SMatch":
            return v.ok
        if type(v).__name__ == "Rx":
            return True
        if isinstance(v, frozenset):
            return len(v) > 0
        if isinstance(v, SExc):
            return True
        raise OutsideSubset(f"truthiness of {type(v).__name__}")

    def as_val(self, v: Any) -> z3.ExprRef:
        """Lift a scalar to a Val term (objects get fresh refs)."""
        if V.is_z3(v):
            return V.to_val(v)
        if isinstance(v, (bool, int, float, str)) or v is None:
            return V.to_val(v)
        if isinstance(v, SymObj):
            return V.VObj(v.ref)
        if isinstance(v, (SObj, SList, SDict, STuple, SymSeq)):
            ref = getattr(v, "_ref", None)
            if ref is None:
                ref = fresh("ref", z3.IntSort())
                try:
                    v._ref = ref
                except Exception:
                    pass
            cid = V.class_id(v.cls if isinstance(v, SObj) else {SList: "list", SymSeq: "list", SDict: "dict", STuple: "tuple"}[type(v)])
            self.base_assumptions.append(V.cls_of(ref) == cid)
            return V.VObj(ref)
        if isinstance(v, Opaque):
            return fresh(v.tag, V.Val)
        raise OutsideSubset(f"cannot view {type(v).__name__} as Val")

    # -- running a function ------------------------------------------------------------------------------
    def run_function(self, module: str, qualname: str, args: dict[str, Any], st: State | None = None, fndef: ast.AST | None = None) -> list[PathResult]:
        fn = fndef if fndef is not None else extract.find_def(module, qualname)
        st = st or State()
        frame_env = dict(args)
        if fndef is None and getattr(self, "bind_defaults", False) and isinstance(fn, (ast.FunctionDef, ast.AsyncFunctionDef)):
            # second stage of verify_contract only: a parameter the contract does not mention takes its declared default
            # (what a caller that does not pass it gets) instead of an unconstrained value
            from verif.pyvc.calls import _default_value

            a = fn.args
            names = [x.arg for x in a.posonlyargs + a.args]
            for pn, d in zip(names[len(names) - len(a.defaults):], a.defaults):
                if pn not in frame_env:
                    frame_env[pn] = _default_value(self, d, module, st)
                    self.defaults_bound.append(f"{pn}={ast.unparse(d)}")
            for pa, d in zip(a.kwonlyargs, a.kw_defaults):
                if pa.arg not in frame_env and d is not None:
                    frame_env[pa.arg] = _default_value(self, d, module, st)
                    self.defaults_bound.append(f"{pa.arg}={ast.unparse(d)}")
        results: list[PathResult] = []
        for s2, out in self.exec_body(fn.body, st, Frame(module, f"{module}:{qualname}"), frame_env):
            self.npaths += 1
            if self.npaths > self.max_paths:
                raise OutsideSubset(f"more than {self.max_paths} paths")
            if out[0] == "return":
                results.append(PathResult(s2, "return", out[1]))
            elif out[0] == "raise":
                results.append(PathResult(s2, "raise", out[1]))
            elif out[0] == "normal":
                results.append(PathResult(s2, "return", None))
            else:
                raise OutsideSubset(f"loop control {out[0]} escaped the function")
        return results

    def exec_body(self, body: list[ast.stmt], st: State, fr: Frame, env: dict[str, Any]) -> Iterator[tuple[State, tuple]]:
        st.env = env
        st.frame = fr
        yield from self.exec_block(body, st)

    def exec_block(self, stmts: list[ast.stmt], st: State) -> Iterator[tuple[State, tuple]]:
        if not stmts:
            yield st, ("normal",)
            return
        first, rest = stmts[0], stmts[1:]
        for s2, out in self.exec_stmt(first, st):
            if out[0] == "normal":
                yield from self.exec_block(rest, s2)
            else:
                yield s2, out

    # -- statements ------------------------------------------------------------------------------------------
    def exec_stmt(self, n: ast.stmt, st: State) -> Iterator[tuple[State, tuple]]:
        if isinstance(n, ast.Expr):
            if isinstance(n.value, ast.Constant):
                yield st, ("normal",)
                return
            for s2, v in self.ev(n.value, st):
                yield (s2, ("raise", v.exc)) if isinstance(v, Raised) else (s2, ("normal",))
            return
        if isinstance(n, ast.Pass):
            yield st, ("normal",)
            return
        if isinstance(n, ast.Return):
            if n.value is None:
                yield st, ("return", None)
                return
            for s2, v in self.ev(n.value, st):
                yield (s2, ("raise", v.exc)) if isinstance(v, Raised) else (s2, ("return", v))
            return
        if isinstance(n, (ast.Assign, ast.AnnAssign)):
            if isinstance(n, ast.AnnAssign) and n.value is None:
                yield st, ("normal",)
                return
            targets = n.targets if isinstance(n, ast.Assign) else [n.target]
            for s2, v in self.ev(n.value, st):
                if isinstance(v, Raised):
                    yield s2, ("raise", v.exc)
                    continue
                outs = [(s2, None)]
                for t in targets:
                    new = []
                    for s3, _ in outs:
                        for s4, r in self.assign(t, v, s3):
                            new.append((s4, r))
                    outs = new
                for s3, r in outs:
                    yield (s3, ("raise", r.exc)) if isinstance(r, Raised) else (s3, ("normal",))
            return
        if isinstance(n, ast.AugAssign):
            load = ast.copy_location(ast.BinOp(left=_as_load(n.target), op=n.op, right=n.value), n)
            for s2, v in self.ev(load, st):
                if isinstance(v, Raised):
                    yield s2, ("raise", v.exc)
                    continue
                for s3, r in self.assign(n.target, v, s2):
                    yield (s3, ("raise", r.exc)) if isinstance(r, Raised) else (s3, ("normal",))
            return
        if isinstance(n, ast.If):
            for s2, c in self.ev(n.test, st):
                if isinstance(c, Raised):
                    yield s2, ("raise", c.exc)
                    continue
                for s3, b in self.branch(s2, self.truth(c)):
                    yield from self.exec_block(n.body if b else n.orelse, s3)
            return
        if isinstance(n, ast.Raise):
            if n.exc is None:
                cur = st.env.get("$exc")
                yield st, ("raise", cur or SExc("AnyException"))
                return
            for s2, v in self.ev(n.exc, st):
                if isinstance(v, Raised):
                    yield s2, ("raise", v.exc)
                elif isinstance(v, SExc):
                    yield s2, ("raise", v)
                elif isinstance(v, SClass):
                    yield s2, ("raise", SExc(v.name))
                elif isinstance(v, SObj):
                    yield s2, ("raise", SExc(v.cls, [], note="obj"))
                else:
                    yield s2, ("raise", SExc("AnyException"))
            return
        if isinstance(n, ast.Try):
            yield from self.exec_try(n, st)
            return
        if isinstance(n, ast.For):
            yield from self.exec_for(n, st)
            return
        if isinstance(n, ast.While):
            yield from self.exec_while(n, st)
            return
        if isinstance(n, ast.Break):
            yield st, ("break",)
            return
        if isinstance(n, ast.Continue):
            yield st, ("continue",)
            return
        if isinstance(n, ast.Assert):
            for s2, c in self.ev(n.test, st):
                if isinstance(c, Raised):
                    yield s2, ("raise", c.exc)
                    continue
                for s3, b in self.branch(s2, self.truth(c)):
                    yield (s3, ("normal",)) if b else (s3, ("raise", SExc("AssertionError")))
            return
        if isinstance(n, (ast.FunctionDef, ast.AsyncFunctionDef)):
            st.env[n.name] = SFunc(st.frame.module, st.frame.func_key.split(":")[1] + ".<locals>." + n.name)
            st.env.setdefault("$closures", {})[n.name] = n
            yield st, ("normal",)
            return
        if isinstance(n, (ast.Import, ast.ImportFrom)):
            for a in n.names:
                nm = (a.asname or a.name).split(".")[0]
                st.env[nm] = SModule(a.name if isinstance(n, ast.Import) else f"{n.module}.{a.name}")
            yield st, ("normal",)
            return
        if isinstance(n, ast.With):
            yield from self.exec_with(n, st)
            return
        if isinstance(n, ast.Delete):
            for t in n.targets:
                if isinstance(t, ast.Subscript):
                    done = False
                    for s2, c in self.ev(t.value, st):
                        for s3, k in self.ev(t.slice, s2):
                            if isinstance(c, SDict) and _hashable_const(k):
                                if k in c.entries:
                                    del c.entries[k]
                                    yield s3, ("normal",)
                                elif c.open:
                                    yield s3, ("normal",)
                                else:
                                    yield s3, ("raise", SExc("KeyError"))
                                done = True
                            elif isinstance(s3.resolve(c), SList) and (isinstance(k, int) or (isinstance(k, tuple) and k and k[0] == "slice" and all(x is None or isinstance(x, int) for x in k[1:]))):
                                lst = s3.resolve(c)
                                if isinstance(k, int):
                                    if not -len(lst.items) <= k < len(lst.items):
                                        yield s3, ("raise", SExc("IndexError"))
                                        done = True
                                        continue
                                    del lst.items[k]
                                else:
                                    del lst.items[slice(k[1], k[2], k[3])]
                                s3.trace.append(("del", getattr(lst, "name", "list")))
                                yield s3, ("normal",)
                                done = True
                            else:
                                raise OutsideSubset("del on a non-concrete container")
                    if done:
                        return
                raise OutsideSubset("del target")
            return
        if isinstance(n, ast.Global):
            raise OutsideSubset("global statement")
        raise OutsideSubset(f"statement {type(n).__name__}")

    def exec_with(self, n: ast.With, st: State) -> Iterator[tuple[State, tuple]]:
        # modelled as: evaluate the manager (may raise), bind, run body, manager exit cannot swallow
        if len(n.items) != 1:
            raise OutsideSubset("with: several managers")
        it = n.items[0]
        for s2, m in self.ev(it.context_expr, st):
            if isinstance(m, Raised):
                yield s2, ("raise", m.exc)
                continue
            if it.optional_vars is not None:
                for s3, r in self.assign(it.optional_vars, m, s2):
                    if isinstance(r, Raised):
                        yield s3, ("raise", r.exc)
                    else:
                        yield from self._with_body(n, m, s3)
            else:
                yield from self._with_body(n, m, s2)

    def _with_body(self, n: ast.With, mgr: Any, st: State):
        for s2, out in self.exec_block(n.body, st):
            # __exit__: library hook (e.g. file close may raise)
            hook = getattr(self, "with_exit_hook", None)
            if hook is not None:
                yield from hook(self, mgr, s2, out)
            else:
                yield s2, out

    def exec_try(self, n: ast.Try, st: State) -> Iterator[tuple[State, tuple]]:
        def run_final(s: State, out: tuple):
            if not n.finalbody:
                yield s, out
                return
            for s2, fo in self.exec_block(n.finalbody, s):
                yield (s2, out) if fo[0] == "normal" else (s2, fo)

        for s2, out in self.exec_block(n.body, st):
            if out[0] == "raise":
                exc: SExc = out[1]
                handled_paths = [(s2, False)]
                for h in n.handlers:
                    names = _handler_names(h)
                    nxt = []
                    for s3, done in handled_paths:
                        if done:
                            nxt.append((s3, done))
                            continue
                        m = True if names is None else _any_match(exc.cls, names, self.pkg)
                        if m is True:
                            yield from self._run_handler(h, exc, s3, run_final)
                            nxt.append((s3, True))
                        elif m is None:
                            # unknown exception class: may or may not be caught by this handler
                            s4 = s3.clone()
                            yield from self._run_handler(h, SExc(names[0], exc.args, note=exc.note), s4, run_final)
                            nxt.append((s3, False))
                        else:
                            nxt.append((s3, False))
                    handled_paths = nxt
                for s3, done in handled_paths:
                    if not done:
                        yield from run_final(s3, out)
            elif out[0] == "normal" and n.orelse:
                for s3, o2 in self.exec_block(n.orelse, s2):
                    yield from run_final(s3, o2)
            else:
                yield from run_final(s2, out)

    def _run_handler(self, h: ast.ExceptHandler, exc: SExc, st: State, run_final):
        if h.name:
            st.env[h.name] = exc
        prev = st.env.get("$exc")
        st.env["$exc"] = exc
        for s2, out in self.exec_block(h.body, st):
            s2.env["$exc"] = prev
            yield from run_final(s2, out)

    # -- loops -------------------------------------------------------------------------------------------------
    def exec_for(self, n: ast.For, st: State) -> Iterator[tuple[State, tuple]]:
        for s2, it in self.ev(n.iter, st):
            if isinstance(it, Raised):
                yield s2, ("raise", it.exc)
                continue
            it = s2.resolve(it)
            items = self.concrete_iter(it)
            if items is not None:
                yield from self._unroll(n, items, 0, s2)
                continue
            hook = self.loop_invariants.get((s2.frame.func_key, _loop_ordinal(s2.frame, n, self)))
            if hook is not None:
                yield from hook(self, n, it, s2)
                continue
            if isinstance(it, SymSeq):
                from verif.pyvc import loops

                yield from loops.summarize_for(self, n, it, s2)
                continue
            raise OutsideSubset(f"for-loop over {type(it).__name__} without summary/invariant at {s2.frame.func_key}:L{n.lineno}")

    def _unroll(self, n: ast.For, items: list, i: int, st: State) -> Iterator[tuple[State, tuple]]:
        if i >= len(items):
            if n.orelse:
                yield from self.exec_block(n.orelse, st)
            else:
                yield st, ("normal",)
            return
        for s2, r in self.assign(n.target, items[i], st):
            if isinstance(r, Raised):
                yield s2, ("raise", r.exc)
                continue
            for s3, out in self.exec_block(n.body, s2):
                if out[0] in ("normal", "continue"):
                    yield from self._unroll(n, items, i + 1, s3)
                elif out[0] == "break":
                    yield s3, ("normal",)
                else:
                    yield s3, out

    def concrete_iter(self, it: Any) -> list | None:
        if isinstance(it, SList):
            return list(it.items)
        if isinstance(it, STuple):
            return list(it.items)
        if isinstance(it, (list, tuple)):
            return list(it)
        if isinstance(it, SDict) and not it.open:
            return list(it.entries.keys())
        if isinstance(it, str):
            return list(it)
        if isinstance(it, range):
            return list(it)
        if isinstance(it, _Items):
            return [STuple((k, v)) for k, v in it.pairs]
        if isinstance(it, SymSeq):
            L = z3.simplify(it.length) if it.length is not None else None
            if L is not None and z3.is_int_value(L):
                base = [it.at(z3.IntVal(j)) for j in range(L.as_long())]
                return base + list(it.appended)
        return None

    def exec_while(self, n: ast.While, st: State, fuel: int = 64) -> Iterator[tuple[State, tuple]]:
        if fuel == 0:
            raise OutsideSubset(f"while-loop not bounded by concrete unrolling at L{n.lineno}")
        hook = self.loop_invariants.get((st.frame.func_key, _loop_ordinal(st.frame, n, self)))
        if hook is not None:
            yield from hook(self, n, None, st)
            return
        for s2, c in self.ev(n.test, st):
            if isinstance(c, Raised):
                yield s2, ("raise", c.exc)
                continue
            for s3, b in self.branch(s2, self.truth(c)):
                if not b:
                    yield s3, ("normal",)
                    continue
                for s4, out in self.exec_block(n.body, s3):
                    if out[0] in ("normal", "continue"):
                        yield from self.exec_while(n, s4, fuel - 1)
                    elif out[0] == "break":
                        yield s4, ("normal",)
                    else:
                        yield s4, out

    # -- assignment ----------------------------------------------------------------------------------------------
    def assign(self, t: ast.AST, v: Any, st: State) -> Iterator[tuple[State, Any]]:
        v = st.resolve(v)
        if isinstance(t, ast.Name):
            st.env[t.id] = v
            yield st, None
            return
        if isinstance(t, (ast.Tuple, ast.List)):
            items = self.concrete_iter(v)
            if items is None or len(items) != len(t.elts):
                raise OutsideSubset("unpacking a non-concrete sequence")
            outs = [(st, None)]
            for tt, x in zip(t.elts, items):
                new = []
                for s2, _ in outs:
                    new.extend(self.assign(tt, x, s2))
                outs = new
            yield from outs
            return
        if isinstance(t, ast.Attribute):
            for s2, o in self.ev(t.value, st):
                if isinstance(o, Raised):
                    yield s2, o
                    continue
                if isinstance(o, SObj):
                    o.fields[t.attr] = v
                    s2.trace.append(("store", o.name, t.attr))
                    yield s2, None
                elif isinstance(o, SymObj):
                    s2.upd.setdefault((o.cls, t.attr), []).append((o.ref, v))
                    s2.trace.append(("store", o.ref, t.attr))
                    yield s2, None
                else:
                    raise OutsideSubset(f"attribute store on {type(o).__name__}")
            return
        if isinstance(t, ast.Subscript):
            for s2, o in self.ev(t.value, st):
                if isinstance(o, Raised):
                    yield s2, o
                    continue
                for s3, k in self.ev(t.slice, s2):
                    if isinstance(k, Raised):
                        yield s3, k
                        continue
                    if isinstance(o, SDict) and _hashable_const(k):
                        o.entries[k] = v
                        if getattr(o, "sym_exact", False):
                            o.sym_exact = False
                        yield s3, None
                    elif isinstance(o, SDict) and V.is_z3(k) and k.sort() == z3.StringSort():
                        # a store under a symbolic string key: recorded in `sym_pairs` (contracts read it); for every
                        # other operation the dict is from now on OPEN - it may hold keys the executor does not know -
                        # which over-approximates what follows
                        if not hasattr(o, "sym_pairs"):
                            o.sym_pairs = []
                            # a dict that was CLOSED and EMPTY when its first symbolic key arrived is known exactly: its keys
                            # are the symbolic keys stored so far (membership and reads by a symbolic key fork over them).
                            # Any concrete-key store afterwards gives that up (entries and sym_pairs lose their order).
                            o.sym_exact = (not o.open) and not o.entries
                        o.sym_pairs.append((k, v))
                        o.open = True
                        yield s3, None
                    elif isinstance(o, SList) and isinstance(k, int) and -len(o.items) <= k < len(o.items):
                        o.items[k] = v
                        yield s3, None
                    else:
                        raise OutsideSubset(f"subscript store on {type(o).__name__}[{type(k).__name__}]")
            return
        raise OutsideSubset(f"assignment target {type(t).__name__}")

    # -- expressions ------------------------------------------------------------------------------------------------
    def ev(self, n: ast.AST, st: State) -> Iterator[tuple[State, Any]]:
        from verif.pyvc import exprs

        yield from exprs.ev(self, n, st)

    def ev_list(self, nodes: list[ast.AST], st: State) -> Iterator[tuple[State, Any]]:
        """Evaluate left to right; yields (state, [values]) or (state, Raised)."""
        if not nodes:
            yield st, []
            return
        for s2, v in self.ev(nodes[0], st):
            if isinstance(v, Raised):
                yield s2, v
                continue
            for s3, rest in self.ev_list(nodes[1:], s2):
                if isinstance(rest, Raised):
                    yield s3, rest
                else:
                    yield s3, [v] + rest


class _Items:
    def __init__(self, pairs):
        self.pairs = list(pairs)


def _as_load(t: ast.AST) -> ast.AST:
    import copy

    t2 = copy.deepcopy(t)
    for x in ast.walk(t2):
        if hasattr(x, "ctx"):
            x.ctx = ast.Load()
    return t2


def _hashable_const(k: Any) -> bool:
    return isinstance(k, (str, int, bool, tuple, SEnum)) or k is None


def _handler_names(h: ast.ExceptHandler) -> list[str] | None:
    if h.type is None:
        return None
    if isinstance(h.type, ast.Tuple):
        return [ast.unparse(e).split(".")[-1] if not ast.unparse(e).startswith("re.") else ast.unparse(e) for e in h.type.elts]
    s = ast.unparse(h.type)
    return [s if s.startswith("re.") else s.split(".")[-1]]


def _any_match(exc_cls: str, names: list[str], pkg) -> bool | None:
    res = [exc_matches(exc_cls, nm, pkg) for nm in names]
    if any(r is True for r in res):
        return True
    if any(r is None for r in res):
        return None
    return False


def _loop_ordinal(fr: Frame, node: ast.AST, interp: Interp) -> int:
    mod, q = fr.func_key.split(":")
    q = q.split(".<locals>.")[0] if ".<locals>." in q and False else q
    try:
        fn = extract.find_def(mod, q.replace(".<locals>.", "."))
    except Exception:
        fn = None
    if fn is None:
        return -1
    k = 0
    for x in ast.walk(fn):
        if isinstance(x, (ast.For, ast.While)):
            if x.lineno == node.lineno and x.col_offset == node.col_offset:
                return k
            k += 1
    return -1
