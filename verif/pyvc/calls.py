"""Call dispatch for the pyvc interpreter: builtins, library models, constructors, repository
functions (sidecar contract or inlining), opaque calls (may raise any Exception)."""
from __future__ import annotations

import ast
from typing import Any, Iterator

import z3

from verif import extract
from verif.pyvc import val as V
from verif.pyvc.exprs import EXC_BUILTINS, _and, _not, _or, contains, eq, is_none, str_concat, to_str_term
from verif.pyvc.interp import (
    Frame, Opaque, OutsideSubset, Raised, SBound, SBuiltin, SClass, SDict, SEnum, SExc, SFunc, SList, SModule, SObj, State, STuple, SymObj, SymSeq, _hashable_const, _Items, fresh,
)

NO_RAISE_OPAQUE = {"logger.debug", "logger.info", "logger.warning", "logger.error", "logging.getLogger", "print", "click.echo"}


class SMatch:
    """Result of re.match/search: truthiness is `ok`; groups are opaque strings."""

    def __init__(self, ok: Any, tag: str, rx: tuple | None = None, subject: Any = None, real: Any = None):
        self.ok, self.tag = ok, tag
        self.rx, self.subject, self.real = rx, subject, real  # rx = (pattern, flags, how)


def call(I, n: ast.Call, st: State) -> Iterator[tuple[State, Any]]:
    if isinstance(n.func, ast.Name) and n.func.id in ("any", "all") and len(n.args) == 1 and isinstance(n.args[0], ast.GeneratorExp) and n.func.id not in st.env:
        from verif.pyvc import comps

        yield from comps.quantified(I, n.func.id, n.args[0], st)
        return
    if isinstance(n.func, ast.Attribute) and n.func.attr in ("add", "discard") and isinstance(n.func.value, ast.Name) and len(n.args) == 1 and not n.keywords and isinstance(st.env.get(n.func.value.id), frozenset):
        # `local_set.add(x)` on a set the executor holds as an immutable value: rebind the local. Refused when the same
        # value object is reachable under another name (an alias would have to see the change too).
        name = n.func.value.id
        cur = st.env[name]
        if cur and any(v is cur for k, v in st.env.items() if k != name):
            raise OutsideSubset(f"{name}.{n.func.attr}() on a set that has an alias")
        for s2, x in I.ev(n.args[0], st):
            if isinstance(x, Raised):
                yield s2, x
                continue
            from verif.pyvc.exprs import _hashable_const

            if not (_hashable_const(x) or isinstance(x, SEnum)):
                raise OutsideSubset(f"{name}.{n.func.attr}() of a symbolic element")
            s2.env[name] = (s2.env[name] | {x}) if n.func.attr == "add" else (s2.env[name] - {x})
            yield s2, None
        return
    for s2, f in I.ev(n.func, st):
        if isinstance(f, Raised):
            yield s2, f
            continue
        arg_nodes = [a for a in n.args]
        kw_nodes = [k.value for k in n.keywords]
        for s3, vals in I.ev_list(arg_nodes + kw_nodes, s2):
            if isinstance(vals, Raised):
                yield s3, vals
                continue
            pos: list = []
            for a, v in zip(arg_nodes, vals[: len(arg_nodes)]):
                if isinstance(a, ast.Starred):
                    items = I.concrete_iter(v)
                    if items is None:
                        raise OutsideSubset("*args of a non-concrete sequence")
                    pos.extend(items)
                else:
                    pos.append(v)
            kw: dict[str, Any] = {}
            for k, v in zip(n.keywords, vals[len(arg_nodes):]):
                if k.arg is None:
                    if isinstance(v, SDict) and not v.open:
                        kw.update({str(a): b for a, b in v.entries.items()})
                    else:
                        raise OutsideSubset("**kwargs of a non-concrete dict")
                else:
                    kw[k.arg] = v
            yield from apply(I, f, pos, kw, s3, n)


def apply(I, f: Any, pos: list, kw: dict, st: State, node: ast.AST | None = None) -> Iterator[tuple[State, Any]]:
    from verif.pyvc import lib

    pos = [st.resolve(x) for x in pos]
    kw = {k: st.resolve(v) for k, v in kw.items()}
    if isinstance(f, SBound):
        f = SBound(st.resolve(f.recv), f.name)

    if isinstance(f, SBuiltin):
        yield from lib.builtin(I, f.name, pos, kw, st)
        return
    if isinstance(f, SClass):
        yield from construct(I, f, pos, kw, st)
        return
    if isinstance(f, SFunc):
        yield from call_repo(I, f.module, f.qualname, None, pos, kw, st)
        return
    if isinstance(f, SBound):
        yield from call_method(I, f.recv, f.name, pos, kw, st)
        return
    if isinstance(f, tuple) and f and f[0] == "lambda":
        _, lam, env = f
        yield from _inline(I, lam.args, [ast.Return(value=lam.body)], "<lambda>", st.frame.module, pos, kw, st, outer=env)
        return
    if isinstance(f, SModule):
        yield from lib.module_call(I, f.name, pos, kw, st)
        return
    if isinstance(f, Opaque):
        yield from opaque_call(I, f.tag, pos, kw, st)
        return
    raise OutsideSubset(f"call of {type(f).__name__}")


def opaque_call(I, name: str, pos: list, kw: dict, st: State, may_raise: bool = True, havoc: bool = True) -> Iterator[tuple[State, Any]]:
    I.opaque_calls.add(name)
    st.assumed.append(f"opaque:{name}")
    if havoc:
        for a in list(pos) + list(kw.values()):
            _havoc(a)
    if may_raise and name not in NO_RAISE_OPAQUE:
        s2 = st.clone()
        yield s2, Raised(SExc("AnyException", note=name))
    yield st, Opaque(f"ret:{name}")


def _havoc(a: Any, seen: set | None = None) -> None:
    seen = seen if seen is not None else set()
    if id(a) in seen:
        return
    seen.add(id(a))
    if isinstance(a, SObj):
        for k in list(a.fields):
            _havoc(a.fields[k], seen)
            a.fields[k] = Opaque(f"havoc:{a.name}.{k}")
    elif isinstance(a, SList):
        a.items = [Opaque("havoc:item")]
        a.havocked = True
    elif isinstance(a, SDict):
        a.open = True
        for k in list(a.entries):
            a.entries[k] = Opaque(f"havoc:[{k!r}]")


# ---- constructors -----------------------------------------------------------------------------------


def dataclass_fields(I, ci) -> list[tuple[str, ast.AST | None, str]]:
    """(name, default expr or None, module) in dataclass order over the MRO."""
    out: list[tuple[str, ast.AST | None, str]] = []
    for c in reversed(I.pkg.mro(ci)):
        if not c.is_dataclass:
            continue
        for s in c.node.body:
            if isinstance(s, ast.AnnAssign) and isinstance(s.target, ast.Name):
                if "ClassVar" in ast.unparse(s.annotation):
                    continue
                out = [x for x in out if x[0] != s.target.id]
                out.append((s.target.id, s.value, c.module))
    return out


def _default_value(I, d: ast.AST, module: str, st: State) -> Any:
    if isinstance(d, ast.Call) and ast.unparse(d.func) in ("field", "dataclasses.field"):
        for k in d.keywords:
            if k.arg == "default_factory":
                f = ast.unparse(k.value)
                if f == "list":
                    return SList()
                if f == "dict":
                    return SDict()
                if f == "set":
                    return frozenset()
                raise OutsideSubset(f"default_factory {f}")
            if k.arg == "default":
                return _default_value(I, k.value, module, st)
        return None
    try:
        from verif.pyvc.exprs import const_to_sym

        return const_to_sym(extract.eval_const(d, extract.module_consts(module)))
    except extract.ExtractionError:
        raise OutsideSubset(f"default {ast.unparse(d)[:40]}")


def construct(I, c: SClass, pos: list, kw: dict, st: State) -> Iterator[tuple[State, Any]]:
    if c.module is None or c.name in EXC_BUILTINS:
        yield st, SExc(c.name, pos)
        return
    ci = I.pkg.classes.get(f"{c.module}:{c.name}")
    if ci is None:
        yield from opaque_call(I, f"{c.name}()", pos, kw, st)
        return
    if ci.is_exception:
        yield st, SExc(c.name, pos)
        return
    if ci.is_enum:
        # Enum lookup by value: UnknownFieldPolicy("REJECT")
        yield from I.enum_lookup(ci, pos[0], st)
        return
    if ci.is_dataclass:
        fields = dataclass_fields(I, ci)
        vals: dict[str, Any] = {}
        for (name, _, _), v in zip(fields, pos):
            vals[name] = v
        for k, v in kw.items():
            vals[k] = v
        for name, d, m in fields:
            if name not in vals:
                if d is None:
                    yield st, Raised(SExc("TypeError", note=f"missing {name}"))
                    return
                vals[name] = _default_value(I, d, m, st)
        o = SObj(c.name, vals)
        st.trace.append(("new", o.name, c.name))
        post = I.pkg.find_method(ci, "__post_init__")
        if post:
            for s2, r in call_repo(I, post[0].module, post[0].qualname, o, [], {}, st):
                yield s2, (r if isinstance(r, Raised) else o)
        else:
            yield st, o
        return
    # plain class with __init__
    init = I.pkg.find_method(ci, "__init__")
    new = I.pkg.find_method(ci, "__new__")
    if new and c.name == "Absent":
        yield st, SObj("Absent", {}, fresh_obj=False, name="ABSENT")
        return
    o = SObj(c.name, {})
    st.trace.append(("new", o.name, c.name))
    if init:
        for s2, r in call_repo(I, init[0].module, init[0].qualname, o, pos, kw, st):
            yield s2, (r if isinstance(r, Raised) else o)
    else:
        yield st, o


# ---- repository functions --------------------------------------------------------------------------------


def call_repo(I, module: str, qualname: str, self_obj: Any, pos: list, kw: dict, st: State) -> Iterator[tuple[State, Any]]:
    key = f"{module}:{qualname}"
    con = I.contracts.get(key)
    if con is not None and not (st.depth == 0 and getattr(I, "root_key", None) == key and not getattr(I, "root_started", True)):
        st.assumed.append(f"contract:{key}")
        yield from con(I, self_obj, pos, kw, st)
        return
    if ".<locals>." in qualname:
        # nested function: find its definition in the environment chain
        name = qualname.rsplit(".<locals>.", 1)[1]
        env = st.env
        node = None
        while env is not None:
            cl = env.get("$closures")
            if cl and name in cl:
                node = cl[name]
                break
            env = env.get("$outer")
        if node is None:
            raise OutsideSubset(f"nested function {qualname} called outside its scope")
        yield from _inline(I, node.args, node.body, key, module, pos, kw, st, outer=env)
        return
    try:
        fn = extract.find_def(module, qualname)
    except extract.ExtractionError:
        yield from opaque_call(I, key, pos, kw, st)
        return
    if st.depth >= I.inline_depth or (key in getattr(st, "stack", ()) and key not in getattr(I, "recursion_ok", ())):
        if key in getattr(I, "opaque_ok", ()):
            yield from opaque_call(I, key, pos, kw, st)
            return
        raise OutsideSubset(f"call of {key} needs a contract (inlining depth {st.depth}, recursion={key in getattr(st, 'stack', ())})")
    if key in getattr(I, "opaque_ok", ()):
        yield from opaque_call(I, key, pos, kw, st, havoc=key not in getattr(I, "pure_opaque", ()))
        return
    I.inlined.add(key)
    args = list(pos)
    is_static = any(ast.unparse(d) == "staticmethod" for d in fn.decorator_list)
    is_classm = any(ast.unparse(d) == "classmethod" for d in fn.decorator_list)
    if self_obj is not None and not is_static:
        if is_classm and not isinstance(self_obj, SClass):
            self_obj = SClass(self_obj.cls, None) if isinstance(self_obj, (SObj, SymObj)) else self_obj
        args = [self_obj] + args
    yield from _inline(I, fn.args, fn.body, key, module, args, kw, st)


def _inline(I, a: ast.arguments, body: list[ast.stmt], key: str, module: str, pos: list, kw: dict, st: State, outer: dict | None = None) -> Iterator[tuple[State, Any]]:
    params = [x.arg for x in a.posonlyargs + a.args]
    env: dict[str, Any] = {}
    if len(pos) > len(params) and a.vararg is None:
        yield st, Raised(SExc("TypeError", note="too many positional arguments"))
        return
    for p, v in zip(params, pos):
        env[p] = v
    if a.vararg is not None:
        env[a.vararg.arg] = STuple(pos[len(params):])
    extra_kw = {}
    for k, v in kw.items():
        if k in params or k in [x.arg for x in a.kwonlyargs]:
            env[k] = v
        else:
            extra_kw[k] = v
    if a.kwarg is not None:
        env[a.kwarg.arg] = SDict(extra_kw)
    elif extra_kw:
        yield st, Raised(SExc("TypeError", note=f"unexpected keyword {list(extra_kw)}"))
        return
    defaults = list(a.defaults)
    for p, d in zip(params[len(params) - len(defaults):], defaults):
        if p not in env:
            env[p] = _default_value(I, d, module, st)
    for p, d in zip(a.kwonlyargs, a.kw_defaults):
        if p.arg not in env:
            if d is None:
                yield st, Raised(SExc("TypeError", note=f"missing {p.arg}"))
                return
            env[p.arg] = _default_value(I, d, module, st)
    for p in params:
        if p not in env:
            yield st, Raised(SExc("TypeError", note=f"missing argument {p}"))
            return
    if outer is not None:
        env["$outer"] = outer
    env["$caller"] = (st.env, st.frame, getattr(st, "stack", ()))
    st.env = env
    st.frame = Frame(module, key)
    st.stack = getattr(st, "stack", ()) + (key,)
    st.depth += 1
    for s2, out in I.exec_block(body, st):
        cenv, cframe, cstack = s2.env["$caller"] if "$caller" in s2.env else _find_caller(s2)
        s2.env, s2.frame, s2.stack = cenv, cframe, cstack
        s2.depth -= 1
        if out[0] == "return":
            yield s2, out[1]
        elif out[0] == "normal":
            yield s2, None
        elif out[0] == "raise":
            yield s2, Raised(out[1])
        else:
            raise OutsideSubset("loop control escaped a function body")


def _find_caller(st: State):
    raise OutsideSubset("lost caller frame")


# ---- methods ----------------------------------------------------------------------------------------------


def call_method(I, recv: Any, name: str, pos: list, kw: dict, st: State) -> Iterator[tuple[State, Any]]:
    from verif.pyvc import lib

    if isinstance(recv, SObj) and recv.cls in ("sha256", "bytes", "datetime"):
        yield from lib.method(I, recv, name, pos, kw, st)
        return
    if isinstance(recv, (SObj, SymObj)):
        cls = recv.cls
        infos = I.pkg.class_by_name.get(cls, [])
        for ci in infos:
            ms = I.pkg.find_method(ci, name)
            if not ms:
                continue
            if isinstance(recv, SymObj) and not recv.exact and len({m.key for m in ms}) > 1:
                # virtual call with unknown dynamic class: a contract on the base method is required
                base = ms[0]
                con = I.contracts.get(base.key)
                if con is None:
                    raise OutsideSubset(f"virtual call {cls}.{name} needs a contract on {base.key}")
                st.assumed.append(f"contract:{base.key}")
                yield from con(I, recv, pos, kw, st)
                return
            m = ms[0]
            yield from call_repo(I, m.module, m.qualname, recv, pos, kw, st)
            return
        hook = getattr(I, "method_hook", None)
        if hook:
            r = hook(I, recv, name, pos, kw, st)
            if r is not None:
                yield from r
                return
        yield st, Raised(SExc("AttributeError", note=f"{cls}.{name}"))
        return
    if isinstance(recv, SClass):
        infos = I.pkg.class_by_name.get(recv.name, [])
        for ci in infos:
            ms = I.pkg.find_method(ci, name)
            if ms:
                m = ms[0]
                fn = m.node
                if any(ast.unparse(d) == "classmethod" for d in fn.decorator_list):
                    yield from call_repo(I, m.module, m.qualname, recv, pos, kw, st)
                else:
                    yield from call_repo(I, m.module, m.qualname, None, pos, kw, st)
                return
        yield from lib.module_call(I, f"{recv.name}.{name}", pos, kw, st)
        return
    yield from lib.method(I, recv, name, pos, kw, st)
