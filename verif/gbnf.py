"""Reference reader for llama.cpp GBNF grammars -- a *specification oracle*.

Written from the syntax accepted by llama.cpp's grammar parser (src/llama-grammar.cpp, formerly
common/grammar-parser.cpp) and grammars/README.md; it shares no code with the repository under test.
The control flow deliberately mirrors llama.cpp's parse_space / parse_name / parse_char /
parse_sequence / parse_alternates / parse_rule so that newline handling is the same:

  * a newline ends a rule body at top level;
  * newlines are allowed after ``::=``, after ``|``, anywhere inside ``( ... )``, and between rules;
  * a newline *before* ``|`` at top level is NOT a continuation (the next line fails as a rule);
  * ``#`` starts a comment (to end of line) wherever white space is allowed.

Rule names are ``[a-zA-Z0-9-]+`` (llama.cpp's is_word_char).  ``allow_underscore=True`` (tolerant
mode) additionally admits ``_``; real llama.cpp rejects it.

Deliberate deviations, all on the *rejecting* side (the oracle refuses what is doubtful):
  * a raw CR/LF inside a literal or class is ``unterminated_*`` (llama.cpp would take it as a char);
  * an empty class ``[]`` / ``[^]``, a reversed range ``[z-a]``, ``{m,n}`` with m > n, a NUL, and a
    code point above U+10FFFF are errors (llama.cpp does not check them);
  * the token syntax of very recent llama.cpp (``<[123]>``, ``<tok>``) is not supported.
Faithfully reproduced quirks: an operator after ``""`` or after ``x{0}`` is ``dangling_operator``
(nothing was emitted to repeat); stacked operators (``a*+``) nest; a duplicate definition overwrites
(last wins) -- it is *recorded*, and reported by ``validate``/``check_wellformed``.
llama.cpp additionally refuses left-recursive grammars at grammar-init time: see ``left_recursion``.
"""
from __future__ import annotations

import sys
from dataclasses import dataclass, field

KINDS = ("syntax", "unterminated_literal", "unterminated_class", "bad_escape", "bad_name",
         "dangling_operator", "duplicate_rule", "undefined_rule", "no_root", "empty_alternative",
         "unbalanced_paren")
_ALNUM = "abcdefghijklmnopqrstuvwxyzABCDEFGHIJKLMNOPQRSTUVWXYZ0123456789"
_HEX = "0123456789abcdefABCDEF"
_MAX_CP = 0x10FFFF


class GBNFError(Exception):
    def __init__(self, kind: str, message: str, line: int | None = None):
        assert kind in KINDS, kind
        super().__init__(f"{kind}: line {line}: {message}")
        self.kind, self.message, self.line = kind, message, line


# ----------------------------------------------------------------------------- nodes
@dataclass
class Lit:
    text: str


@dataclass
class CharClass:
    ranges: list[tuple[int, int]]
    negated: bool = False

    def contains(self, ch: str) -> bool:
        cp = ord(ch)
        return any(lo <= cp <= hi for lo, hi in self.ranges) != self.negated


@dataclass
class Any:
    pass


@dataclass
class Ref:
    name: str


@dataclass
class Seq:
    items: list


@dataclass
class Alt:
    options: list


@dataclass
class Repeat:
    item: object
    min: int
    max: int | None


Node = Lit | CharClass | Any | Ref | Seq | Alt | Repeat


@dataclass
class Grammar:
    rules: dict[str, Node]
    order: list[str]
    def_line: dict[str, int] = field(default_factory=dict)
    duplicates: list[tuple[str, int]] = field(default_factory=list)       # (name, line of the re-definition)
    empty_alts: list[tuple[str, int]] = field(default_factory=list)       # (enclosing rule, line)
    refs: list[tuple[str, int, str]] = field(default_factory=list)        # (referenced, line, enclosing rule)


# ----------------------------------------------------------------------------- parser
class _Parser:
    def __init__(self, text: str, allow_underscore: bool):
        self.s, self.n, self.us = text, len(text), allow_underscore
        self.g = Grammar({}, [])

    def line(self, pos: int) -> int:
        return self.s.count("\n", 0, min(pos, self.n)) + 1

    def err(self, kind: str, msg: str, pos: int):
        raise GBNFError(kind, msg, self.line(pos))

    def peek(self, pos: int) -> str:
        return self.s[pos] if pos < self.n else ""

    def near(self, pos: int) -> str:
        return "end of input" if pos >= self.n else repr(self.s[pos:pos + 24])

    def is_word(self, c: str) -> bool:
        return c != "" and (c in _ALNUM or c == "-" or (self.us and c == "_"))

    def space(self, pos: int, newline_ok: bool) -> int:
        s, n = self.s, self.n
        while pos < n and (s[pos] in " \t#" or (newline_ok and s[pos] in "\r\n")):
            if s[pos] == "#":
                while pos < n and s[pos] not in "\r\n":
                    pos += 1
            else:
                pos += 1
        return pos

    def name_end(self, pos: int) -> int:
        while self.is_word(self.peek(pos)):
            pos += 1
        return pos

    def char(self, pos: int, ctx: str) -> tuple[int, int]:
        """One (possibly escaped) character of a literal/class -> (code point, next pos)."""
        c = self.peek(pos)
        if c == "" or c in "\r\n":
            self.err("unterminated_" + ctx, f"{ctx} not closed before end of line/input", pos)
        if c == "\0":
            self.err("syntax", "NUL character", pos)
        if c != "\\":
            return ord(c), pos + 1
        e = self.peek(pos + 1)
        if e in ("x", "u", "U"):
            size = {"x": 2, "u": 4, "U": 8}[e]
            digits = self.s[pos + 2:pos + 2 + size]
            if len(digits) != size or any(d not in _HEX for d in digits):
                self.err("bad_escape", f"expecting {size} hex digits after \\{e}, found {self.near(pos + 2)}", pos)
            cp = int(digits, 16)
            if cp > _MAX_CP:
                self.err("bad_escape", f"\\{e}{digits} is beyond U+10FFFF", pos)
            return cp, pos + 2 + size
        if e in ("t", "r", "n"):
            return ord({"t": "\t", "r": "\r", "n": "\n"}[e]), pos + 2
        if e in ("\\", '"', "[", "]"):
            return ord(e), pos + 2
        self.err("bad_escape", f"unknown escape {self.s[pos:pos + 2]!r} in {ctx}", pos)

    def sequence(self, pos: int, rule: str, nested: bool) -> tuple[Seq, int]:
        items: list = []
        can_rep = False           # llama.cpp: last_sym_start != out_elements.size()
        s = self.s
        while pos < self.n:
            c = s[pos]
            if c == '"':
                pos += 1
                buf: list[str] = []
                while True:
                    if pos >= self.n:
                        self.err("unterminated_literal", "literal not closed before end of input", pos)
                    if s[pos] == '"':
                        break
                    cp, pos = self.char(pos, "literal")
                    buf.append(chr(cp))
                items.append(Lit("".join(buf)))
                can_rep = bool(buf)
                pos = self.space(pos + 1, nested)
            elif c == "[":
                start = pos
                pos += 1
                neg = self.peek(pos) == "^"
                if neg:
                    pos += 1
                ranges: list[tuple[int, int]] = []
                while True:
                    if pos >= self.n:
                        self.err("unterminated_class", "character class not closed before end of input", pos)
                    if s[pos] == "]":
                        break
                    lo, pos = self.char(pos, "class")
                    hi = lo
                    if self.peek(pos) == "-" and self.peek(pos + 1) != "]":
                        hi, pos = self.char(pos + 1, "class")
                        if hi < lo:
                            self.err("syntax", f"reversed range U+{lo:04X}-U+{hi:04X} in character class", start)
                    ranges.append((lo, hi))
                if not ranges:
                    self.err("syntax", "empty character class", start)
                items.append(CharClass(ranges, neg))
                can_rep = True
                pos = self.space(pos + 1, nested)
            elif self.is_word(c):
                end = self.name_end(pos)
                if self.peek(end) == "_":           # only reachable in strict mode
                    self.err("bad_name", f"'_' is not allowed in rule names (llama.cpp): {self.near(pos)}", pos)
                name = s[pos:end]
                self.g.refs.append((name, self.line(pos), rule))
                items.append(Ref(name))
                can_rep = True
                pos = self.space(end, nested)
            elif c == "_":                          # strict mode, name starting with '_'
                self.err("bad_name", f"'_' is not allowed in rule names (llama.cpp): {self.near(pos)}", pos)
            elif c == "(":
                open_line = self.line(pos)
                pos = self.space(pos + 1, True)
                node, pos = self.alternates(pos, rule, True)
                if self.peek(pos) != ")":
                    self.err("unbalanced_paren",
                             f"expecting ')' for group opened on line {open_line}, found {self.near(pos)}", pos)
                items.append(node)
                can_rep = True
                pos = self.space(pos + 1, nested)
            elif c == ".":
                items.append(Any())
                can_rep = True
                pos = self.space(pos + 1, nested)
            elif c in "*+?":
                if not can_rep:
                    self.err("dangling_operator", f"'{c}' has no preceding item to apply to", pos)
                items[-1] = Repeat(items[-1], 1 if c == "+" else 0, 1 if c == "?" else None)
                pos = self.space(pos + 1, nested)
            elif c == "{":
                if not can_rep:
                    self.err("dangling_operator", "'{' has no preceding item to apply to", pos)
                start = pos
                pos = self.space(pos + 1, nested)
                mn, pos = self.integer(pos)
                pos = self.space(pos, nested)
                if self.peek(pos) == "}":
                    mx: int | None = mn
                elif self.peek(pos) == ",":
                    pos = self.space(pos + 1, nested)
                    mx = None
                    if self.peek(pos) != "" and self.peek(pos) in "0123456789":
                        mx, pos = self.integer(pos)
                        pos = self.space(pos, nested)
                    if self.peek(pos) != "}":
                        self.err("syntax", f"expecting '}}' in repetition, found {self.near(pos)}", pos)
                else:
                    self.err("syntax", f"expecting ',' or '}}' in repetition, found {self.near(pos)}", pos)
                if mx is not None and mx < mn:
                    self.err("syntax", f"repetition {{{mn},{mx}}} has max < min", start)
                items[-1] = Repeat(items[-1], mn, mx)
                can_rep = mx != 0                   # x{0} emits nothing: a following operator dangles
                pos = self.space(pos + 1, nested)
            else:
                break
        return Seq(items), pos

    def integer(self, pos: int) -> tuple[int, int]:
        end = pos
        while self.peek(end) != "" and self.peek(end) in "0123456789":
            end += 1
        if end == pos:
            self.err("syntax", f"expecting an integer in repetition, found {self.near(pos)}", pos)
        return int(self.s[pos:end]), end

    def alternates(self, pos: int, rule: str, nested: bool) -> tuple[Node, int]:
        opts: list = []
        while True:
            at = pos
            seq, pos = self.sequence(pos, rule, nested)
            if not seq.items:
                self.g.empty_alts.append((rule, self.line(at)))
            opts.append(seq.items[0] if len(seq.items) == 1 else seq)
            if self.peek(pos) != "|":
                break
            pos = self.space(pos + 1, True)
        return (opts[0] if len(opts) == 1 else Alt(opts)), pos

    def rule(self, pos: int) -> int:
        c = self.peek(pos)
        if not self.is_word(c):
            why = "'_' is not allowed in rule names (llama.cpp)" if c == "_" else "expecting a rule name"
            self.err("bad_name", f"{why}, found {self.near(pos)}", pos)
        end = self.name_end(pos)
        name = self.s[pos:end]
        nxt = self.peek(end)
        if nxt not in ("", " ", "\t", ":", "#", "\n", "\r"):
            self.err("bad_name", f"illegal character {nxt!r} in rule name {self.near(pos)}", pos)
        line = self.line(pos)
        p = self.space(end, False)
        if not self.s.startswith("::=", p):
            self.err("syntax", f"expecting '::=' after rule name '{name}', found {self.near(p)}", p)
        p = self.space(p + 3, True)
        node, p = self.alternates(p, name, False)
        c = self.peek(p)
        if c == "\r":
            p += 2 if self.peek(p + 1) == "\n" else 1
        elif c == "\n":
            p += 1
        elif c == ")":
            self.err("unbalanced_paren", f"unmatched ')' in rule '{name}'", p)
        elif c != "":
            self.err("syntax", f"expecting newline or end of input in rule '{name}', found {self.near(p)}", p)
        g = self.g
        if name in g.rules:
            g.duplicates.append((name, line))
        else:
            g.order.append(name)
            g.def_line[name] = line
        g.rules[name] = node        # llama.cpp add_rule overwrites: the last definition wins
        return self.space(p, True)

    def run(self) -> Grammar:
        pos = self.space(0, True)
        while pos < self.n:
            pos = self.rule(pos)
        return self.g


def validate(g: Grammar, forbid_empty_alternative: bool = True) -> list[tuple[str, str]]:
    """All violated global conditions of a syntactically valid grammar, as (kind, message)."""
    out: list[tuple[str, str]] = []
    if "root" not in g.rules:
        out.append(("no_root", "no rule named 'root' is defined"))
    for name, line in g.duplicates:
        out.append(("duplicate_rule", f"line {line}: rule '{name}' already defined on line {g.def_line[name]}"))
    seen: set[str] = set()
    for name, line, inside in g.refs:
        if name not in g.rules and name not in seen:
            seen.add(name)
            out.append(("undefined_rule", f"line {line}: rule '{name}' (referenced in '{inside}') is never defined"))
    if forbid_empty_alternative:
        for inside, line in g.empty_alts:
            out.append(("empty_alternative", f"line {line}: empty alternative in rule '{inside}'"))
    return out


def parse_gbnf(text: str, allow_underscore: bool = True, validate_globals: bool = False) -> Grammar:
    """Parse; raises GBNFError on the first syntax problem.  Global conditions (root, duplicates,
    undefined references, empty alternatives) are only recorded on the Grammar, unless
    ``validate_globals`` is set, in which case the first violated one is raised too."""
    if not isinstance(text, str):
        raise TypeError("grammar text must be str")
    g = _Parser(text, allow_underscore).run()
    if validate_globals:
        for kind, msg in validate(g):
            raise GBNFError(kind, msg, None)
    return g


def check_wellformed(text: str, allow_underscore: bool = True,
                     forbid_empty_alternative: bool = True) -> list[tuple[str, str]]:
    """[] iff well-formed.  A syntax error is returned alone; otherwise every global problem."""
    try:
        g = parse_gbnf(text, allow_underscore)
    except GBNFError as e:
        return [(e.kind, f"line {e.line}: {e.message}")]
    return validate(g, forbid_empty_alternative)


def strict_only_rejections(text: str) -> list[str]:
    """Problems that exist only under llama.cpp's real name rule (no '_').  When the tolerant parse
    succeeds, every distinct underscore-bearing rule name is listed (not just the first)."""
    tolerant = check_wellformed(text, True)
    strict = check_wellformed(text, False)
    try:
        g = parse_gbnf(text, True)
    except GBNFError:
        return [f"{k}: {m}" for k, m in strict if (k, m) not in tolerant]
    names: dict[str, int] = {}
    for n in g.order:
        names.setdefault(n, g.def_line[n])
    for n, line, _ in g.refs:
        names.setdefault(n, line)
    out = [f"bad_name: line {line}: rule name '{n}' contains '_' (rejected by llama.cpp)"
           for n, line in names.items() if "_" in n]
    assert bool(out) == any(k == "bad_name" for k, _ in strict), (out, strict)   # self-consistency of the reader
    return out


def left_recursion(g: Grammar) -> list[str]:
    """Rules llama.cpp would refuse as left-recursive (extra check, not part of check_wellformed).
    Also reports ``name(*)`` when an unbounded repetition has a nullable body: llama.cpp rewrites
    ``S*`` into ``r ::= S r |`` which is left-recursive when S can be empty."""
    nullable: set[str] = set()

    def nul(n) -> bool:
        if isinstance(n, Lit): return n.text == ""
        if isinstance(n, Ref): return n.name in nullable
        if isinstance(n, Seq): return all(nul(i) for i in n.items)
        if isinstance(n, Alt): return any(nul(o) for o in n.options)
        if isinstance(n, Repeat): return n.min == 0 or nul(n.item)
        return False
    changed = True
    while changed:
        changed = False
        for r, node in g.rules.items():
            if r not in nullable and nul(node):
                nullable.add(r); changed = True
    bad: list[str] = []

    def left(n, acc: set[str], owner: str):
        if isinstance(n, Ref): acc.add(n.name)
        elif isinstance(n, Seq):
            for i in n.items:
                left(i, acc, owner)
                if not nul(i): break
        elif isinstance(n, Alt):
            for o in n.options: left(o, acc, owner)
        elif isinstance(n, Repeat):
            left(n.item, acc, owner)
            if n.max is None and nul(n.item) and owner + "(*)" not in bad:
                bad.append(owner + "(*)")
    corners: dict[str, set[str]] = {}
    for r, node in g.rules.items():
        corners[r] = set()
        left(node, corners[r], r)
    for r in g.order:
        seen, todo = set(), list(corners[r])
        while todo:
            x = todo.pop()
            if x in seen or x not in corners: continue
            seen.add(x); todo.extend(corners[x])
        if r in seen: bad.append(r)
    return bad


# ----------------------------------------------------------------------------- enumeration
_ANY_POOL = "a0 \n_Z"
_NEG_POOL = "a0 _Z-"
_CLASS_CAP = 6


def representatives(node, hint: str = "") -> list[str]:
    """The (at most 6) characters used to stand for a CharClass / Any in ``derive``.
    Order of preference: characters of ``hint`` that are members (in hint order); then, for a
    positive class, the lowest and highest member of each range; for a negated class, the code points
    just below/above each excluded range, then a small default pool; for ``.``, a small default pool.
    Surrogates are never proposed.  Every representative is a genuine member."""
    cand: list[str] = list(hint)
    if isinstance(node, Any):
        cand += list(_ANY_POOL)
        ok = lambda ch: True
    else:
        ok = node.contains
        if node.negated:
            for lo, hi in node.ranges:
                cand += [chr(x) for x in (lo - 1, hi + 1) if 0 <= x <= _MAX_CP]
            cand += list(_NEG_POOL)
        else:
            for lo, hi in node.ranges:
                cand += [chr(lo), chr(hi)]
    out: list[str] = []
    for ch in cand:
        if ch not in out and ok(ch) and not 0xD800 <= ord(ch) <= 0xDFFF:
            out.append(ch)
            if len(out) == _CLASS_CAP:
                break
    return out


def _reachable(g: Grammar, start: str) -> list[str]:
    """Rules reachable from start, in post-order (callees first)."""
    if start not in g.rules:
        raise GBNFError("undefined_rule", f"start rule '{start}' is not defined", None)
    order: list[str] = []
    seen: set[str] = set()

    def refs(n, acc):
        if isinstance(n, Ref): acc.append(n.name)
        elif isinstance(n, Seq): [refs(i, acc) for i in n.items]
        elif isinstance(n, Alt): [refs(o, acc) for o in n.options]
        elif isinstance(n, Repeat): refs(n.item, acc)
        return acc
    stack: list[tuple[str, list[str]]] = [(start, refs(g.rules[start], []))]
    seen.add(start)
    while stack:
        name, todo = stack[-1]
        if todo:
            nxt = todo.pop(0)
            if nxt not in g.rules:
                raise GBNFError("undefined_rule", f"rule '{nxt}' (referenced in '{name}') is never defined", None)
            if nxt not in seen:
                seen.add(nxt)
                stack.append((nxt, refs(g.rules[nxt], [])))
        else:
            order.append(name)
            stack.pop()
    return order


def derive_ex(grammar: Grammar, start: str, max_len: int, max_count: int = 100000,
              alphabet_hint: str | None = None) -> tuple[list[str], bool]:
    """As ``derive`` but also says whether any cap (max_count) truncated the enumeration."""
    hint = alphabet_hint or ""
    names = _reachable(grammar, start)
    N = max_len
    trunc = [False]
    # A language is a list indexed by length 0..N of sets of strings, holding at most max_count
    # strings in total, always the shortest ones (ties broken by sorted order => deterministic).

    def empty():
        return [set() for _ in range(N + 1)]

    def single(s: str):
        L = empty()
        if len(s) <= N: L[len(s)].add(s)
        return L

    def cap(L):
        room = max_count
        for k in range(N + 1):
            if len(L[k]) > room:
                L[k] = set(sorted(L[k])[:room]); trunc[0] = True
            room -= len(L[k])
        return L

    def union(A, B):
        return cap([A[k] | B[k] for k in range(N + 1)])

    def concat(A, B):
        out, room = empty(), max_count
        for tot in range(N + 1):
            level = out[tot]
            for la in range(tot + 1):
                if not A[la] or not B[tot - la]: continue
                for a in sorted(A[la]):
                    for b in sorted(B[tot - la]):
                        level.add(a + b)
                    if len(level) > room: break
            if len(level) > room:
                out[tot] = set(sorted(level)[:room]); trunc[0] = True
            room -= len(out[tot])
            if room <= 0:
                if any(A[i] and B[j] for i in range(N + 1) for j in range(N + 1) if tot < i + j <= N):
                    trunc[0] = True
                break
        return out
    lang = {r: empty() for r in names}
    reps: dict[int, list[str]] = {}

    def ev(n):
        if isinstance(n, Lit): return single(n.text)
        if isinstance(n, (CharClass, Any)):
            if id(n) not in reps: reps[id(n)] = representatives(n, hint)
            L = empty()
            if N >= 1: L[1] = set(reps[id(n)])
            return L
        if isinstance(n, Ref): return lang[n.name]
        if isinstance(n, Seq):
            L = single("")
            for i in n.items: L = concat(L, ev(i))
            return L
        if isinstance(n, Alt):
            L = empty()
            for o in n.options: L = union(L, ev(o))
            return L
        if isinstance(n, Repeat):
            # X^k restricted to length <= N is constant for k >= N+1 (at most N non-empty factors),
            # so powers are computed up to top = N+1 and larger exponents are clamped to top.
            X, P, out, top = ev(n.item), single(""), empty(), N + 1
            for k in range(top + 1):
                if k >= min(n.min, top) and (n.max is None or k <= n.max): out = union(out, P)
                if (n.max is not None and k >= n.max) or not any(P): break
                P = concat(P, X)
            return out
        raise TypeError(n)
    guard = (len(names) + 1) * (2 * N + 3) + 5
    for _ in range(guard):
        changed = False
        for r in names:
            new = union(lang[r], ev(grammar.rules[r]))
            if new != lang[r]:
                lang[r] = new; changed = True
        if not changed: break
    else:
        trunc[0] = True
    res = [s for k in range(N + 1) for s in sorted(lang[start][k])]
    return res[:max_count], trunc[0]


def derive(grammar: Grammar, start: str, max_len: int, max_count: int = 100000,
           alphabet_hint: str | None = None) -> list[str]:
    """Strings of length <= max_len derivable from ``start``, shortest first, deduplicated.
    Character classes and ``.`` are expanded only over ``representatives(node, alphabet_hint)`` (<= 6
    characters each), so the result is a *sample* of the language: every returned string is
    derivable (sound); completeness holds only relative to those representatives and as long as no
    intermediate set hit ``max_count`` (see ``derive_ex`` for the truncation flag).  Computed as a
    bottom-up least fixpoint over length-bounded sets, hence terminates on any recursive grammar
    (left recursion and empty cycles included)."""
    return derive_ex(grammar, start, max_len, max_count, alphabet_hint)[0]


# ----------------------------------------------------------------------------- membership
def matches(grammar: Grammar, start: str, text: str) -> bool:
    """Exact membership of ``text`` in the language of ``start`` (code-point granularity).
    Memoised descent computing, for each demanded (rule, position), the set of end positions; the
    table is re-evaluated to a least fixpoint, so left recursion and empty cycles are handled exactly
    (no depth heuristic).  Repetitions use the same exponent clamping as ``derive``."""
    _reachable(grammar, start)
    n = len(text)
    table: dict[tuple[str, int], frozenset[int]] = {}
    state = {"changed": True, "visiting": set()}
    none: frozenset[int] = frozenset()

    def rule_ends(name: str, i: int) -> frozenset[int]:
        key = (name, i)
        if key in state["visiting"]:
            return table.get(key, none)
        state["visiting"].add(key)
        res = ends(grammar.rules[name], i) | table.get(key, none)
        if res != table.get(key, none):
            table[key] = res
            state["changed"] = True
        return res

    def ends(nd, i: int) -> frozenset[int]:
        if isinstance(nd, Lit):
            return frozenset((i + len(nd.text),)) if text.startswith(nd.text, i) else none
        if isinstance(nd, CharClass):
            return frozenset((i + 1,)) if i < n and nd.contains(text[i]) else none
        if isinstance(nd, Any):
            return frozenset((i + 1,)) if i < n else none
        if isinstance(nd, Ref):
            return rule_ends(nd.name, i)
        if isinstance(nd, Seq):
            cur = frozenset((i,))
            for it in nd.items:
                cur = frozenset(e for j in cur for e in ends(it, j))
                if not cur: break
            return cur
        if isinstance(nd, Alt):
            return frozenset(e for o in nd.options for e in ends(o, i))
        if isinstance(nd, Repeat):
            cur, out, top = frozenset((i,)), set(), n - i + 1
            for k in range(top + 1):
                if k >= min(nd.min, top) and (nd.max is None or k <= nd.max): out |= cur
                if (nd.max is not None and k >= nd.max) or not cur: break
                cur = frozenset(e for j in cur for e in ends(nd.item, j))
            return frozenset(out)
        raise TypeError(nd)
    old = sys.getrecursionlimit()
    sys.setrecursionlimit(max(old, 20000))
    try:
        while state["changed"]:
            state["changed"] = False
            state["visiting"] = set()
            rule_ends(start, 0)
    finally:
        sys.setrecursionlimit(old)
    return n in table.get((start, 0), none)
