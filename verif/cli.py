"""./vf entry point."""
from __future__ import annotations

import argparse
import os
import sys

from verif import common


def main(argv: list[str] | None = None) -> int:
    ap = argparse.ArgumentParser(prog="vf")
    sub = ap.add_subparsers(dest="cmd", required=True)
    sub.add_parser("setup")
    c = sub.add_parser("check")
    c.add_argument("prop")
    c.add_argument("--tier", default=os.environ.get("VERIF_TIER", "quick"), choices=["quick", "thorough"])
    c.add_argument("--only", default=None, help="run only obligations whose id starts with this")
    c.add_argument("--jobs", type=int, default=None)
    r = sub.add_parser("replay")
    r.add_argument("path")
    s = sub.add_parser("selftest")
    s.add_argument("args", nargs="*")
    a = ap.parse_args(argv)
    if a.cmd == "setup":
        import z3  # noqa: F401

        print("vf: environment ready (z3", z3.get_version_string() + ")")
        return 0
    if a.cmd == "check":
        seed = int(os.environ.get("VERIF_SEED", "0") or 0)
        return common.run_property(a.prop, a.tier, seed, only=a.only, jobs=a.jobs)
    if a.cmd == "replay":
        return common.run_replay(a.path)
    if a.cmd == "selftest":
        from verif import selftest

        return selftest.main(a.args)
    return 2


if __name__ == "__main__":
    sys.exit(main())
