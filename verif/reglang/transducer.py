"""Sequential transducers for literal str.replace chains (leftmost, non-overlapping replacement).

replace(a, b) with |a| in {1,2} is a deterministic sequential transducer with one symbol of delay.
Compositions are deterministic too, so functional identity and image inclusion are decided by a
breadth-first exploration of (state, delay buffer) resp. (state, DFA state); the first failure found
is a shortest counterexample input.
"""
from __future__ import annotations

from collections import deque
from typing import Callable, Iterable

from verif.reglang.alphabet import Alphabet
from verif.reglang.automata import DFA, OutsideReach

Sym = int
Word = tuple


class SeqT:
    def __init__(self, start, step: Callable, final: Callable, mentioned: set):
        self.start = start
        self.step = step  # (state, sym) -> (state2, out tuple)
        self.final = final  # state -> out tuple
        self.mentioned = set(mentioned)  # symbols treated specially; all others behave alike (copied)

    def apply(self, word: Iterable[Sym]) -> Word:
        s = self.start
        out: list = []
        for c in word:
            s, o = self.step(s, c)
            out.extend(o)
        out.extend(self.final(s))
        return tuple(out)


def replace_t(a: Word, b: Word) -> SeqT:
    a = tuple(a)
    b = tuple(b)
    if len(a) == 1:
        a0 = a[0]
        return SeqT(0, lambda s, c: (0, b if c == a0 else (c,)), lambda s: (), set(a) | set(b))
    if len(a) == 2:
        a0, a1 = a

        def step(s, c):
            if s == 0:
                return (1, ()) if c == a0 else (0, (c,))
            if c == a1:
                return (0, b)
            if c == a0:
                return (1, (a0,))
            return (0, (a0, c))

        return SeqT(0, step, lambda s: (a0,) if s == 1 else (), set(a) | set(b))
    raise OutsideReach("replace with a source longer than 2 characters")


def compose(ts: list[SeqT]) -> SeqT:
    ts = list(ts)

    def step(state, c):
        word = (c,)
        new = []
        for t, s in zip(ts, state):
            out: list = []
            for x in word:
                s, o = t.step(s, x)
                out.extend(o)
            new.append(s)
            word = tuple(out)
        return tuple(new), word

    def final(state):
        word: tuple = ()
        for i, (t, s) in enumerate(zip(ts, state)):
            out: list = []
            for x in word:
                s, o = t.step(s, x)
                out.extend(o)
            out.extend(t.final(s))
            word = tuple(out)
        return word

    m = set()
    for t in ts:
        m |= t.mentioned
    return SeqT(tuple(t.start for t in ts), step, final, m)


def chain_t(al: Alphabet, chain: list[tuple[str, str]]) -> SeqT:
    return compose([replace_t(al.encode(a), al.encode(b)) for a, b in chain])


def _symbols(al: Alphabet, t: SeqT, extra: Iterable[Sym] = ()) -> list[Sym]:
    syms = sorted(t.mentioned | set(extra))
    other = next(c for c in range(al.n) if c not in syms and 97 <= al.rep[c] < 123)
    return syms + [other]


def identity_counterexample(al: Alphabet, t: SeqT, extra: Iterable[Sym] = (), max_delay: int = 12) -> Word | None:
    """Shortest input w with t(w) != w, or None if t is the identity on all words.
    Exact: symbols not mentioned by t are copied by every replace stage, so one representative
    stands for all of them."""
    syms = _symbols(al, t, extra)
    start = (t.start, (), ())  # state, input-ahead buffer, output-ahead buffer
    seen = {start}
    dq = deque([(start, ())])
    while dq:
        (s, ib, ob), w = dq.popleft()
        # termination here
        fo = ob + t.final(s)
        if fo != ib:
            return w
        for c in syms:
            s2, out = t.step(s, c)
            i2 = ib + (c,)
            o2 = ob + out
            k = 0
            while k < len(i2) and k < len(o2) and i2[k] == o2[k]:
                k += 1
            i2, o2 = i2[k:], o2[k:]
            if i2 and o2:
                # mismatch: whatever follows, output differs from input
                return w + (c,)
            if len(i2) > max_delay or len(o2) > max_delay:
                return w + (c,)
            st = (s2, i2, o2)
            if st not in seen:
                seen.add(st)
                dq.append((st, w + (c,)))
    return None


def image_counterexample(al: Alphabet, t: SeqT, d: DFA, prefix: Word = (), suffix: Word = ()) -> Word | None:
    """Shortest input w with prefix·t(w)·suffix not in L(d), or None (image included)."""
    q0 = d.start
    for c in prefix:
        q0 = d.trans[q0][c]
    start = (t.start, q0)
    seen = {start}
    dq = deque([(start, ())])
    while dq:
        (s, q), w = dq.popleft()
        qf = q
        for c in t.final(s) + tuple(suffix):
            qf = d.trans[qf][c]
        if qf not in d.accept:
            return w
        for c in range(al.n):
            s2, out = t.step(s, c)
            q2 = q
            for x in out:
                q2 = d.trans[q2][x]
            st = (s2, q2)
            if st not in seen:
                seen.add(st)
                dq.append((st, w + (c,)))
    return None


def image_nfa(al: Alphabet, hom: dict[Sym, Word]):
    """NFA of h(Σ*) for a homomorphism h given on some symbols (identity elsewhere)."""
    from verif.reglang.automata import Builder

    b = Builder(al)
    alts = [b.cset(frozenset(c for c in range(al.n) if c not in hom))]
    for c, w in hom.items():
        alts.append(b.cat([b.cset(frozenset([x])) for x in w]) if w else b.eps())
    return b.finish(b.star(b.alt(alts)))


def homomorphism_of_chain(al: Alphabet, chain: list[tuple[str, str]]) -> dict[Sym, Word] | None:
    """If every source is one character the chain is the homomorphism c -> image; else None."""
    if not all(len(a) == 1 for a, _ in chain):
        return None
    t = chain_t(al, chain)
    hom = {}
    for c in sorted(t.mentioned):
        img = t.apply((c,))
        if img != (c,):
            hom[c] = img
    # homomorphism check: t(xy) = t(x)t(y) holds because each stage is a 1-character substitution
    return hom
