"""Class alphabet: a partition of all Unicode scalar values that every character set used by the
extracted regexes, the lexer's identifier predicates and the NFC-interaction sets respect.

Every ASCII code point is its own class. Non-ASCII code points are grouped by the signature of
 - the REAL lexer predicates _is_valid_identifier_start / _is_valid_identifier_char (called on every
   code point, so the classes are exact for the code in /repo's working tree),
 - membership in lexer.OPERATOR_CHARS (each operator its own class),
 - CPython's regex categories \\d (isdecimal) \\w (isalnum or _) \\s (isspace),
 - "NFC-composes with a preceding ASCII character" (per ASCII base character that matters).
A language query over class symbols is therefore exact for all of Unicode; a witness is mapped back
to a real string by taking each class's smallest member.
"""
from __future__ import annotations

import hashlib
import inspect
import json
import os
import sys
import unicodedata
from pathlib import Path

from verif.common import VERIF

MARK = -1  # transparent marker symbol (token boundary); not a character

NFC_BASES = 'nt"\\'  # ASCII characters the escape function introduces


class Alphabet:
    def __init__(self) -> None:
        from octave_mcp.core import lexer

        self.lexer = lexer
        key_src = (
            inspect.getsource(lexer._is_valid_identifier_start)
            + inspect.getsource(lexer._is_valid_identifier_char)
            + repr(sorted(lexer.OPERATOR_CHARS))
            + unicodedata.unidata_version
            + sys.version
            + NFC_BASES
            + "v3"
        )
        key = hashlib.sha256(key_src.encode()).hexdigest()[:16]
        cache = VERIF / ".cache" / f"alphabet-{key}.json"
        data = None
        if cache.exists():
            try:
                data = json.loads(cache.read_text())
            except Exception:
                data = None
        if data is None:
            data = self._compute()
            try:
                cache.parent.mkdir(exist_ok=True)
                tmp = cache.with_suffix(f".tmp{os.getpid()}")
                tmp.write_text(json.dumps(data))
                os.replace(tmp, cache)
            except Exception:
                pass
        # classes 0..127 are the ASCII code points themselves
        self.sig_of_class: list[tuple] = [tuple(s) for s in data["sigs"]]
        self.rep: list[int] = data["reps"]  # smallest member code point per class
        self.size_of_class: list[int] = data["sizes"]
        self.n = len(self.rep)
        self._ranges: list[tuple[int, int, int]] = [tuple(r) for r in data["ranges"]]  # (lo, hi, class) non-ascii
        self.symbols = list(range(self.n))
        self.all = frozenset(self.symbols)

    # signature fields (non-ASCII): (is_start, is_char, op_index, isdecimal, isalnum, isspace, nfc mask)
    def _sig(self, ch: str) -> tuple:
        lx = self.lexer
        ops = sorted(lx.OPERATOR_CHARS)
        nfc = 0
        if unicodedata.combining(ch) != 0 or unicodedata.normalize("NFC", "a" + ch) != "a" + ch:
            for i, b in enumerate(NFC_BASES):
                if unicodedata.normalize("NFC", b + ch) != b + ch:
                    nfc |= 1 << i
            # a combining mark that reorders/composes generally
            nfc |= 1 << len(NFC_BASES)
        nfc_unstable = unicodedata.normalize("NFC", ch) != ch
        return (
            bool(lx._is_valid_identifier_start(ch)),
            bool(lx._is_valid_identifier_char(ch)),
            ops.index(ch) if ch in ops else -1,
            ch.isdecimal(),
            ch.isalnum(),
            ch.isspace(),
            nfc,
            nfc_unstable,
            ord(ch) > 0xFFFF,
            unicodedata.category(ch) == "Cc",
        )

    def _compute(self) -> dict:
        sigs: list[tuple] = []
        reps: list[int] = []
        sizes: list[int] = []
        for cp in range(128):
            sigs.append(("ascii", cp))
            reps.append(cp)
            sizes.append(1)
        index: dict[tuple, int] = {}
        ranges: list[list[int]] = []
        cur = None
        for cp in range(128, 0x110000):
            if 0xD800 <= cp <= 0xDFFF:
                continue
            s = self._sig(chr(cp))
            c = index.get(s)
            if c is None:
                c = len(sigs)
                index[s] = c
                sigs.append(s)
                reps.append(cp)
                sizes.append(0)
            sizes[c] += 1
            if cur is not None and cur[2] == c and cur[1] == cp - 1:
                cur[1] = cp
            else:
                cur = [cp, cp, c]
                ranges.append(cur)
        return {"sigs": [list(s) for s in sigs], "reps": reps, "sizes": sizes, "ranges": ranges}

    # --- lookups -------------------------------------------------------------------------------
    def cls(self, ch: str) -> int:
        cp = ord(ch)
        if cp < 128:
            return cp
        lo, hi = 0, len(self._ranges) - 1
        while lo <= hi:
            mid = (lo + hi) // 2
            a, b, c = self._ranges[mid]
            if cp < a:
                hi = mid - 1
            elif cp > b:
                lo = mid + 1
            else:
                return c
        raise KeyError(f"code point {cp:#x} outside the universe (surrogate?)")

    def encode(self, s: str) -> tuple[int, ...]:
        return tuple(self.cls(ch) for ch in s)

    def decode(self, word) -> str:
        return "".join("‹" if c == MARK else chr(self.rep[c]) for c in word)

    def members(self, c: int) -> list[int]:
        if c < 128:
            return [c]
        out = []
        for a, b, k in self._ranges:
            if k == c:
                out.extend(range(a, b + 1))
        return out

    def set_from_pred(self, pred) -> frozenset[int]:
        """Class set of a predicate on 1-char strings that the partition respects (checked on the
        representative; ASCII exactly)."""
        return frozenset(c for c in self.symbols if pred(chr(self.rep[c])))

    # regex categories as CPython's sre implements them for str patterns
    def category(self, name: str) -> frozenset[int]:
        n = name.upper()
        if n.endswith("NOT_DIGIT"):
            return self.all - self.category("CATEGORY_DIGIT")
        if n.endswith("NOT_WORD"):
            return self.all - self.category("CATEGORY_WORD")
        if n.endswith("NOT_SPACE"):
            return self.all - self.category("CATEGORY_SPACE")
        if n.endswith("DIGIT"):
            return self.set_from_pred(lambda ch: ch.isdecimal())
        if n.endswith("WORD"):
            return self.set_from_pred(lambda ch: ch.isalnum() or ch == "_")
        if n.endswith("SPACE"):
            return self.set_from_pred(lambda ch: ch.isspace())
        raise ValueError(name)

    def chars(self, s: str) -> frozenset[int]:
        out = set()
        for ch in s:
            c = self.cls(ch)
            if self.size_of_class[c] != 1:
                raise ValueError(f"literal {ch!r} is not a singleton class of the alphabet: outside reach")
            out.add(c)
        return frozenset(out)

    def range(self, lo: int, hi: int) -> frozenset[int]:
        out = set()
        for c in self.symbols:
            r = self.rep[c]
            if c < 128:
                if lo <= r <= hi:
                    out.add(c)
            else:
                # a non-ASCII class must be entirely inside or outside the range; ranges in the
                # repository's regexes are ASCII-only, anything else is outside reach
                ms_in = [a for a, b, k in self._ranges if k == c and not (b < lo or a > hi)]
                if ms_in:
                    full = all(lo <= a and b <= hi for a, b, k in self._ranges if k == c)
                    if not full:
                        raise ValueError(f"range {lo:#x}-{hi:#x} splits a non-ASCII class: outside reach")
                    out.add(c)
        return frozenset(out)


_ALPHA: Alphabet | None = None


def alphabet() -> Alphabet:
    global _ALPHA
    if _ALPHA is None:
        _ALPHA = Alphabet()
    return _ALPHA
