"""Regular-language semantics of decision-list shaped functions of ONE string argument, read from
the real AST: a body that is a sequence of `if <cond>: return <bool const>` / `return <bool const>`
(docstring allowed). Conditions may use: not/and/or, truthiness of the parameter,
`isinstance(p, str)`, `'lit' in p`, `p in (<const tuple>)`, `<MODULE_REGEX>.match(p)`.
Returns the DFA of strings for which the function returns True. Anything else: ExtractionError.
"""
from __future__ import annotations

import ast

from verif import extract
from verif.extract import ExtractionError, Rx
from verif.reglang import automata as A
from verif.reglang.alphabet import alphabet


def _lang_of_cond(node: ast.AST, param: str, consts: dict, al) -> A.DFA:
    nomark = A.nomark(al)
    if isinstance(node, ast.Name) and node.id != param and isinstance(consts.get("__locals__"), dict) and node.id in consts["__locals__"]:
        return consts["__locals__"][node.id]  # a local name bound earlier to a condition over the parameter
    if isinstance(node, ast.Constant) and isinstance(node.value, bool):
        return nomark if node.value else nomark - nomark
    if isinstance(node, ast.UnaryOp) and isinstance(node.op, ast.Not):
        return nomark - _lang_of_cond(node.operand, param, consts, al)
    if isinstance(node, ast.BoolOp):
        parts = [_lang_of_cond(v, param, consts, al) for v in node.values]
        out = parts[0]
        for p in parts[1:]:
            out = (out | p) if isinstance(node.op, ast.Or) else (out & p)
        return out
    if isinstance(node, ast.Name) and node.id == param:
        # truthiness of a str: non-empty
        return nomark - A.concat(al, [])
    if isinstance(node, ast.Call):
        f = node.func
        if isinstance(f, ast.Name) and f.id == "isinstance" and len(node.args) == 2 and isinstance(node.args[0], ast.Name) and node.args[0].id == param:
            if isinstance(node.args[1], ast.Name) and node.args[1].id == "str":
                return nomark  # the analysis is over str inputs
            raise ExtractionError("isinstance against a non-str type in a string decision list")
        if (
            isinstance(f, ast.Attribute)
            and f.attr in ("match", "fullmatch", "search")
            and isinstance(f.value, ast.Name)
            and len(node.args) == 1
            and isinstance(node.args[0], ast.Name)
            and node.args[0].id == param
        ):
            rx = consts.get(f.value.id)
            if not isinstance(rx, Rx):
                raise ExtractionError(f"{f.value.id} is not an extractable compiled regex")
            if f.attr == "match":
                return A.erase_mark(A.match_marked(rx.pattern, rx.flags, None, al))
            if f.attr == "fullmatch":
                return A.dfa_regex(rx.pattern, rx.flags, None, al)
            # search: Σ* then match
            b = A.Builder(al)
            sub = A.parse_regex(rx.pattern, rx.flags)
            n = b.finish(b.cat([b.star(b.cset(al.all)), b.from_sre(sub, rx.flags | sub.state.flags), b.star(b.cset(al.all))]))
            return A.DFA.from_nfa(n, al, None)
    if isinstance(node, ast.Compare) and len(node.ops) == 1:
        op, left, right = node.ops[0], node.left, node.comparators[0]
        if isinstance(op, (ast.In, ast.NotIn)):
            pos: A.DFA | None = None
            if isinstance(left, ast.Constant) and isinstance(left.value, str) and isinstance(right, ast.Name) and right.id == param:
                pos = A.concat(al, [A.sigma_star(al), left.value, A.sigma_star(al)])
            elif isinstance(left, ast.Name) and left.id == param:
                try:
                    vals = extract.eval_const(right, consts)
                except ExtractionError as e:
                    raise ExtractionError(f"membership in a non-constant collection: {e}") from e
                pos = nomark - nomark
                for v in vals:
                    if not isinstance(v, str):
                        raise ExtractionError("non-str member")
                    pos = pos | A.concat(al, [v])
            if pos is not None:
                return pos if isinstance(op, ast.In) else nomark - pos
        if isinstance(op, (ast.Eq, ast.NotEq)) and isinstance(left, ast.Name) and left.id == param and isinstance(right, ast.Constant) and isinstance(right.value, str):
            pos = A.concat(al, [right.value])
            return pos if isinstance(op, ast.Eq) else nomark - pos
    raise ExtractionError(f"condition outside the decision-list subset: {ast.unparse(node)[:100]}")


def decision_language(module: str, func: str, param: str | None = None) -> tuple[A.DFA, list[str]]:
    """(language of str inputs on which `func` returns True, list of the clauses read)."""
    al = alphabet()
    fn = extract.find_def(module, func)
    if not isinstance(fn, ast.FunctionDef):
        raise ExtractionError(f"{func} is not a plain function")
    param = param or fn.args.args[0].arg
    consts = extract.module_consts(module)
    nomark = A.nomark(al)
    remaining = nomark  # inputs that reach the current statement
    true_lang = nomark - nomark
    clauses: list[str] = []
    body = list(fn.body)
    if body and isinstance(body[0], ast.Expr) and isinstance(body[0].value, ast.Constant) and isinstance(body[0].value.value, str):
        body = body[1:]
    done = False
    consts = dict(consts)
    consts["__locals__"] = {}
    for st in body:
        if done:
            raise ExtractionError("statements after the final return")
        # `name = <condition over the parameter>`: a named sub-condition (single assignment, used by later tests)
        if isinstance(st, ast.Assign) and len(st.targets) == 1 and isinstance(st.targets[0], ast.Name) and st.targets[0].id != param:
            if st.targets[0].id in consts["__locals__"]:
                raise ExtractionError(f"{func}: local `{st.targets[0].id}` is bound twice")
            consts["__locals__"][st.targets[0].id] = _lang_of_cond(st.value, param, consts, al)
            clauses.append(f"let {st.targets[0].id} = {ast.unparse(st.value)[:60]}")
            continue
        # a returned expression is itself a condition over the parameter (`return True`,
        # `return not P.match(value)`, `return bool(...)`-free boolean combinations)
        if isinstance(st, ast.Return) and st.value is not None:
            true_lang = true_lang | (remaining & _lang_of_cond(st.value, param, consts, al))
            clauses.append(f"else -> {ast.unparse(st.value)[:60]}")
            done = True
            continue
        if isinstance(st, ast.If) and not st.orelse and len(st.body) == 1 and isinstance(st.body[0], ast.Return) and st.body[0].value is not None:
            cond = _lang_of_cond(st.test, param, consts, al)
            hit = remaining & cond
            true_lang = true_lang | (hit & _lang_of_cond(st.body[0].value, param, consts, al))
            remaining = remaining - cond
            clauses.append(f"{ast.unparse(st.test)} -> {ast.unparse(st.body[0].value)[:60]}")
            continue
        raise ExtractionError(f"{func}: statement outside the decision-list subset: {ast.unparse(st)[:80]}")
    if not done:
        raise ExtractionError(f"{func}: falls off the end")
    return true_lang, clauses


def replace_chain(expr: ast.AST, base: str) -> list[tuple[str, str]]:
    """`base.replace(a,b).replace(c,d)...` -> [(a,b),(c,d),...] (literal arguments only)."""
    chain: list[tuple[str, str]] = []
    node = expr
    while True:
        if isinstance(node, ast.Name) and node.id == base:
            break
        if isinstance(node, ast.Attribute) and isinstance(node.value, ast.Name) and ast.unparse(node) == base:
            break
        if (
            isinstance(node, ast.Call)
            and isinstance(node.func, ast.Attribute)
            and node.func.attr == "replace"
            and len(node.args) == 2
            and all(isinstance(a, ast.Constant) and isinstance(a.value, str) for a in node.args)
        ):
            chain.append((node.args[0].value, node.args[1].value))
            node = node.func.value
            continue
        raise ExtractionError(f"not a literal replace chain on {base}: {ast.unparse(expr)[:100]}")
    chain.reverse()
    return chain
