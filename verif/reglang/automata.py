"""Automata over the class alphabet: regex (CPython sre parse tree) -> NFA with assertions -> DFA.

Supported regex features: literals, classes, ranges, categories \\d \\w \\s (and negations), ANY,
greedy/lazy repeats, branches, groups, ^ $ \\A \\Z \\b \\B (with and without MULTILINE), single-character
look-behind, arbitrary assertion-free look-ahead. Anything else raises OutsideReach.

The language semantics is the set of strings the pattern CAN match (all backtracking alternatives);
which match CPython picks (match end) is a separate assumption (A-greedy, see tokmodel).

A DFA here is always complete over symbols 0..n-1 plus the transparent MARK symbol (index n).
MARK does not update the 'previous character' and is invisible to look-ahead.
"""
from __future__ import annotations

import re
from collections import deque
from typing import Iterable

from verif.reglang.alphabet import MARK, Alphabet, alphabet

try:  # py3.11+
    import re._constants as sre_c
    import re._parser as sre_p
except ImportError:  # pragma: no cover
    import sre_constants as sre_c
    import sre_parse as sre_p


class OutsideReach(Exception):
    pass


class NFA:
    """Thompson-style NFA; edges: ('c', frozenset, t) ('e', None, t) ('a', assertion, t) ('m', None, t)."""

    def __init__(self) -> None:
        self.edges: list[list[tuple]] = []
        self.start = self.new()
        self.accept = self.new()

    def new(self) -> int:
        self.edges.append([])
        return len(self.edges) - 1

    def add(self, s: int, kind: str, data, t: int) -> None:
        self.edges[s].append((kind, data, t))


class Frag:
    __slots__ = ("s", "t")

    def __init__(self, s: int, t: int):
        self.s, self.t = s, t


class Builder:
    def __init__(self, al: Alphabet | None = None):
        self.al = al or alphabet()
        self.n = NFA()

    # fragments
    def eps(self) -> Frag:
        s, t = self.n.new(), self.n.new()
        self.n.add(s, "e", None, t)
        return Frag(s, t)

    def cset(self, cs: frozenset) -> Frag:
        s, t = self.n.new(), self.n.new()
        if cs:
            self.n.add(s, "c", frozenset(cs), t)
        return Frag(s, t)

    def mark(self) -> Frag:
        s, t = self.n.new(), self.n.new()
        self.n.add(s, "m", None, t)
        return Frag(s, t)

    def assertion(self, a: tuple) -> Frag:
        s, t = self.n.new(), self.n.new()
        self.n.add(s, "a", a, t)
        return Frag(s, t)

    def cat(self, fs: Iterable[Frag]) -> Frag:
        fs = list(fs)
        if not fs:
            return self.eps()
        for a, b in zip(fs, fs[1:]):
            self.n.add(a.t, "e", None, b.s)
        return Frag(fs[0].s, fs[-1].t)

    def alt(self, fs: Iterable[Frag]) -> Frag:
        fs = list(fs)
        s, t = self.n.new(), self.n.new()
        for f in fs:
            self.n.add(s, "e", None, f.s)
            self.n.add(f.t, "e", None, t)
        return Frag(s, t)

    def star(self, f: Frag) -> Frag:
        s, t = self.n.new(), self.n.new()
        self.n.add(s, "e", None, f.s)
        self.n.add(s, "e", None, t)
        self.n.add(f.t, "e", None, f.s)
        self.n.add(f.t, "e", None, t)
        return Frag(s, t)

    def opt(self, f: Frag) -> Frag:
        return self.alt([f, self.eps()])

    def lit(self, text: str) -> Frag:
        return self.cat([self.cset(self.al.chars(ch)) for ch in text])

    def finish(self, f: Frag) -> NFA:
        self.n.add(self.n.start, "e", None, f.s)
        self.n.add(f.t, "e", None, self.n.accept)
        return self.n

    # regex
    def from_sre(self, sub, flags: int) -> Frag:
        return self.cat([self._node(op, av, flags) for op, av in sub])

    def _in_set(self, items, flags) -> frozenset:
        neg = False
        out: set[int] = set()
        for op, av in items:
            if op is sre_c.NEGATE:
                neg = True
            elif op is sre_c.LITERAL:
                out |= self.al.chars(chr(av))
            elif op is sre_c.RANGE:
                out |= self.al.range(av[0], av[1])
            elif op is sre_c.CATEGORY:
                out |= self.al.category(str(av))
            else:
                raise OutsideReach(f"class item {op}")
        return frozenset(self.al.all - out) if neg else frozenset(out)

    def _node(self, op, av, flags) -> Frag:
        al = self.al
        if flags & re.IGNORECASE:
            raise OutsideReach("IGNORECASE")
        if op is sre_c.LITERAL:
            return self.cset(al.chars(chr(av)))
        if op is sre_c.NOT_LITERAL:
            return self.cset(al.all - al.chars(chr(av)))
        if op is sre_c.ANY:
            return self.cset(al.all if flags & re.DOTALL else al.all - al.chars("\n"))
        if op is sre_c.IN:
            return self.cset(self._in_set(av, flags))
        if op is sre_c.BRANCH:
            return self.alt([self.from_sre(b, flags) for b in av[1]])
        if op is sre_c.SUBPATTERN:
            group, add_flags, del_flags, p = av
            if add_flags or del_flags:
                raise OutsideReach("inline flags")
            return self.from_sre(p, flags)
        if op in (sre_c.MAX_REPEAT, sre_c.MIN_REPEAT):
            lo, hi, p = av
            parts = [self.from_sre(p, flags) for _ in range(lo)]
            if hi is sre_c.MAXREPEAT:
                parts.append(self.star(self.from_sre(p, flags)))
            else:
                if hi - lo > 64:
                    raise OutsideReach("large bounded repeat")
                # nested optionals: (p(p(p)?)?)?
                tail = None
                for _ in range(hi - lo):
                    inner = self.from_sre(p, flags)
                    tail = self.opt(inner if tail is None else self.cat([inner, tail]))
                if tail is not None:
                    parts.append(tail)
            return self.cat(parts)
        if op is sre_c.AT:
            name = str(av)
            if name.endswith("AT_BEGINNING_STRING"):
                return self.assertion(("bos",))
            if name.endswith("AT_BEGINNING"):
                return self.assertion(("bol",) if flags & re.MULTILINE else ("bos",))
            if name.endswith("AT_END_STRING"):
                return self.assertion(("eos",))
            if name.endswith("AT_END"):
                return self.assertion(("eol_m",) if flags & re.MULTILINE else ("eol_nm",))
            if name.endswith("AT_NON_BOUNDARY"):
                return self.assertion(("nwb",))
            if name.endswith("AT_BOUNDARY"):
                return self.assertion(("wb",))
            raise OutsideReach(name)
        if op in (sre_c.ASSERT, sre_c.ASSERT_NOT):
            direction, p = av
            neg = op is sre_c.ASSERT_NOT
            if direction < 0:
                if len(p) == 1 and p[0][0] in (sre_c.LITERAL, sre_c.IN, sre_c.NOT_LITERAL):
                    o, a = p[0]
                    cs = (
                        al.chars(chr(a))
                        if o is sre_c.LITERAL
                        else (al.all - al.chars(chr(a)) if o is sre_c.NOT_LITERAL else self._in_set(a, flags))
                    )
                    return self.assertion(("lb", neg, cs))
                raise OutsideReach("look-behind longer than one character")
            sub = Builder(al)
            subn = sub.finish(sub.from_sre(p, flags))
            for es in subn.edges:
                for k, d, _ in es:
                    if k == "a" and d[0] not in ("eos",):
                        raise OutsideReach("assertion inside look-ahead")
            return self.assertion(("la", neg, subn))
        raise OutsideReach(f"regex op {op}")


def parse_regex(pattern: str, flags: int = 0):
    return sre_p.parse(pattern, flags)


def regex_nfa(pattern: str, flags: int = 0, al: Alphabet | None = None) -> NFA:
    b = Builder(al)
    sub = parse_regex(pattern, flags)
    return b.finish(b.from_sre(sub, flags | sub.state.flags))


# ------------------------------------------------------------------------------------------------
# determinisation with assertions


def _sub_closure(n: NFA, states: Iterable[int], at_eos: bool) -> frozenset[int]:
    seen = set(states)
    dq = deque(seen)
    while dq:
        q = dq.popleft()
        for k, d, t in n.edges[q]:
            if k == "e" or (k == "a" and d[0] == "eos" and at_eos):
                if t not in seen:
                    seen.add(t)
                    dq.append(t)
    return frozenset(seen)


def _sub_step(n: NFA, states: frozenset[int], c: int) -> frozenset[int]:
    nxt = set()
    for q in states:
        for k, d, t in n.edges[q]:
            if k == "c" and c in d:
                nxt.add(t)
    return _sub_closure(n, nxt, False)


class DFA:
    """Complete DFA. trans[s][sym] for sym in 0..n (index n is MARK)."""

    def __init__(self, al: Alphabet, trans: list[list[int]], start: int, accept: set[int]):
        self.al = al
        self.trans = trans
        self.start = start
        self.accept = set(accept)

    @property
    def nsym(self) -> int:
        return self.al.n + 1

    def size(self) -> int:
        return len(self.trans)

    # ---- construction from NFA ------------------------------------------------------------------
    @staticmethod
    def from_nfa(n: NFA, al: Alphabet | None = None, prev: int | None = None, *, minimize: bool = True) -> "DFA":
        """prev: class of the character before position 0 (None = beginning of string)."""
        al = al or alphabet()
        word = al.category("CATEGORY_WORD")
        nl = al.chars("\n")
        subs: list[NFA] = []
        sub_index: dict[int, int] = {}
        lb_sets: list[frozenset] = []
        for es in n.edges:
            for k, d, _ in es:
                if k == "a":
                    if d[0] == "la":
                        if id(d[2]) not in sub_index:
                            sub_index[id(d[2])] = len(subs)
                            subs.append(d[2])
                    elif d[0] == "lb" and d[2] not in lb_sets:
                        lb_sets.append(d[2])
        # synthetic look-ahead automata for \b, \Z, $
        bw = Builder(al)
        la_word = bw.finish(bw.cset(word))
        bn = Builder(al)
        la_nonword_or_eos = bn.finish(bn.alt([bn.cset(al.all - word), bn.assertion(("eos",))]))
        be = Builder(al)
        la_eos = be.finish(be.assertion(("eos",)))
        bm = Builder(al)
        la_eol_m = bm.finish(bm.alt([bm.cset(nl), bm.assertion(("eos",))]))
        bnm = Builder(al)
        la_eol_nm = bnm.finish(bnm.cat([bnm.opt(bnm.cset(nl)), bnm.assertion(("eos",))]))
        synth = {"word": la_word, "nonword_eos": la_nonword_or_eos, "eos": la_eos, "eol_m": la_eol_m, "eol_nm": la_eol_nm}
        for v in synth.values():
            sub_index[id(v)] = len(subs)
            subs.append(v)

        def psig(p: int | None) -> tuple:
            if p is None:
                return (True, False, False) + tuple(False for _ in lb_sets)
            return (False, p in nl, p in word) + tuple(p in s for s in lb_sets)

        def add_la(pend: frozenset, neg: bool, sub: NFA):
            """returns new pending set or None if the configuration is dead"""
            st = _sub_closure(sub, [sub.start], False)
            if sub.accept in st:
                return None if neg else pend
            return pend | {(neg, sub_index[id(sub)], st)}

        def closure(configs: Iterable[tuple], sig: tuple) -> frozenset:
            is_bos, prev_nl, prev_word = sig[0], sig[1], sig[2]
            seen = set(configs)
            dq = deque(seen)
            while dq:
                q, pend = dq.popleft()
                for k, d, t in n.edges[q]:
                    new = None
                    if k == "e":
                        new = (t, pend)
                    elif k == "a":
                        a = d[0]
                        if a == "bos":
                            ok = is_bos
                            new = (t, pend) if ok else None
                        elif a == "bol":
                            new = (t, pend) if (is_bos or prev_nl) else None
                        elif a == "lb":
                            inset = (not is_bos) and sig[3 + lb_sets.index(d[2])]
                            ok = (not inset) if d[1] else inset
                            new = (t, pend) if ok else None
                        elif a in ("wb", "nwb"):
                            want_next_word = (not prev_word) if a == "wb" else prev_word
                            p2 = add_la(pend, False, synth["word"] if want_next_word else synth["nonword_eos"])
                            new = (t, p2) if p2 is not None else None
                        elif a in ("eos", "eol_m", "eol_nm"):
                            p2 = add_la(pend, False, synth[a])
                            new = (t, p2) if p2 is not None else None
                        elif a == "la":
                            p2 = add_la(pend, d[1], d[2])
                            new = (t, p2) if p2 is not None else None
                        else:
                            raise OutsideReach(str(d))
                    if new is not None and new not in seen:
                        seen.add(new)
                        dq.append(new)
            return frozenset(seen)

        def relevant_sets(configs: frozenset) -> list[frozenset]:
            rs: list[frozenset] = [nl, word] + lb_sets
            for q, pend in configs:
                for k, d, t in n.edges[q]:
                    if k == "c":
                        rs.append(d)
                for neg, si, st in pend:
                    for s in st:
                        for k, d, t in subs[si].edges[s]:
                            if k == "c":
                                rs.append(d)
            return rs

        def step(configs: frozenset, c: int) -> frozenset:
            out = set()
            for q, pend in configs:
                newp = set()
                dead = False
                for neg, si, st in pend:
                    st2 = _sub_step(subs[si], st, c)
                    acc = subs[si].accept in st2
                    if neg:
                        if acc:
                            dead = True
                            break
                        if st2:
                            newp.add((neg, si, st2))
                    else:
                        if acc:
                            continue
                        if not st2:
                            dead = True
                            break
                        newp.add((neg, si, st2))
                if dead:
                    continue
                fp = frozenset(newp)
                for k, d, t in n.edges[q]:
                    if k == "c" and c in d:
                        out.add((t, fp))
            return closure(out, psig(c))

        def step_mark(configs: frozenset, sig: tuple) -> frozenset:
            out = set()
            for q, pend in configs:
                for k, d, t in n.edges[q]:
                    if k == "m":
                        out.add((t, pend))
            return closure(out, sig)

        def accepting(configs: frozenset) -> bool:
            for q, pend in configs:
                if q != n.accept:
                    continue
                ok = True
                for neg, si, st in pend:
                    acc = subs[si].accept in _sub_closure(subs[si], st, True)
                    if (neg and acc) or (not neg and not acc):
                        ok = False
                        break
                if ok:
                    return True
            return False

        has_mark = any(k == "m" for es in n.edges for k, _, _ in es)
        sig0 = psig(prev)
        start = (sig0, closure({(n.start, frozenset())}, sig0))
        ids = {start: 0}
        order = [start]
        trans: list[list[int]] = []
        accept: set[int] = set()
        dead_key = ((False, False, False) + tuple(False for _ in lb_sets), frozenset())
        i = 0
        nsym = al.n
        while i < len(order):
            sig, configs = order[i]
            row = [0] * (nsym + 1)
            if accepting(configs):
                accept.add(i)
            if not configs:
                # dead
                ids.setdefault(dead_key, i)
                row = [i] * (nsym + 1)
                trans.append(row)
                i += 1
                continue
            rs = relevant_sets(configs)
            groups: dict[tuple, list[int]] = {}
            for c in range(nsym):
                groups.setdefault(tuple(c in s for s in rs), []).append(c)
            for g in groups.values():
                c0 = g[0]
                tgt = step(configs, c0)
                key = (psig(c0), tgt) if tgt else dead_key
                j = ids.get(key)
                if j is None:
                    j = len(order)
                    ids[key] = j
                    order.append(key)
                for c in g:
                    row[c] = j
            if has_mark:
                tgt = step_mark(configs, sig)
                key = (sig, tgt) if tgt else dead_key
            else:
                key = dead_key
            j = ids.get(key)
            if j is None:
                j = len(order)
                ids[key] = j
                order.append(key)
            row[nsym] = j
            trans.append(row)
            i += 1
            if len(order) > 400000:
                raise OutsideReach("DFA too large")
        d = DFA(al, trans, 0, accept)
        return d.minimize() if minimize else d

    # ---- basic operations -----------------------------------------------------------------------
    def minimize(self) -> "DFA":
        # reachable
        reach = [self.start]
        seen = {self.start}
        for s in reach:
            for t in self.trans[s]:
                if t not in seen:
                    seen.add(t)
                    reach.append(t)
        idx = {s: i for i, s in enumerate(reach)}
        trans = [[idx[t] for t in self.trans[s]] for s in reach]
        acc = {idx[s] for s in self.accept if s in idx}
        n = len(trans)
        block = [1 if s in acc else 0 for s in range(n)]
        while True:
            sigs: dict[tuple, int] = {}
            newb = [0] * n
            for s in range(n):
                key = (block[s], tuple(block[t] for t in trans[s]))
                b = sigs.get(key)
                if b is None:
                    b = len(sigs)
                    sigs[key] = b
                newb[s] = b
            if len(sigs) == len(set(block)):
                block = newb
                break
            block = newb
        nb = len(set(block))
        ntrans = [None] * nb
        for s in range(n):
            if ntrans[block[s]] is None:
                ntrans[block[s]] = [block[t] for t in trans[s]]
        return DFA(self.al, ntrans, block[0], {block[s] for s in acc})

    def complement(self) -> "DFA":
        """Complement among MARK-free strings if the DFA is MARK-free is NOT what this does: the
        complement is over all strings including MARK. Use .nomark() to restrict."""
        return DFA(self.al, self.trans, self.start, set(range(len(self.trans))) - self.accept)

    def product(self, other: "DFA", mode: str) -> "DFA":
        f = {"and": lambda a, b: a and b, "or": lambda a, b: a or b, "diff": lambda a, b: a and not b, "xor": lambda a, b: a != b}[mode]
        ids = {(self.start, other.start): 0}
        order = [(self.start, other.start)]
        trans = []
        acc = set()
        i = 0
        while i < len(order):
            a, b = order[i]
            if f(a in self.accept, b in other.accept):
                acc.add(i)
            ra, rb = self.trans[a], other.trans[b]
            row = []
            cache: dict[tuple, int] = {}
            for c in range(self.nsym):
                k = (ra[c], rb[c])
                j = cache.get(k)
                if j is None:
                    j = ids.get(k)
                    if j is None:
                        j = len(order)
                        ids[k] = j
                        order.append(k)
                    cache[k] = j
                row.append(j)
            trans.append(row)
            i += 1
        return DFA(self.al, trans, 0, acc).minimize()

    def __and__(self, o: "DFA") -> "DFA":
        return self.product(o, "and")

    def __or__(self, o: "DFA") -> "DFA":
        return self.product(o, "or")

    def __sub__(self, o: "DFA") -> "DFA":
        return self.product(o, "diff")

    def is_empty(self) -> bool:
        return self.witness() is None

    def witness(self) -> tuple[int, ...] | None:
        """A shortest accepted word (symbols; MARK as -1), preferring small class ids."""
        prev: dict[int, tuple[int, int] | None] = {self.start: None}
        dq = deque([self.start])
        while dq:
            s = dq.popleft()
            if s in self.accept:
                w = []
                while prev[s] is not None:
                    p, c = prev[s]
                    w.append(MARK if c == self.al.n else c)
                    s = p
                return tuple(reversed(w))
            row = self.trans[s]
            # prefer printable ASCII, then others
            for c in _SYMBOL_ORDER(self.al):
                t = row[c]
                if t not in prev:
                    prev[t] = (s, c)
                    dq.append(t)
        return None

    def witness_str(self) -> str | None:
        w = self.witness()
        return None if w is None else self.al.decode(w)

    def accepts(self, word: Iterable[int]) -> bool:
        s = self.start
        for c in word:
            s = self.trans[s][self.al.n if c == MARK else c]
        return s in self.accept

    def accepts_str(self, text: str, mark_at: int | None = None) -> bool:
        w = list(self.al.encode(text))
        if mark_at is not None:
            w.insert(mark_at, MARK)
        return self.accepts(w)

    def to_nfa(self) -> NFA:
        n = NFA()
        base = len(n.edges)
        for _ in self.trans:
            n.new()
        for s, row in enumerate(self.trans):
            by_t: dict[int, set[int]] = {}
            for c in range(self.al.n):
                by_t.setdefault(row[c], set()).add(c)
            for t, cs in by_t.items():
                n.add(base + s, "c", frozenset(cs), base + t)
            n.add(base + s, "m", None, base + row[self.al.n])
        n.add(n.start, "e", None, base + self.start)
        for s in self.accept:
            n.add(base + s, "e", None, n.accept)
        return n

    def words(self, maxlen: int, limit: int = 100000):
        """Enumerate accepted MARK-free words up to maxlen (class symbols)."""
        # states from which acceptance is reachable
        out = []
        live = self._live()
        stack = [(self.start, ())]
        while stack and len(out) < limit:
            s, w = stack.pop()
            if s in self.accept:
                out.append(w)
            if len(w) < maxlen:
                row = self.trans[s]
                for c in range(self.al.n - 1, -1, -1):
                    if row[c] in live:
                        stack.append((row[c], w + (c,)))
        return out

    def _live(self) -> set[int]:
        rev: dict[int, set[int]] = {}
        for s, row in enumerate(self.trans):
            for t in row:
                rev.setdefault(t, set()).add(s)
        live = set(self.accept)
        dq = deque(live)
        while dq:
            s = dq.popleft()
            for p in rev.get(s, ()):
                if p not in live:
                    live.add(p)
                    dq.append(p)
        return live


_ORDER_CACHE: dict[int, list[int]] = {}


def _SYMBOL_ORDER(al: Alphabet) -> list[int]:
    o = _ORDER_CACHE.get(id(al))
    if o is None:
        pref = "ABCabcXYZxyz_012 .-:,[]<>\"\\/\n"
        first = [al.cls(ch) for ch in pref]
        rest = [c for c in range(al.n) if c not in first and 32 <= al.rep[c] < 127]
        others = [c for c in range(al.n) if c not in first and c not in rest]
        o = first + rest + others + [al.n]
        _ORDER_CACHE[id(al)] = o
    return o


# ------------------------------------------------------------------------------------------------
# language-level helpers (all return minimised DFAs)


def dfa_regex(pattern: str, flags: int = 0, prev: int | None = None, al: Alphabet | None = None) -> DFA:
    """Language of strings x (from position 0, previous character class `prev`) that the pattern
    matches ENTIRELY, i.e. pattern.fullmatch-like but with the pattern's own anchors honoured."""
    al = al or alphabet()
    return DFA.from_nfa(regex_nfa(pattern, flags, al), al, prev)


def nfa_concat(al: Alphabet, parts: list[NFA]) -> NFA:
    n = NFA()
    cur = n.start
    for p in parts:
        base = len(n.edges)
        for es in p.edges:
            n.edges.append([(k, d, t + base) for k, d, t in es])
        n.add(cur, "e", None, base + p.start)
        cur = base + p.accept
    n.add(cur, "e", None, n.accept)
    return n


def nfa_star(al: Alphabet, p: NFA) -> NFA:
    n = NFA()
    base = len(n.edges)
    for es in p.edges:
        n.edges.append([(k, d, t + base) for k, d, t in es])
    n.add(n.start, "e", None, n.accept)
    n.add(n.start, "e", None, base + p.start)
    n.add(base + p.accept, "e", None, n.accept)
    n.add(base + p.accept, "e", None, base + p.start)
    return n


def nfa_set(al: Alphabet, cs: frozenset) -> NFA:
    b = Builder(al)
    return b.finish(b.cset(cs))


def nfa_mark(al: Alphabet) -> NFA:
    b = Builder(al)
    return b.finish(b.mark())


def nfa_lit(al: Alphabet, text: str) -> NFA:
    b = Builder(al)
    return b.finish(b.lit(text))


def sigma_star(al: Alphabet) -> NFA:
    return nfa_star(al, nfa_set(al, al.all))


def concat(al: Alphabet, parts: list, prev: int | None = None) -> DFA:
    """parts: DFA | NFA | str (literal) | frozenset (one character of the set)."""
    ns = []
    for p in parts:
        if isinstance(p, DFA):
            ns.append(p.to_nfa())
        elif isinstance(p, NFA):
            ns.append(p)
        elif isinstance(p, str):
            ns.append(nfa_lit(al, p))
        elif isinstance(p, frozenset):
            ns.append(nfa_set(al, p))
        else:
            raise TypeError(type(p))
    return DFA.from_nfa(nfa_concat(al, ns), al, prev)


def erase_mark(d: DFA) -> DFA:
    n = d.to_nfa()
    for es in n.edges:
        for i, (k, dd, t) in enumerate(es):
            if k == "m":
                es[i] = ("e", None, t)
    return DFA.from_nfa(n, d.al)


def nomark(al: Alphabet) -> DFA:
    """All MARK-free strings."""
    n = al.n
    return DFA(al, [[0] * n + [1], [1] * (n + 1)], 0, {0})


def one_mark(al: Alphabet) -> DFA:
    """Strings with exactly one MARK."""
    n = al.n
    return DFA(al, [[0] * n + [1], [1] * n + [2], [2] * (n + 1)], 0, {1})


def longer_match(m: DFA) -> DFA:
    """{ v#w : exists w = w1 w2, w1 != eps, (v w1)#w2 in m }  (shift the marker right by >= 1)."""
    al = m.al
    n = NFA()
    N = len(m.trans)

    base = len(n.edges)
    # phases 0,1,2,3: 0 before input mark; 1 just after input mark (0 chars); 2 after >=1 char; 3 after virtual mark
    for _ in range(4 * N):
        n.new()

    def st(q: int, ph: int) -> int:
        return base + ph * N + q

    for q, row in enumerate(m.trans):
        by_t: dict[int, set[int]] = {}
        for c in range(al.n):
            by_t.setdefault(row[c], set()).add(c)
        for t, cs in by_t.items():
            fs = frozenset(cs)
            n.add(st(q, 0), "c", fs, st(t, 0))
            n.add(st(q, 1), "c", fs, st(t, 2))
            n.add(st(q, 2), "c", fs, st(t, 2))
            n.add(st(q, 3), "c", fs, st(t, 3))
        n.add(st(q, 0), "m", None, st(q, 1))
        n.add(st(q, 2), "e", None, st(row[al.n], 3))
    n.add(n.start, "e", None, st(m.start, 0))
    for q in m.accept:
        n.add(st(q, 3), "e", None, n.accept)
    return DFA.from_nfa(n, al)


def longest(m: DFA) -> DFA:
    return m - longer_match(m)


def match_marked(pattern: str, flags: int = 0, prev: int | None = None, al: Alphabet | None = None) -> DFA:
    """{ v # w : the pattern can match exactly v at position 0 of v·w, previous character `prev` }."""
    al = al or alphabet()
    b = Builder(al)
    sub = parse_regex(pattern, flags)
    f = b.from_sre(sub, flags | sub.state.flags)
    tail = b.star(b.cset(al.all))
    n = b.finish(b.cat([f, b.mark(), tail]))
    return DFA.from_nfa(n, al, prev)
