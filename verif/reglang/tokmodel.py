"""K-step: a regular model of ONE iteration of lexer.tokenize's main loop.

Table part: extracted mechanically, every run, from the TOKEN_PATTERNS literal in the working tree.
  M_i(prev)   = { v#w : pattern i can match exactly v at position 0 of v·w }      (marked language)
  Pre_i(prev) = erase_mark(M_i)                                                   (pattern i matches)
  Fire_i(prev)= longest(M_i)  ∩  { v#w : v·w ∉ Pre_j for all j < i }              (first match wins)
`longest` = CPython's leftmost-greedy choice coincides with the longest match for these patterns
(assumption A-greedy, cross-checked B against the real re on all short strings in tests/ and C20.B).

Control skeleton (first-match order, GRAMMAR_SENTINEL only at pos 0, fall-back order '===' check,
'+', identifier scanner, '{' error, '%' merge, error) is checked syntactically against the AST of
tokenize (skeleton_check: ExtractionError => undecided) and validated B by the differential
`model_tokenize` vs the real tokenize.

Scanner part (K-id): regular model of _match_unicode_identifier over the REAL predicate classes
(S = _is_valid_identifier_start, B = _is_valid_identifier_char, computed by calling the real
functions on every code point):  consumed = S B* (?<!-) [maximal run, trailing hyphens given back]
optionally extended by <S B*(?<!-)> ; lenient mode additionally {S B*(?<!-)} .
"""
from __future__ import annotations

import ast
from functools import lru_cache

from verif import extract
from verif.extract import ExtractionError
from verif.reglang import automata as A
from verif.reglang.alphabet import MARK, Alphabet, alphabet

LEXER = "octave_mcp.core.lexer"


def token_patterns() -> list[tuple[str, str]]:
    pats = extract.const(LEXER, "TOKEN_PATTERNS")
    out = []
    for p in pats:
        if not (isinstance(p, tuple) and len(p) == 2 and isinstance(p[0], str) and isinstance(p[1], extract.Sym)):
            raise ExtractionError("TOKEN_PATTERNS entry is not (literal regex, TokenType.X)")
        out.append((p[0], p[1].attr))
    if not out:
        raise ExtractionError("TOKEN_PATTERNS is empty")
    return out


def _unparse(n: ast.AST) -> str:
    return ast.unparse(n)


def skeleton_check() -> list[str]:
    """Syntactic conformance of tokenize's main loop to the control skeleton the step model assumes.
    Returns the list of facts established; raises ExtractionError when the shape differs."""
    fn = extract.find_def(LEXER, "tokenize")
    facts = []
    loops = [n for n in fn.body if isinstance(n, ast.While)]
    if len(loops) != 1 or _unparse(loops[0].test) != "pos < len(content)":
        raise ExtractionError("tokenize: main loop `while pos < len(content)` not found")
    # the text the loop scans is the caller's text after the fence-aware NFC pass and nothing else: `content` is bound
    # exactly once before the loop and never inside it (no newline translation, stripping, case folding ...)
    widx = fn.body.index(loops[0])
    binds = [st for st in fn.body[:widx] for t in ast.walk(st) if isinstance(t, ast.Name) and t.id == "content" and isinstance(t.ctx, ast.Store)]
    if [_unparse(b) for b in binds] != ["content, fence_spans = _normalize_with_fence_detection(content)"]:
        raise ExtractionError("tokenize: before the main loop `content` is bound by " + str([f"L{b.lineno}: {_unparse(b)[:90]}" for b in binds]) + ", expected exactly `content, fence_spans = _normalize_with_fence_detection(content)`")
    inner = [t for st in fn.body[widx:] for t in ast.walk(st) if isinstance(t, ast.Name) and t.id == "content" and isinstance(t.ctx, ast.Store)]
    if inner:
        raise ExtractionError(f"tokenize: `content` is re-bound on L{inner[0].lineno} inside / after the main loop")
    facts.append("content is bound once: the fence-aware NFC pass of the argument")
    body = loops[0].body
    cp = [
        n
        for n in fn.body
        if isinstance(n, ast.Assign) and _unparse(n.targets[0]) == "compiled_patterns"
    ]
    if not cp or _unparse(cp[0].value) != "[(re.compile(pattern), token_type) for pattern, token_type in TOKEN_PATTERNS]":
        raise ExtractionError("tokenize: compiled_patterns is not built 1:1, in order, from TOKEN_PATTERNS with flags=0")
    facts.append("compiled_patterns = TOKEN_PATTERNS in order, re.compile(flags=0)")
    kinds = []
    for st in body:
        if isinstance(st, ast.If):
            kinds.append("if:" + _unparse(st.test))
        elif isinstance(st, ast.For):
            kinds.append("for:" + _unparse(st.target) + " in " + _unparse(st.iter))
        elif isinstance(st, ast.Assign):
            kinds.append("assign:" + _unparse(st.targets[0]))
        else:
            kinds.append(type(st).__name__)
    want = [
        "if:fence_span_idx < len(fence_spans) and pos == fence_spans[fence_span_idx][0]",
        "if:content[pos] == ' '",
        "assign:matched",
        "for:(pattern, token_type) in compiled_patterns",
        "if:not matched",
    ]
    if kinds != want:
        raise ExtractionError(f"tokenize: loop body shape changed: {kinds}")
    facts.append("loop body = fence branch; space branch; table loop; fall-back")
    loop = body[3]
    b = loop.body
    if not (
        len(b) == 3
        and isinstance(b[0], ast.If)
        and _unparse(b[0].test) in ("token_type == TokenType.GRAMMAR_SENTINEL and pos != 0", "token_type == TokenType.GRAMMAR_SENTINEL and pos != 0 and content[:pos].strip('\\n')")
        and len(b[0].body) == 1
        and isinstance(b[0].body[0], ast.Continue)
        and isinstance(b[1], ast.Assign)
        and _unparse(b[1]) == "match = pattern.match(content, pos)"
        and isinstance(b[2], ast.If)
        and _unparse(b[2].test) == "match"
    ):
        raise ExtractionError("tokenize: table loop is not `skip sentinel unless pos==0; match = pattern.match(content,pos); if match:`")
    tail = [_unparse(s) for s in b[2].body[-3:]]
    if tail != ["pos = match.end()", "matched = True", "break"]:
        raise ExtractionError(f"tokenize: table branch does not end with pos = match.end(); matched = True; break: {tail}")
    if b[2].orelse or loop.orelse:
        raise ExtractionError("tokenize: table loop has an else branch")
    facts.append("first matching table entry wins; pos advances to match.end()")
    fb = body[4].body
    fk = []
    for st in fb:
        if isinstance(st, ast.If):
            fk.append("if:" + _unparse(st.test)[:60])
        elif isinstance(st, ast.Assign):
            fk.append("assign:" + _unparse(st)[:90])
        elif isinstance(st, ast.Raise):
            fk.append("raise")
        else:
            fk.append(type(st).__name__)
    want_fb = [
        "if:content[pos:pos + 3] == '==='",
        "if:content[pos] == '+'",
        "assign:unicode_id = _match_unicode_identifier(content, pos, lenient=lenient, repairs=repairs)",
        "if:unicode_id",
        "if:content[pos] == '{' and tokens and (tokens[-1].type == Token",
        "if:content[pos] == '%' and tokens and (tokens[-1].type in (Toke",
        "raise",
    ]
    if fk != want_fb:
        raise ExtractionError(f"tokenize: fall-back order changed: {fk}")
    facts.append("fall-back order: '===' check, '+', identifier scanner, '{' error, '%' merge, E005")
    # the identifier branch advances by len(unicode_id)
    idb = [_unparse(s) for s in fb[3].body[-3:]]
    if idb != ["column += len(unicode_id)", "pos += len(unicode_id)", "continue"]:
        raise ExtractionError("tokenize: identifier branch does not advance by len(unicode_id)")
    tk = [s for s in fb[3].body if isinstance(s, ast.Assign) and _unparse(s.targets[0]) == "token"]
    if not tk or _unparse(tk[0].value) != "Token(TokenType.IDENTIFIER, unicode_id, line, column)":
        raise ExtractionError("tokenize: identifier branch does not build Token(IDENTIFIER, unicode_id, line, column)")
    facts.append("identifier branch: Token(IDENTIFIER, unicode_id), pos += len(unicode_id)")
    return facts


class StepModel:
    def __init__(self, al: Alphabet, prev: int | None, at_pos0: bool):
        self.al = al
        self.prev = prev
        pats = token_patterns()
        self.names = [n for _, n in pats]
        self.M: list[A.DFA] = []
        self.Pre: list[A.DFA] = []
        self.Fire: list[A.DFA] = []
        self.enabled: list[bool] = []
        nomark = A.nomark(al)
        empty = nomark - nomark
        earlier = empty  # union of Pre_j, j < i (unmarked language)
        for pat, name in pats:
            on = not (name == "GRAMMAR_SENTINEL" and not at_pos0)
            self.enabled.append(on)
            if not on:
                self.M.append(empty)
                self.Pre.append(empty)
                self.Fire.append(empty)
                continue
            m = A.match_marked(pat, 0, prev, al)
            pre = A.erase_mark(m)
            self.M.append(m)
            self.Pre.append(pre)
            self.Fire.append(A.longest(m) - ignore_mark(earlier))
            earlier = earlier | pre
        self.any_table = earlier
        self.no_table = nomark - earlier

    def fire_by_type(self, name: str) -> A.DFA:
        al = self.al
        out = A.nomark(al) - A.nomark(al)
        for n, f in zip(self.names, self.Fire):
            if n == name:
                out = out | f
        return out


def ignore_mark(d: A.DFA) -> A.DFA:
    """{ x with MARKs anywhere : erase(x) in d } for a MARK-free language d."""
    n = d.al.n
    return A.DFA(d.al, [row[:n] + [s] for s, row in enumerate(d.trans)], d.start, set(d.accept))


_STEP_CACHE: dict[tuple, StepModel] = {}


def step_model(prev_char: str | None, at_pos0: bool = False) -> StepModel:
    al = alphabet()
    prev = None if prev_char is None else al.cls(prev_char)
    word = al.category("CATEGORY_WORD")
    key = (prev is None, prev in word if prev is not None else False, at_pos0)
    m = _STEP_CACHE.get(key)
    if m is None:
        m = StepModel(al, prev, at_pos0)
        _STEP_CACHE[key] = m
    return m


# ------------------------------------------------------------------------------------------------
# K-id


@lru_cache(maxsize=None)
def id_sets() -> tuple[frozenset, frozenset]:
    al = alphabet()
    from octave_mcp.core import lexer

    S = al.set_from_pred(lexer._is_valid_identifier_start)
    B = al.set_from_pred(lexer._is_valid_identifier_char)
    return S, B


def scanner_marked(lenient: bool = False) -> A.DFA:
    """{ v#w : _match_unicode_identifier(v·w, 0) consumes exactly v }  (K-id model)."""
    al = alphabet()
    S, B = id_sets()
    hy = al.chars("-")
    b = A.Builder(al)

    def run_nohyphen_end(bb: A.Builder) -> A.Frag:
        # S B* not ending in '-'   ==   S ( B* (B \ -) )?
        return bb.cat([bb.cset(S), bb.opt(bb.cat([bb.star(bb.cset(B)), bb.cset(B - hy)]))])

    def qual(bb: A.Builder, o: str, c: str) -> A.Frag:
        return bb.cat([bb.lit(o), run_nohyphen_end(bb), bb.lit(c)])

    base = run_nohyphen_end(b)
    # maximal run: after the base come k >= 0 hyphens and then a non-body character or the end
    la = A.Builder(al)
    la_n = la.finish(la.cat([la.star(la.cset(hy)), la.alt([la.cset(al.all - B), la.assertion(("eos",))])]))
    end_of_run = b.assertion(("la", False, la_n))
    lq = A.Builder(al)
    lq_n = lq.finish(qual(lq, "<", ">"))
    no_qual = b.assertion(("la", True, lq_n))
    with_or_without_qual = b.alt([qual(b, "<", ">"), no_qual])
    parts = [base, end_of_run, with_or_without_qual]
    if lenient:
        lc = A.Builder(al)
        lc_n = lc.finish(qual(lc, "{", "}"))
        parts.append(b.alt([qual(b, "{", "}"), b.assertion(("la", True, lc_n))]))
    tail = b.star(b.cset(al.all))
    n = b.finish(b.cat(parts + [b.mark(), tail]))
    return A.DFA.from_nfa(n, al, None)


# ------------------------------------------------------------------------------------------------
# concrete interpreter of the model (for the differential B check against the real tokenize)


def model_tokenize(text: str, lenient: bool = False) -> list[tuple[str, int]] | str:
    """Token (type, start offset) list predicted by the step model for fence-free, tab-free text, or
    an 'ERR' string. Only the control skeleton and the table/scanner languages are used."""
    al = alphabet()
    out: list[tuple[str, int]] = []
    pos = 0
    n = len(text)
    col1 = True
    depth = 0
    scan = _scan_cached(lenient)
    last_type = None
    while pos < n:
        ch = text[pos]
        if ch == " ":
            if col1:
                k = pos
                while k < n and text[k] == " ":
                    k += 1
                if k > pos and k < n and text[k] != "\n":
                    out.append(("INDENT", pos))
                    col1 = False
                pos = k
                continue
            pos += 1
            continue
        prev_ch = text[pos - 1] if pos > 0 else None
        sm = step_model(prev_ch, at_pos0=(pos == 0 or not text[:pos].strip("\n")) if _SENTINEL_AFTER_NEWLINES() else (pos == 0))
        rest = al.encode(text[pos:])
        fired = None
        for i, name in enumerate(sm.names):
            if not sm.enabled[i]:
                continue
            if sm.Pre[i].accepts(rest):
                # longest match end
                k_found = None
                for k in range(len(rest), 0, -1):
                    w = list(rest)
                    w.insert(k, MARK)
                    if sm.M[i].accepts(w):
                        k_found = k
                        break
                if k_found is None:
                    return "ERR:model-inconsistent"
                fired = (name, k_found)
                break
        if fired:
            name, k = fired
            out.append((name, pos))
            if name == "LIST_START":
                depth += 1
            elif name == "LIST_END":
                if depth == 0:
                    return "ERR"
                depth -= 1
            lex = text[pos : pos + k]
            col1 = lex.endswith("\n")
            pos += k
            last_type = name
            continue
        if text[pos : pos + 3] == "===":
            import re as _re

            m = _re.compile(r"===([^=\n]*)===").match(text, pos)
            if m:
                return "ERR"  # _check_invalid_envelope returns an error for every non-valid id (valid ids matched the table)
        if ch == "+":
            out.append(("SYNTHESIS", pos))
            pos += 1
            col1 = False
            last_type = "SYNTHESIS"
            continue
        k_found = None
        for k in range(len(rest), 0, -1):
            w = list(rest)
            w.insert(k, MARK)
            if scan.accepts(w):
                k_found = k
                break
        if k_found:
            out.append(("IDENTIFIER", pos))
            pos += k_found
            col1 = False
            last_type = "IDENTIFIER"
            continue
        if ch == "%" and last_type in ("NUMBER", "IDENTIFIER"):
            return "SKIP"  # % merge is outside the step model; the differential skips such inputs
        return "ERR"
    if depth:
        return "ERR"
    out.append(("EOF", pos))
    return out


@lru_cache(maxsize=None)
def _SENTINEL_AFTER_NEWLINES() -> bool:
    """which of the two accepted sentinel guards the working tree has (read from the AST)"""
    fn = extract.find_def(LEXER, "tokenize")
    return "content[:pos].strip('\\n')" in ast.unparse(fn)


_SCAN: dict[bool, A.DFA] = {}


def _scan_cached(lenient: bool) -> A.DFA:
    if lenient not in _SCAN:
        _SCAN[lenient] = scanner_marked(lenient)
    return _SCAN[lenient]


def real_tokenize(text: str, lenient: bool = False) -> list[tuple[str, int]] | str:
    from octave_mcp.core.lexer import LexerError, tokenize

    try:
        toks, _ = tokenize(text, lenient=lenient)
    except LexerError:
        return "ERR"
    # offsets from (line, column)
    starts = [0]
    for i, ch in enumerate(text):
        if ch == "\n":
            starts.append(i + 1)
    out = []
    for t in toks:
        off = starts[t.line - 1] + t.column - 1 if t.line - 1 < len(starts) else len(text)
        out.append((t.type.name, off))
    return out
