"""Write-then-read of one scalar through the real emitter and the real strict reader (C04 oracle)."""
from __future__ import annotations

import math
import unicodedata
from typing import Any

POSITIONS = ("assign", "meta", "list", "map", "block")


def place(value: Any, position: str, key: str = "K"):
    from octave_mcp.core.ast_nodes import Assignment, Block, Document, InlineMap, ListValue

    doc = Document(name="T")
    if position == "assign":
        doc.sections = [Assignment(key=key, value=value)]
    elif position == "meta":
        doc.meta = {key: value}
    elif position == "list":
        doc.sections = [Assignment(key="L", value=ListValue(items=[value]))]
    elif position == "list2":
        doc.sections = [Assignment(key="L", value=ListValue(items=["a", value, "b"]))]
    elif position == "map":
        doc.sections = [Assignment(key="L", value=ListValue(items=[InlineMap(pairs={key: value})]))]
    elif position == "block":
        doc.sections = [Block(key="B", children=[Assignment(key=key, value=value)])]
    else:
        raise ValueError(position)
    return doc


class Missing:
    def __repr__(self) -> str:
        return "<missing>"


MISSING = Missing()


def read_back(doc: Any, position: str, key: str = "K") -> Any:
    from octave_mcp.core.ast_nodes import Assignment, Block, InlineMap, ListValue

    try:
        if position == "assign":
            n = doc.sections[0]
            return n.value if isinstance(n, Assignment) and n.key == key and len(doc.sections) == 1 else MISSING
        if position == "meta":
            return doc.meta[key] if list(doc.meta.keys()) == [key] else MISSING
        if position == "list":
            v = doc.sections[0].value
            return v.items[0] if isinstance(v, ListValue) and len(v.items) == 1 else MISSING
        if position == "list2":
            v = doc.sections[0].value
            return v.items[1] if isinstance(v, ListValue) and len(v.items) == 3 and v.items[0] == "a" and v.items[2] == "b" else MISSING
        if position == "map":
            v = doc.sections[0].value
            it = v.items[0] if isinstance(v, ListValue) and len(v.items) == 1 else None
            return it.pairs[key] if isinstance(it, InlineMap) and list(it.pairs.keys()) == [key] else MISSING
        if position == "block":
            b = doc.sections[0]
            c = b.children[0] if isinstance(b, Block) and len(b.children) == 1 and len(doc.sections) == 1 else None
            return c.value if isinstance(c, Assignment) and c.key == key else MISSING
    except Exception:
        return MISSING
    return MISSING


def same_scalar(expected: Any, got: Any) -> bool:
    if got is MISSING:
        return False
    if isinstance(expected, str):
        return isinstance(got, str) and got == unicodedata.normalize("NFC", expected)
    if expected is None:
        return got is None
    if isinstance(expected, bool):
        return isinstance(got, bool) and got is expected
    if isinstance(expected, int):
        return type(got) is int and got == expected
    if isinstance(expected, float):
        return type(got) is float and (got == expected) and math.copysign(1, got) == math.copysign(1, expected)
    return False


def roundtrip(value: Any, position: str = "assign", key: str = "K") -> tuple[bool, str]:
    """(failed, explanation)."""
    from octave_mcp.core.emitter import emit
    from octave_mcp.core.parser import parse

    doc = place(value, position, key)
    try:
        text = emit(doc)
    except Exception as e:  # noqa: BLE001
        return True, f"emit raised {type(e).__name__}: {e}"
    try:
        doc2 = parse(text)
    except Exception as e:  # noqa: BLE001
        return True, f"value {value!r} at {position}: canonical text {text!r} is refused by the strict reader: {type(e).__name__}: {e}"
    got = read_back(doc2, position, key)
    if same_scalar(value, got):
        return False, f"value {value!r} at {position} round-trips"
    return True, f"value {value!r} ({type(value).__name__}) at {position}/{key}: canonical text {text!r} reads back as {got!r} ({type(got).__name__})"
