"""Independent content model of OCTAVE documents ("what was written").

Plain dataclasses of our own (no repo AST classes), renderers to canonical / lenient text,
a comparer against the repo's parsed ``Document`` (duck-typed by class name, so this module
imports nothing from the repo) and enumerators of small documents.

Sources for the surface grammar: resources/specs/octave-core-spec.oct.md (§1-§7),
octave-mcp-architecture.oct.md (§2 strict/lenient, §3 lenient grammar, §4 rule table),
docs/grammar/octave-v1.0-grammar.ebnf.  Two layout rules are NOT in any spec and are taken
from emitter.py (stated in the report): one-line vs multi-line lists (>=3 items, or any
inline-map / nested-list / NAME<qual> item => multi-line) and ``str(float)`` number text.
"""
from __future__ import annotations

import itertools
import math
import random
import re
import unicodedata
from dataclasses import dataclass, field, replace
from typing import Any, Iterator, NamedTuple

# --------------------------------------------------------------------------- model


@dataclass
class MStr:
    text: str


@dataclass
class MInt:
    n: int


@dataclass
class MFloat:
    x: float


@dataclass
class MBool:
    b: bool


@dataclass
class MNull:
    pass


@dataclass
class MList:
    items: list = field(default_factory=list)  # MValue | MMap


@dataclass
class MMap:
    pairs: list = field(default_factory=list)  # [(key, MValue)]; only valid as a list item


@dataclass
class MZone:
    content: str = ""
    info_tag: str | None = None
    fence: str = "```"


@dataclass
class Holo:
    """`expect` marker for MRaw: the parser is documented to return a holographic value."""

    raw_pattern: str


@dataclass
class MRaw:
    text: str  # surface text written verbatim (operators inside it are alias sites)
    expect: Any  # Python value (str/int/float/bool/None), an M-value, or Holo
    canon: str | None = None  # canonical spelling when `text` is itself only a lenient spelling (K::1.2.3 -> K::"1.2.3")


@dataclass
class MAssign:
    key: str
    value: Any
    leading_comments: list = field(default_factory=list)
    trailing_comment: str | None = None


@dataclass
class MBlock:
    key: str
    target: str | None = None
    children: list = field(default_factory=list)
    leading_comments: list = field(default_factory=list)


@dataclass
class MSection:
    section_id: str
    key: str
    annotation: str | None = None
    children: list = field(default_factory=list)
    leading_comments: list = field(default_factory=list)


@dataclass
class MComment:
    text: str


@dataclass
class MBareZone:
    zone: MZone
    leading_comments: list = field(default_factory=list)  # extension: comment lines right above the fence


@dataclass
class MDoc:
    name: str = "DOC"
    grammar_version: str | None = None
    frontmatter: str | None = None
    meta: list = field(default_factory=list)  # [(key, MValue | [(key, MValue)])]
    has_separator: bool = False
    body: list = field(default_factory=list)
    trailing_comments: list = field(default_factory=list)
    label: str = ""  # free text set by the enumerator (not content)


class Site(NamedTuple):
    id: str
    kind: str
    variants: tuple  # variants[0] is the canonical spelling
    where: str
    reader: str  # "parse": accepted by parse/parse_with_warnings; "tokenize_lenient": only tokenize(lenient=True)/octave_write(lenient)


class Rewrite(NamedTuple):
    kind: str  # ascii_alias | triple_quote | multi_word | brace_annotation
    original_text: str  # what was written
    replacement_text: str  # what it must become
    line: int
    column: int


SCALARS = (MStr, MInt, MFloat, MBool, MNull)

# --------------------------------------------------------------------------- text rules

OP_ALIASES = {"→": ("->",), "⊕": ("+",), "⧺": ("~",), "⇌": (" vs ", "<->"), "∨": ("|",), "∧": ("&",), "§": ("#",)}
_OPCH = "→⊕⧺⇌∧∨"
_ID = r"[A-Za-z_][A-Za-z0-9_.\-]*(?<!-)"
_KEY_RE = re.compile(r"^[A-Za-z_][A-Za-z0-9_]*\Z")
_ID_RE = re.compile(rf"^{_ID}\Z")
_ANNOT_RE = re.compile(rf"^{_ID}<[A-Za-z_][A-Za-z0-9_]*>\Z")
_EXPR_RE = re.compile(rf"^{_ID}(?:[{_OPCH}@]{_ID})+\Z")
_VAR_RE = re.compile(r"^\$[A-Za-z0-9_:]+\Z")
_RESERVED_LEAD = re.compile(rf"(?:^|[{_OPCH}@])(?:true|false|null|vs)\b")
_EMIT_ANNOT = re.compile(rf"^{_ID}<(?:[A-Za-z_](?:[A-Za-z0-9_,]*[A-Za-z0-9_])?)?>\Z")  # emitter's GH#304 layout trigger
_MULTIWORD_RE = re.compile(r"^[A-Za-z_][A-Za-z0-9_]*(?: [A-Za-z_][A-Za-z0-9_]*)+\Z")
_RAW_TOK = re.compile(
    r'("(?:[^"\\]|\\.)*")|([A-Za-z_][A-Za-z0-9_.\-]*)<([A-Za-z_][A-Za-z0-9_]*)>|([→⊕⧺⇌∨∧§])|[A-Za-z0-9_.\-/$]+|.', re.S
)
_GV_RE = re.compile(r"^\d+(?:\.\d+)*(?:-[A-Za-z0-9.-]+)?\Z")


def bare_form(text: str) -> str | None:
    """Spec §3b SAFE_WITHOUT_QUOTES: identifier, NAME<qual>, operator expression, $VAR (EBNF)."""
    if not text or _RESERVED_LEAD.search(text):
        return None
    for name, rx in (("ident", _ID_RE), ("annot", _ANNOT_RE), ("expr", _EXPR_RE), ("var", _VAR_RE)):
        if rx.match(text):
            return name
    return None


def escape(text: str) -> str:
    return text.replace("\\", "\\\\").replace('"', '\\"').replace("\n", "\\n").replace("\t", "\\t")


def is_multiword(text: str) -> bool:
    return bool(_MULTIWORD_RE.match(text)) and not any(w in ("true", "false", "null", "vs") for w in text.split(" "))


def check_zone(z: MZone) -> None:
    n = len(z.fence)
    if not (3 <= n <= 6) or set(z.fence) != {"`"}:
        raise ValueError(f"fence must be 3..6 backticks: {z.fence!r}")
    if z.info_tag is not None and (not z.info_tag.strip() or z.info_tag != z.info_tag.strip() or re.search(r"[`\n]", z.info_tag)):
        raise ValueError(f"bad info tag {z.info_tag!r}")
    for ln in z.content.split("\n"):
        mt = re.match(r"^ *(`{3,})[^`]*$", ln)
        if mt and len(mt.group(1)) >= n:
            raise ValueError("zone content contains a fence line of equal or greater length")


def _flat_items(lst: MList) -> list:
    """[k::v,k2::w] is textually a run of pairs: an MMap of n pairs == n one-pair maps."""
    out: list = []
    for it in lst.items:
        if isinstance(it, MMap):
            out.extend(("pair", k, v) for k, v in it.pairs)
        else:
            out.append(("val", it))
    return out


def _str_of(v: Any) -> str | None:
    if isinstance(v, MStr):
        return v.text
    if isinstance(v, MRaw) and isinstance(v.expect, str):
        return v.expect
    return None


def needs_multiline(lst: MList) -> bool:
    """Canonical list layout. Only discoverable from emitter._needs_multiline (GH#267/#273/#304)."""
    n = 0
    for kind, *rest in _flat_items(lst):
        if kind == "pair":
            return True
        v = rest[0]
        if isinstance(v, MList) or (isinstance(v, MRaw) and isinstance(v.expect, MList)):
            return True
        s = _str_of(v)
        if s is not None and _EMIT_ANNOT.match(s):
            return True
        n += 1
    return n >= 3


# --------------------------------------------------------------------------- renderer


class _Out:
    def __init__(self) -> None:
        self.parts: list[str] = []
        self.line = 1
        self.col = 1

    def w(self, s: str) -> None:
        if not s:
            return
        self.parts.append(s)
        nl = s.count("\n")
        if nl:
            self.line += nl
            self.col = len(s) - s.rfind("\n")
        else:
            self.col += len(s)


class _Renderer:
    def __init__(self, m: MDoc, choices: dict | None = None) -> None:
        self.m = m
        self.ch = dict(choices or {})
        self.sites: list[Site] = []
        self.cnt: dict[str, int] = {}
        self.o = _Out()
        self.inj: list[Rewrite] = []
        self.unit = 2

    # -- sites
    def site(self, kind: str, variants: tuple, where: str, reader: str = "parse") -> str:
        i = self.cnt.get(kind, 0)
        self.cnt[kind] = i + 1
        sid = f"{kind}#{i}"
        self.sites.append(Site(sid, kind, tuple(variants), where, reader))
        v = self.ch.get(sid, variants[0])
        if v not in variants:
            raise ValueError(f"site {sid}: variant {v!r} not in {variants}")
        return v

    def ind(self, lvl: int) -> str:
        return " " * (self.unit * lvl)

    def eol(self, where: str, trail: bool = True) -> None:
        if trail and self.site("trail", ("", "  "), where):
            self.o.w("  ")
        self.o.w("\n")

    def blank(self, where: str) -> None:
        # a blank line, possibly carrying trailing spaces of a width unrelated to the surrounding indent
        v = self.site("blank", ("0", "1", "s1", "s3", "s7"), where)
        if v != "0":
            self.o.w(" " * (int(v[1:]) if v.startswith("s") else 0) + "\n")

    def comment_line(self, text: str, lvl: int) -> None:
        if "\n" in text:
            raise ValueError("comment text cannot contain a newline")
        self.o.w(self.ind(lvl) + "//" + (" " + text if text else "") + "\n")

    # -- operators / raw text
    def op(self, ch: str, where: str, live: bool = True) -> None:
        v = self.site("op", (ch,) + OP_ALIASES[ch], where)
        if not live or v == ch:
            if live:
                self.o.w(ch)
            return
        lead = len(v) - len(v.lstrip(" "))
        self.o.w(v[:lead])
        self.inj.append(Rewrite("ascii_alias", v.strip(), ch, self.o.line, self.o.col))
        self.o.w(v[lead:])

    def raw(self, text: str, where: str, live: bool = True) -> None:
        """Write surface text; every operator / NAME<qual> outside inner quotes is a site.
        live=False only allocates the sites (text is being written inside quotes)."""
        for mt in _RAW_TOK.finditer(text):
            if mt.group(4):
                self.op(mt.group(4), where, live)
            elif mt.group(2):
                name, q = mt.group(2), mt.group(3)
                v = self.site("brace", ("angle", "brace"), where, reader="tokenize_lenient")
                if not live:
                    continue
                if v == "brace":
                    self.inj.append(Rewrite("brace_annotation", f"{name}{{{q}}}", f"{name}<{q}>", self.o.line, self.o.col))
                    self.o.w(f"{name}{{{q}}}")
                else:
                    self.o.w(f"{name}<{q}>")
            elif live:
                self.o.w(mt.group(0))

    # -- values
    def string(self, text: str, pos: str, where: str, force: bool = False) -> None:
        form = None if force else bare_form(text)  # force: PATTERN/REGEX values are always quoted (emitter GH#310)
        variants = ("bare", "quoted", "triple") if form else ("quoted", "triple")
        if not form and pos in ("assign", "meta") and is_multiword(text):
            variants += ("multiword",)
        v = self.site("str", variants, where)
        if text != _nfc(text) and self.site("nfc", ("nfc", "as-written"), where) == "nfc":
            text = _nfc(text)  # strict profile is NFC (rule R10); the un-normalised spelling is a lenient one
        if form in ("annot", "expr"):
            self.raw(text, where, live=(v == "bare"))
        elif v == "bare":
            self.o.w(text)
        if v == "quoted":
            self.o.w('"' + escape(text) + '"')
        elif v == "triple":
            self.inj.append(Rewrite("triple_quote", '"""' + escape(text) + '"""', '"' + escape(text) + '"', self.o.line, self.o.col))
            self.o.w('"""' + escape(text) + '"""')
        elif v == "multiword":
            self.inj.append(Rewrite("multi_word", text, '"' + text + '"', self.o.line, self.o.col))
            self.o.w(text)

    def value(self, v: Any, lvl: int, pos: str, where: str, key: str = "") -> None:
        o = self.o
        if isinstance(v, MStr):
            self.string(v.text, pos, where, force=key in ("PATTERN", "REGEX"))
        elif isinstance(v, MBool):
            o.w("true" if v.b else "false")
        elif isinstance(v, MInt):
            o.w(str(int(v.n)))
        elif isinstance(v, MFloat):
            if not math.isfinite(v.x):
                raise ValueError("MFloat must be finite")
            o.w(repr(float(v.x)))
        elif isinstance(v, MNull):
            o.w("null")
        elif isinstance(v, MRaw):
            if v.canon is not None and self.site("raw", ("canon", "surface"), where) == "canon":
                o.w(v.canon)
                self.raw(v.text, where, live=False)
            else:
                self.raw(v.text, where)
        elif isinstance(v, MList):
            self.list(v, lvl, where)
        else:
            raise ValueError(f"{type(v).__name__} is not allowed at {where} ({pos})")

    def list(self, lst: MList, lvl: int, where: str) -> None:
        o = self.o
        items = _flat_items(lst)
        if not items:
            o.w("[]")
            return
        order = ("multi", "one") if needs_multiline(lst) else ("one", "multi")
        multi = self.site("list", order, where) == "multi"
        o.w("[\n" if multi else "[")
        for i, (kind, *rest) in enumerate(items):
            if multi:
                o.w(self.ind(lvl + 1))
            sub = f"{where}[{i}]"
            if kind == "pair":
                k, val = rest
                if not _KEY_RE.match(k) or isinstance(val, (MMap, MZone)):
                    raise ValueError(f"bad inline-map pair at {sub}")
                o.w(k + "::")
                self.value(val, lvl + 1 if multi else lvl, "map", sub + "." + k, key=k)
            else:
                self.value(rest[0], lvl + 1 if multi else lvl, "list", sub)
            if i < len(items) - 1:
                o.w(",")
            if multi:
                o.w("\n")
        o.w((self.ind(lvl) if multi else "") + "]")

    def zone(self, z: MZone, lvl: int, where: str) -> None:
        check_zone(z)
        self.o.w(self.ind(lvl) + z.fence + (z.info_tag or "") + "\n")
        if z.content != "":
            self.o.w(z.content + "\n")  # content lines verbatim, never indented
        self.o.w(self.ind(lvl) + z.fence)
        self.eol(where)

    # -- nodes
    def assign(self, key: str, v: Any, lvl: int, pos: str, where: str, trailing: str | None = None) -> None:
        if not _KEY_RE.match(key):
            raise ValueError(f"bad key {key!r}")
        o = self.o
        o.w(self.ind(lvl) + key)
        sp = self.site("assign_space", ("::", " :: ", ":: ", " ::"), where)
        if isinstance(v, MZone):
            if trailing is not None or pos != "assign":
                raise ValueError("a literal zone takes no trailing comment and is not allowed in META")
            o.w(sp.rstrip(" ") + "\n")
            self.zone(v, lvl, where)
            return
        o.w(sp)
        self.value(v, lvl, pos, where, key=key if pos == "assign" else "")
        if trailing is not None:
            if "\n" in trailing or trailing == "":
                raise ValueError("trailing comment must be non-empty single-line text")
            o.w(" // " + trailing)
        self.eol(where)

    def node(self, n: Any, lvl: int, where: str) -> None:
        o = self.o
        self.blank(where)
        if isinstance(n, MComment):
            self.comment_line(n.text, lvl)
            return
        for c in n.leading_comments:
            self.comment_line(c, lvl)
        if isinstance(n, MAssign):
            self.assign(n.key, n.value, lvl, "assign", where, n.trailing_comment)
        elif isinstance(n, MBareZone):
            if lvl == 0:
                raise ValueError("a bare literal zone is only defined inside a block body")
            self.zone(n.zone, lvl, where)
        elif isinstance(n, MBlock):
            if not _KEY_RE.match(n.key):
                raise ValueError(f"bad key {n.key!r}")
            o.w(self.ind(lvl) + n.key)
            if n.target is not None:
                o.w("[")
                self.op("→", where)
                self.op("§", where)
                o.w(n.target + "]")
            o.w(":")
            self.eol(where)
            self.children(n.children, lvl + 1, where)
        elif isinstance(n, MSection):
            o.w(self.ind(lvl))
            self.op("§", where)
            o.w(f"{n.section_id}::{n.key}")
            if n.annotation is not None:
                o.w(f"[{n.annotation}]")
            self.eol(where)
            self.children(n.children, lvl + 1, where)
        else:
            raise ValueError(f"unknown node {n!r}")

    def children(self, nodes: list, lvl: int, where: str) -> None:
        for i, c in enumerate(nodes):
            self.node(c, lvl, f"{where}.children[{i}]")

    def doc(self) -> str:
        m, o = self.m, self.o
        self.unit = int(self.site("indent", ("2", "4"), "document"))
        if not _KEY_RE.match(m.name) or m.name == "END":
            raise ValueError(f"bad envelope name {m.name!r}")
        if m.frontmatter is not None:
            if any(ln.strip() == "---" for ln in m.frontmatter.split("\n")):
                raise ValueError("frontmatter cannot contain a --- line")
            o.w("---\n" + m.frontmatter + "\n---\n\n")
        if m.grammar_version is not None:
            if not _GV_RE.match(m.grammar_version):
                raise ValueError("bad grammar version")
            o.w(f"OCTAVE::{m.grammar_version}\n")
        o.w(f"==={m.name}===\n")
        if m.meta:
            o.w("META:")
            self.eol("meta")
            seen: set = set()
            for k, v in m.meta:
                if k in seen:
                    raise ValueError("META keys must be unique")
                seen.add(k)
                self.blank(f"meta.{k}")
                if isinstance(v, list):
                    o.w(self.ind(1) + k + ":")
                    self.eol(f"meta.{k}")
                    for k2, v2 in v:
                        self.assign(k2, v2, 2, "meta", f"meta.{k}.{k2}")
                else:
                    self.assign(k, v, 1, "meta", f"meta.{k}")
        if m.has_separator:
            o.w("---\n")
        for i, n in enumerate(m.body):
            self.node(n, 0, f"body[{i}]")
        for c in m.trailing_comments:
            self.comment_line(c, 0)
        if self.site("end", ("present", "omitted"), "document") == "present":
            o.w("===END===\n")
        return "".join(o.parts)


def render_canonical(m: MDoc) -> str:
    """Strict-profile text: explicit envelope, Unicode operators, no space around ::, 2-space indent, one final newline."""
    return _Renderer(m).doc()


def lenient_sites(m: MDoc) -> list[Site]:
    r = _Renderer(m)
    r.doc()
    return r.sites


def render_lenient(m: MDoc, choices: dict) -> tuple[str, list[Rewrite]]:
    """choices: {site_id: variant}. Unlisted sites stay canonical. Operator/brace sites that sit inside a
    bare string are inert when that string's own site is set to quoted/triple."""
    r = _Renderer(m, choices)
    text = r.doc()
    unknown = set(choices) - {s.id for s in r.sites}
    if unknown:
        raise ValueError(f"unknown site ids {sorted(unknown)}")
    return text, r.inj


def render_all_lenient(m: MDoc, max_combos: int, rng: random.Random, exclude_kinds: frozenset = frozenset({"brace"})) -> Iterator[tuple[str, list[Rewrite]]]:
    """Product of site choices: exhaustive when it fits in max_combos, otherwise the canonical text, every
    single-site deviation, then rng-sampled combinations. Sites whose kind is excluded stay canonical
    (default: brace-for-angle, which parse()/parse_with_warnings() refuse; pass frozenset() to include)."""
    sites = [s for s in lenient_sites(m) if s.kind not in exclude_kinds and len(s.variants) > 1]
    total = math.prod(len(s.variants) for s in sites)
    if total <= max_combos:
        for combo in itertools.product(*[s.variants for s in sites]):
            yield render_lenient(m, {s.id: v for s, v in zip(sites, combo)})
        return
    n = 1
    yield render_lenient(m, {})
    # every site deviating at once (variant j everywhere, clipped): reaches all sites within a small budget
    for j in range(1, max(len(s.variants) for s in sites)):
        if n >= max_combos:
            return
        n += 1
        yield render_lenient(m, {s.id: s.variants[min(j, len(s.variants) - 1)] for s in sites})
    for s in sites:
        for v in s.variants[1:]:
            if n >= max_combos:
                return
            n += 1
            yield render_lenient(m, {s.id: v})
    while n < max_combos:
        n += 1
        yield render_lenient(m, {s.id: rng.choice(s.variants) for s in sites})


# --------------------------------------------------------------------------- comparer (model vs repo AST, duck-typed)


def _nfc(s: str) -> str:
    return unicodedata.normalize("NFC", s)


def _tn(x: Any) -> str:
    return type(x).__name__


def _short(x: Any, n: int = 60) -> str:
    if _tn(x) == "ListValue":
        r = "[" + ",".join(_short(i, 20) for i in x.items) + "]"
    elif _tn(x) == "InlineMap":
        r = "{" + ",".join(f"{k}::{_short(v, 20)}" for k, v in x.pairs.items()) + "}"
    elif _tn(x) == "LiteralZoneValue":
        r = f"zone({x.content!r},{x.info_tag!r},{x.fence_marker!r})"
    elif _tn(x) == "HolographicValue":
        r = f"holo({x.raw_pattern!r})"
    else:
        r = repr(x)
    return r if len(r) <= n else r[: n - 1] + "…"


def normalize(m: MDoc) -> MDoc:
    """Normal form used for comparison: a comment line followed by a sibling IS that sibling's leading
    comment (Issue #182 definition of leading_comments); only comments with no following sibling stay
    MComment (orphans); at top level those are the document's trailing comments."""

    def attach(nodes: list) -> tuple[list, list]:
        out, pend = [], []
        for n in nodes:
            if isinstance(n, MComment):
                pend.append(n.text)
                continue
            n2 = replace(n, leading_comments=pend + list(n.leading_comments))
            pend = []
            if isinstance(n2, (MBlock, MSection)):
                kids, tail = attach(n2.children)
                n2 = replace(n2, children=kids + [MComment(t) for t in tail])
            out.append(n2)
        return out, pend

    body, tail = attach(m.body)
    return replace(m, body=body, trailing_comments=tail + list(m.trailing_comments))


def _cmp_str(path: str, what: str, exp: str | None, got: Any, out: list) -> None:
    if exp is None or got is None or not isinstance(got, str):
        if not (exp is None and got is None):
            out.append(f"{path}: {what}: expected {exp!r} got {got!r}")
    elif _nfc(exp) != _nfc(got):
        out.append(f"{path}: {what}: expected {exp!r} got {got!r}")


def _cmp_strs(path: str, what: str, exp: list, got: Any, out: list) -> None:
    got = list(got or [])
    if [_nfc(x) for x in exp] != [_nfc(x) if isinstance(x, str) else x for x in got]:
        out.append(f"{path}: {what}: expected {exp!r} got {got!r}")


def _diff_value(path: str, mv: Any, av: Any, out: list) -> None:
    if isinstance(mv, MRaw):
        e = mv.expect
        if isinstance(e, Holo):
            if _tn(av) != "HolographicValue" or _nfc(av.raw_pattern) != _nfc(e.raw_pattern):
                out.append(f"{path}: value: expected holographic {e.raw_pattern!r} got {_tn(av)} {_short(av)}")
            return
        if not isinstance(e, (MStr, MInt, MFloat, MBool, MNull, MList, MZone)):
            e = MNull() if e is None else MBool(e) if isinstance(e, bool) else MInt(e) if isinstance(e, int) else MFloat(e) if isinstance(e, float) else MStr(e)
        return _diff_value(path, e, av, out)
    if isinstance(mv, MStr):
        if type(av) is not str:
            out.append(f"{path}: type: expected str {mv.text!r} got {_tn(av)} {_short(av)}")
        elif _nfc(av) != _nfc(mv.text):
            out.append(f"{path}: str: expected {mv.text!r} got {av!r}")
    elif isinstance(mv, MBool):
        if type(av) is not bool or av is not mv.b:
            out.append(f"{path}: type: expected bool {mv.b!r} got {_tn(av)} {_short(av)}")
    elif isinstance(mv, MInt):
        if type(av) is not int or av != mv.n:
            out.append(f"{path}: type: expected int {mv.n!r} got {_tn(av)} {_short(av)}")
    elif isinstance(mv, MFloat):
        if type(av) is not float or av != mv.x or math.copysign(1, av) != math.copysign(1, mv.x):
            out.append(f"{path}: type: expected float {mv.x!r} got {_tn(av)} {_short(av)}")
    elif isinstance(mv, MNull):
        if av is not None:
            out.append(f"{path}: type: expected null got {_tn(av)} {_short(av)}")
    elif isinstance(mv, MZone):
        if _tn(av) != "LiteralZoneValue":
            out.append(f"{path}: type: expected zone got {_tn(av)} {_short(av)}")
            return
        if av.content != mv.content:
            out.append(f"{path}: zone-content: expected {mv.content!r} got {av.content!r}")
        if av.info_tag != mv.info_tag:
            out.append(f"{path}: zone-tag: expected {mv.info_tag!r} got {av.info_tag!r}")
        if av.fence_marker != mv.fence:
            out.append(f"{path}: zone-fence: expected {mv.fence!r} got {av.fence_marker!r}")
    elif isinstance(mv, MList):
        if _tn(av) != "ListValue":
            out.append(f"{path}: type: expected list got {_tn(av)} {_short(av)}")
            return
        exp = _flat_items(mv)
        got: list = []
        for it in av.items:
            if _tn(it) == "InlineMap":
                got.extend(("pair", k, v) for k, v in it.pairs.items())
            else:
                got.append(("val", it))
        esig = [("pair:" + e[1]) if e[0] == "pair" else "val" for e in exp]
        gsig = [("pair:" + str(g[1])) if g[0] == "pair" else "val" for g in got]
        if esig != gsig:
            out.append(f"{path}: list-items: expected {esig} got {gsig} {_short(av)}")
        for i, (e, g) in enumerate(zip(exp, got)):
            if e[0] == g[0] and (e[0] == "val" or e[1] == g[1]):
                _diff_value(f"{path}[{i}]" + (f".{e[1]}" if e[0] == "pair" else ""), e[-1], g[-1], out)
    else:
        out.append(f"{path}: model: {_tn(mv)} is not a value allowed here")


def _msig(n: Any) -> str:
    if isinstance(n, MAssign):
        return f"A:{n.key}"
    if isinstance(n, MBlock):
        return f"B:{n.key}"
    if isinstance(n, MSection):
        return f"S:{n.section_id}:{n.key}"
    return "C" if isinstance(n, MComment) else "Z"


def _asig(n: Any) -> str:
    t = _tn(n)
    if t == "Assignment":
        return "Z" if n.key == "" and _tn(n.value) == "LiteralZoneValue" else f"A:{n.key}"
    if t == "Block":
        return f"B:{n.key}"
    if t == "Section":
        return f"S:{n.section_id}:{n.key}"
    return "C" if t == "Comment" else f"?{t}"


def _diff_nodes(path: str, mnodes: list, anodes: list, out: list) -> None:
    ms, as_ = [_msig(n) for n in mnodes], [_asig(n) for n in anodes]
    if ms != as_:
        out.append(f"{path}: nodes: expected {ms} got {as_}")
    for i, (mn, an) in enumerate(zip(mnodes, anodes)):
        if _msig(mn) != _asig(an):
            continue
        p = f"{path}[{i}]"
        if isinstance(mn, MComment):
            _cmp_str(p, "comment", mn.text, an.text, out)
            continue
        _cmp_strs(p, "leading-comments", mn.leading_comments, an.leading_comments, out)
        if isinstance(mn, MAssign):
            _diff_value(p + ".value", mn.value, an.value, out)
            _cmp_str(p, "trailing-comment", mn.trailing_comment, an.trailing_comment, out)
        elif isinstance(mn, MBareZone):
            _diff_value(p + ".zone", mn.zone, an.value, out)
        elif isinstance(mn, MBlock):
            _cmp_str(p, "target", mn.target, an.target, out)
            _diff_nodes(p + ".children", mn.children, an.children, out)
        elif isinstance(mn, MSection):
            _cmp_str(p, "annotation", mn.annotation, an.annotation, out)
            _diff_nodes(p + ".children", mn.children, an.children, out)


def diff_model_vs_ast(m: MDoc, doc: Any) -> list[str]:
    """Field-by-field differences, in document order; [] means the AST holds exactly the model's content.
    Each entry is 'path: code: detail'. Never looks at line/column/tokens."""
    m = normalize(m)
    out: list[str] = []
    _cmp_str("doc", "name", m.name, doc.name, out)
    _cmp_str("doc", "grammar-version", m.grammar_version, doc.grammar_version, out)
    _cmp_str("doc", "frontmatter", m.frontmatter, doc.raw_frontmatter, out)
    if bool(doc.has_separator) != m.has_separator:
        out.append(f"doc: separator: expected {m.has_separator} got {doc.has_separator}")
    ameta = doc.meta if isinstance(doc.meta, dict) else {}
    if [k for k, _ in m.meta] != list(ameta.keys()):
        out.append(f"meta: keys: expected {[k for k, _ in m.meta]} got {list(ameta.keys())}")
    for k, v in m.meta:
        if k not in ameta:
            continue
        if isinstance(v, list):
            if not isinstance(ameta[k], dict):
                out.append(f"meta.{k}: type: expected nested block got {_tn(ameta[k])} {_short(ameta[k])}")
                continue
            if [k2 for k2, _ in v] != list(ameta[k].keys()):
                out.append(f"meta.{k}: keys: expected {[k2 for k2, _ in v]} got {list(ameta[k].keys())}")
            for k2, v2 in v:
                if k2 in ameta[k]:
                    _diff_value(f"meta.{k}.{k2}", v2, ameta[k][k2], out)
        elif isinstance(ameta[k], dict):
            out.append(f"meta.{k}: type: expected value got nested block {ameta[k]!r}")
        else:
            _diff_value(f"meta.{k}", v, ameta[k], out)
    _diff_nodes("body", m.body, list(doc.sections), out)
    _cmp_strs("doc", "trailing-comments", m.trailing_comments, doc.trailing_comments, out)
    return out


def _value_to_model(v: Any) -> Any:
    t = _tn(v)
    if v is None:
        return MNull()
    if isinstance(v, bool):
        return MBool(v)
    if isinstance(v, int):
        return MInt(v)
    if isinstance(v, float):
        if not math.isfinite(v):
            raise ValueError("non-finite float")
        return MFloat(v)
    if isinstance(v, str):
        return MStr(v)
    if t == "ListValue":
        return MList([_value_to_model(i) for i in v.items])
    if t == "InlineMap":
        return MMap([(str(k), _value_to_model(x)) for k, x in v.pairs.items()])
    if t == "LiteralZoneValue":
        return MZone(v.content, v.info_tag, v.fence_marker)
    if t == "HolographicValue":
        return MRaw(v.raw_pattern, Holo(v.raw_pattern))
    raise ValueError(f"cannot represent value of type {t}")


def _node_to_model(n: Any) -> Any:
    t = _tn(n)
    lead = list(getattr(n, "leading_comments", []) or [])
    if t == "Assignment":
        if n.key == "" and _tn(n.value) == "LiteralZoneValue":
            return MBareZone(_value_to_model(n.value), lead)
        return MAssign(n.key, _value_to_model(n.value), lead, n.trailing_comment)
    if t == "Block":
        return MBlock(n.key, n.target, [_node_to_model(c) for c in n.children], lead)
    if t == "Section":
        return MSection(n.section_id, n.key, n.annotation, [_node_to_model(c) for c in n.children], lead)
    if t == "Comment":
        return MComment(n.text)
    raise ValueError(f"cannot represent node of type {t}")


def ast_to_model(doc: Any) -> MDoc:
    """Best effort (for packaged files). ValueError on Absent, non-finite floats, doubly nested META, unknown nodes."""
    meta: list = []
    for k, v in (doc.meta or {}).items():
        if isinstance(v, dict):
            if any(isinstance(x, dict) for x in v.values()):
                raise ValueError("META nested deeper than one level")
            meta.append((k, [(k2, _value_to_model(v2)) for k2, v2 in v.items()]))
        else:
            meta.append((k, _value_to_model(v)))
    return MDoc(doc.name, doc.grammar_version, doc.raw_frontmatter, meta, bool(doc.has_separator),
                [_node_to_model(n) for n in doc.sections], list(doc.trailing_comments or []))


# --------------------------------------------------------------------------- enumerators

S = MStr
POSITIONS = ("top", "block", "section", "meta", "meta_nested", "list", "list3", "map")


def value_pool(kind: str = "small") -> list:
    small = [
        S("word"), S("needs quote: x"), S(""), MInt(42), MFloat(-3.5), MBool(True), MNull(),
        MList([S("a"), MInt(1)]),
        MList([S("x"), MMap([("k", S("v")), ("n", MInt(2))])]),
        MList([MList([S("a"), S("b")]), MList([])]),
        MZone("line1\n  line2\t`x`", "py", "```"),
        S("hello world"),
    ]
    if kind == "small":
        return small
    if kind != "full":
        raise ValueError(kind)
    strings = [
        # look like numbers / versions
        "123", "-1", "1.5", "1e5", "007", "1.2.3", "1.0-beta", "-", "+1", ".5",
        # reserved words and near misses
        "true", "false", "null", "True", "NULL", "vs", "true.x", "null-1", "vs-1", "truex", "a.true", "META", "END",
        # operators and aliases
        "→", "A→B", "a->b", "A⊕B", "A∧B", "A∨B", "A⧺B", "A⇌B", "x vs y", "A<->B", "+", "~", "|", "&", "a+b", "A→null", "A@B", "@",
        # comments, sections, envelope
        "// not a comment", "a//b", "#", "#tag", "§", "§REF", "§1", "see §6", "===END===", "===X===", "---", "```", "OCTAVE::5",
        # brackets and annotation/constructor look-alikes
        "[a,b]", "[", "]", "a[b]", "NAME<q>", "NAME<A,B>", "NAME<>", "<", "a<b", "{x}", "N{q}", "(g)",
        # separators
        "::", "a::b", ":", "a:b", ",", "a,b",
        # escapes
        'q"uote', '"', "back\\slash", "a\\nb", "a\\tb", "trail\\", "\\", 'a\\"b', "line\nbreak", "tab\there", "a\rb", "\n",
        # identifiers with punctuation, variables, percent
        "a.b", "a-b", "a-", "a/b", "./p", "//", "//cdn/x.js", "/abs/p", "$VAR", "$1:name", "$", "50%", "%", "a b  c",
        # unicode
        "caf\u00e9", "cafe\u0301", "\u65e5\u672c\u8a9e", "\U0001f600", "\u00a0", "a\u200bb", "\u2192\u2192", "a\u2028b", "a\x0cb", "a\x85b", "a\x1eb",
        # whitespace edges and misc punctuation
        " lead", "trail ", "  ", "=", ";", "*", "'", "don't", "a=b", "!", "?",
    ]
    full = list(small)
    full += [S(t) for t in strings]
    full += [MInt(0), MInt(-7), MInt(10**20), MFloat(0.5), MFloat(1.0), MFloat(1e-07), MFloat(1e16), MFloat(-0.0), MFloat(123456.789), MBool(False)]
    full += [
        MList([]), MList([S("a")]), MList([S("a"), S("b"), S("c")]),
        MList([S("x y"), MInt(1), MFloat(2.5), MBool(False), MNull(), S("")]),
        MList([S("true"), S("1"), S("a,b"), S("]")]),
        MList([MRaw("A→B", "A→B"), S("C")]),
        MList([MList([MList([S("deep")])])]),
        MList([MMap([("k", MList([S("a"), S("b")]))])]),
        MList([MMap([("k", MInt(1))]), MMap([("k", MInt(2))])]),
        MList([S("ATHENA<wisdom>"), S("b")]),
        MList([MMap([("a", S("x y")), ("b", MNull()), ("c", MBool(True)), ("d", MFloat(1.5)), ("e", S(""))])]),
        MList([S("a"), MMap([("k", S("v"))]), S("b")]),
        MList([MMap([("REGEX", S("x"))])]),
    ]
    full += [
        MZone("", None, "```"), MZone("x", None, "```"), MZone("x\n", None, "```"), MZone("\n", None, "```"),
        MZone("```py\ninner\n```", "md", "````"), MZone("  indented\n\n\ttab", "yaml", "```"),
        MZone("a\n\n\n\nb\n§1::x\nc  \n\n\n", None, "```"),  # runs of blank lines, a section-like line, trailing spaces: what line-based formatters touch
        MZone("A->B \"q\" \\n café // c\n===END===\n---\nK::v", None, "``````"), MZone("``", "x-y.z", "`````"),
    ]
    full += [
        MRaw("1.2.3", "1.2.3", '"1.2.3"'), MRaw("1.0-beta", "1.0-beta", '"1.0-beta"'), MRaw("$VAR", "$VAR"), MRaw("$1:name", "$1:name"),
        MRaw("§REF", "§REF", '"§REF"'), MRaw("§1", "§1", '"§1"'), MRaw("A→B", "A→B"), MRaw("A→B→C", "A→B→C"), MRaw("A⊕B⊕C", "A⊕B⊕C"),
        MRaw("Speed⇌Quality→Balanced", "Speed⇌Quality→Balanced"), MRaw("X∨Y", "X∨Y"), MRaw("a⧺b⧺c", "a⧺b⧺c"),
        MRaw("A→§TARGET", "A→§TARGET", '"A→§TARGET"'), MRaw("[A∧B∧C]", MList([S("A∧B∧C")])), MRaw("[Latency⇌Accuracy,Cost⇌Quality]", MList([S("Latency⇌Accuracy"), S("Cost⇌Quality")])),
        MRaw("ATHENA<strategic_wisdom>", "ATHENA<strategic_wisdom>"), MRaw("TYPE[STRING]", "TYPE<STRING>", "TYPE<STRING>"), MRaw("ENUM[a,b]", "ENUM<a,b>"),
        MRaw("MODULE:SUB:COMP", "MODULE:SUB:COMP", '"MODULE:SUB:COMP"'), MRaw("-1e10", -1e10, "-10000000000.0"), MRaw("3.14", 3.14), MRaw("1e10", 1e10, "10000000000.0"), MRaw("-0", 0, "0"),
        MRaw('["x"∧REQ→§SELF]', Holo('["x"∧REQ→§SELF]')), MRaw('["ACTIVE"∧REQ∧ENUM[ACTIVE,DRAFT]→§INDEXER]', Holo('["ACTIVE"∧REQ∧ENUM[ACTIVE,DRAFT]→§INDEXER]')),
    ]
    return full


def _atom(v: Any) -> bool:
    return isinstance(v, SCALARS) or (isinstance(v, MRaw) and not isinstance(v.expect, (MList, Holo)))


def allowed_at(v: Any, pos: str) -> bool:
    """Zones only as body assignment values; inline-map values must be atoms or flat lists of atoms (spec §5)."""
    if isinstance(v, MZone):
        return pos in ("top", "block", "section")
    if pos == "map":
        return _atom(v) or (isinstance(v, MList) and all(_atom(i) for i in v.items))
    return True


def place(v: Any, pos: str, key: str = "K") -> MDoc:
    """One-value document with the value at a named position."""
    a = MAssign(key, v)
    d = {
        "top": lambda: MDoc(body=[a]),
        "block": lambda: MDoc(body=[MBlock("B", None, [a])]),
        "section": lambda: MDoc(body=[MSection("1", "SEC", None, [a])]),
        "meta": lambda: MDoc(meta=[(key, v)]),
        "meta_nested": lambda: MDoc(meta=[("N", [(key, v)])]),
        "list": lambda: MDoc(body=[MAssign("L", MList([v]))]),
        "list3": lambda: MDoc(body=[MAssign("L", MList([S("a"), v, S("b")]))]),
        "map": lambda: MDoc(body=[MAssign("L", MList([MMap([(key, v)])]))]),
    }[pos]()
    d.label = f"value@{pos}:{v!r}"[:160]
    return d


_FM = "name: x\ndescription: Agent (Specialist) -> y"
_SECTIONS = [("1", None), ("2b", None), ("12", "ann"), ("CTX", None), ("A1", "a,b"), ("3", "note[x]")]


def _wrap(nodes: list, container: str) -> list:
    if container == "top":
        return nodes
    if container == "block":
        return [MBlock("W", None, nodes)]
    if container == "section":
        return [MSection("1", "W", None, nodes)]
    if container == "nested":
        return [MBlock("W", None, [MBlock("V", None, nodes)]), MAssign("AFTER", MInt(0))]
    raise ValueError(container)


def _tpl(name: str, key: str) -> Any:
    return {
        "assign": lambda: MAssign(key, S("v")),
        "mlist": lambda: MAssign(key, MList([S("a"), S("b"), S("c")])),
        "zone": lambda: MAssign(key, MZone("z", None, "```")),
        "block": lambda: MBlock(key, None, [MAssign("X", MInt(1))]),
        "tblock": lambda: MBlock(key, "TGT", [MAssign("X", MInt(1))]),
        "empty": lambda: MBlock(key, None, []),
        "section": lambda: MSection("2", key, None, [MAssign("X", MInt(1))]),
        "esection": lambda: MSection("3", key, "ann", []),
    }[name]()


def _stage_values() -> Iterator[MDoc]:
    for v in value_pool("full"):
        for pos in POSITIONS:
            if allowed_at(v, pos):
                yield place(v, pos)


def _stage_keys() -> Iterator[MDoc]:
    for k in ("a_b", "_x", "k9", "true", "false", "null", "vs", "END", "OCTAVE", "True", "x" * 40):
        for pos in ("top", "block", "meta", "map"):
            d = place(MInt(1), pos, key=k)
            d.label = f"key {k!r}@{pos}"
            yield d
        d = MDoc(body=[MBlock("B", None, [MAssign(k, MInt(1)), MAssign("Y", MInt(2))]), MBlock(k, None, [MAssign("Y", MInt(2))])], label=f"key {k!r} among siblings / as block key")
        yield d


def _stage_constructor_keys() -> Iterator[MDoc]:
    """fields keyed by a constructor name (PATTERN, REGEX, ENUM, TYPE ...): the emitter has key-specific quoting rules for
    some of them, so every value kind must keep its type there too"""
    vals = [MInt(42), MFloat(1.5), MBool(True), MNull(), MList([MInt(1), MInt(2)]), MList([]), S("bare"), S("x y"), S("^a+$"), S("")]
    for k in ("PATTERN", "REGEX", "ENUM", "TYPE", "CONST"):
        for v in vals:
            for pos in ("top", "block", "section", "map", "meta"):
                if not allowed_at(v, pos):
                    continue
                d = place(v, pos, key=k)
                d.label = f"constructor key {k} = {type(v).__name__}@{pos}"
                yield d


def _stage_envelope() -> Iterator[MDoc]:
    metas = [[], [("TYPE", S("T")), ("VERSION", S("1.0"))], [("TYPE", S("T")), ("N", [("A", MInt(1)), ("B", S("x y"))]), ("TAGS", MList([S("a"), S("b"), S("c")]))]]
    bodies = [[], [MAssign("A", MInt(1))], [MBlock("B", None, [MAssign("C", S("c"))])], [MSection("1", "S", None, [])]]
    for meta, sep, fm, gv, tc, body in itertools.product(metas, (False, True), (None, _FM), (None, "5.1.0"), ([], ["end"]), bodies):
        yield MDoc("Doc_1" if gv else "DOC", gv, fm, list(meta), sep, [replace(n) for n in body], list(tc),
                   label=f"envelope meta={len(meta)} sep={sep} fm={fm is not None} gv={gv} tc={tc} body={len(body)}")


def _stage_comments() -> Iterator[MDoc]:
    names = ("assign", "block", "empty", "section")
    for container in ("top", "block", "section", "nested"):
        for n1, n2 in itertools.product(names, names):
            for deco in ("lead2", "lead1", "trail1", "trail2", "mid-orphan", "none"):
                for tail in (False, True):
                    a, b = _tpl(n1, "P"), _tpl(n2, "Q")
                    if deco == "lead2":
                        b.leading_comments = ["about Q", "second :: line → x"]
                    elif deco == "lead1":
                        a.leading_comments = ["about P"]
                    elif deco in ("trail1", "trail2"):
                        t = a if deco == "trail1" else b
                        if not isinstance(t, MAssign):
                            continue
                        t.trailing_comment = "why \"q\" // more"
                    elif deco == "mid-orphan":
                        for t in (a, b):
                            if isinstance(t, (MBlock, MSection)):
                                t.children = t.children + [MComment("inner tail")]
                    elif not tail:
                        continue
                    nodes = [a, b]
                    d = MDoc(label=f"comments {container} {n1},{n2} {deco} tail={tail}")
                    if tail and container == "top":
                        d.trailing_comments = ["the end"]
                    elif tail:
                        nodes = nodes + [MComment("the end")]
                    d.body = _wrap(nodes, container)
                    yield d


def _stage_dups() -> Iterator[MDoc]:
    for container in ("top", "block", "section"):
        for n1, n2 in (("assign", "assign"), ("assign", "block"), ("block", "block"), ("block", "assign"), ("section", "section"), ("assign", "mlist")):
            a, b = _tpl(n1, "DUP"), _tpl(n2, "DUP")
            if isinstance(b, MAssign):
                b.value = S("second")
            yield MDoc(body=_wrap([a, MAssign("MID", MInt(0)), b], container), label=f"dup keys {container} {n1},{n2}")
            yield MDoc(body=_wrap([a, b], container), label=f"dup keys adjacent {container} {n1},{n2}")


def _stage_sections_blocks() -> Iterator[MDoc]:
    for container in ("top", "block", "section", "nested"):
        for (sid, ann), kids in itertools.product(_SECTIONS, (0, 1, 2)):
            ch = [MAssign("X", MInt(1)), MBlock("Y", None, [MAssign("Z", S("z"))])][:kids]
            for follow in (None, "assign", "section"):
                nodes = [MSection(sid, "NAME", ann, ch)] + ([_tpl(follow, "NEXT")] if follow else [])
                yield MDoc(body=_wrap(nodes, container), label=f"section §{sid} ann={ann} kids={kids} follow={follow} in {container}")
        for tgt, kids in itertools.product((None, "T", "RISK_LOG"), (0, 1, 2)):
            ch = [MAssign("X", MList([S("a"), S("b"), S("c")])), MBlock("Y", "INNER" if tgt else None, [MAssign("Z", MNull())])][:kids]
            for follow in (None, "assign", "tblock"):
                nodes = [MBlock("BLK", tgt, ch)] + ([_tpl(follow, "NEXT")] if follow else [])
                yield MDoc(body=_wrap(nodes, container), label=f"block target={tgt} kids={kids} follow={follow} in {container}")


def _stage_zones() -> Iterator[MDoc]:
    zs = [MZone("raw", None, "```"), MZone("", "py", "```"), MZone("  a\n\tb\n", "x", "````")]
    for z in zs:
        for before, after in itertools.product((None, "assign", "block"), (None, "assign", "block", "zone")):
            kids = ([_tpl(before, "P")] if before else []) + [MBareZone(z)] + ([_tpl(after, "Q")] if after else [])
            yield MDoc(body=[MBlock("B", None, kids), MAssign("AFTER", MInt(0))], label=f"bare zone before={before} after={after}")
            yield MDoc(body=[MBlock("O", None, [MBlock("B", None, kids), MAssign("IN", MInt(1))])], label=f"bare zone nested before={before} after={after}")
            if before is None:
                yield MDoc(body=[MBlock("B", None, [MBareZone(z, ["about zone"])] + kids[1:])], label=f"bare zone with leading comment after={after}")
        for container in ("top", "block", "section", "nested"):
            for before, after in itertools.product((None, "assign"), (None, "assign", "block", "section", "zone")):
                nodes = ([_tpl(before, "P")] if before else []) + [MAssign("Z", z, ["about Z"] if before else [])] + ([_tpl(after, "Q")] if after else [])
                yield MDoc(body=_wrap(nodes, container), label=f"zone assignment in {container} before={before} after={after}")


def _stage_line_bookkeeping() -> Iterator[MDoc]:
    """a token that spans lines, or contains a character some line-splitting routines treat as a line break,
    followed by nodes that carry lenient rewrite sites (operators, quotable/multi-word strings, lists): every
    later position (receipts, errors) depends on the reader counting \\n and nothing else"""
    seps = ["\r", "\x0b", "\x0c", "\x1c", "\x1d", "\x1e", "\x85", "\u2028", "\u2029", "\r\n"]
    tail = [MAssign("F", MRaw("A→B→C", "A→B→C")), MAssign("W", S("multi word value")), MAssign("L", MList([S("a"), S("x y"), MRaw("P⊕Q", "P⊕Q")])), MBlock("B", None, [MAssign("T", MRaw("X⇌Y", "X⇌Y"))])]
    for sp in seps:
        yield MDoc(body=[MAssign("S", S(f"a{sp}b{sp}"))] + tail, label=f"string with {sp!r} then rewrite sites")
        yield MDoc(body=[MAssign("S", MList([S(f"p{sp}q"), S("r")]))] + tail, label=f"list item with {sp!r} then rewrite sites")
        if "\n" not in sp and "\r" not in sp:
            yield MDoc(body=[MComment(f"note{sp}more")] + tail, label=f"comment with {sp!r} then rewrite sites")
    yield MDoc(body=[MAssign("S", S("line1\nline2\nline3"))] + tail, label="multi-line string then rewrite sites")
    yield MDoc(body=[MAssign("Z", MZone("l1\nl2\n\nl4", None, "```"))] + tail, label="zone then rewrite sites")
    yield MDoc(body=[MAssign("Z", MZone("a\u2028b\x0cc\rd", "t", "````"))] + tail, label="zone with separators then rewrite sites")


# -- structural trees: leaf A, containers B (block) / S (section)


def _count_trees(depth: int, sib: int) -> int:
    t = 1
    for _ in range(depth):
        t = 1 + 2 * sum(t**k for k in range(sib + 1))
    return t


def _trees(depth: int, sib: int) -> Iterator[tuple]:
    yield ("A",)
    if depth == 0:
        return
    for kind in "BS":
        for k in range(sib + 1):
            for kids in itertools.product(*[list(_trees(depth - 1, sib))] * k):
                yield (kind, kids)


def _rand_tree(rng: random.Random, depth: int, sib: int) -> tuple:
    if depth == 0 or rng.random() < 0.4:
        return ("A",)
    return (rng.choice("BS"), tuple(_rand_tree(rng, depth - 1, sib) for _ in range(rng.randint(0, sib))))


def _instantiate(shapes: tuple, ctr: itertools.count, rng: random.Random | None = None) -> list:
    pool = value_pool("small")
    keys = ("A", "B", "C", "D", "E", "F")

    def build(shape: tuple, i: int, lvl: int) -> Any:
        n = next(ctr)
        key = rng.choice(keys[:3]) if rng else keys[(i + lvl) % 6]
        if shape[0] == "A":
            return MAssign(key, pool[n % len(pool)], ["c%d" % n] if n % 7 == 3 else [], "t%d" % n if n % 5 == 2 and not isinstance(pool[n % len(pool)], MZone) else None)
        kids = [build(s, j, lvl + 1) for j, s in enumerate(shape[1])]
        if n % 4 == 1 and kids:
            kids.append(MComment("o%d" % n))
        if shape[0] == "B":
            return MBlock(key, "T%d" % n if n % 3 == 0 else None, kids)
        sid, ann = _SECTIONS[n % len(_SECTIONS)]
        return MSection(sid, key, ann, kids)

    return [build(s, i, 0) for i, s in enumerate(shapes)]


def documents(max_depth: int = 2, max_siblings: int = 2, seed: int = 0, limit: int = 5000) -> Iterator[MDoc]:
    """Small documents: fixed systematic stages (values x positions, keys, envelope features, comments, duplicate
    keys, sections/blocks, zones) then document bodies of 1..max_siblings trees of depth <= max_depth, all of
    them when they fit in what is left of `limit`, else a seeded random sample. Deterministic per seed."""
    rng = random.Random(seed)
    n = 0
    for stage in (_stage_values, _stage_keys, _stage_constructor_keys, _stage_envelope, _stage_comments, _stage_dups, _stage_sections_blocks, _stage_zones, _stage_line_bookkeeping):
        for d in stage():
            if n >= limit:
                return
            n += 1
            yield d
    t = _count_trees(max_depth, max_siblings)
    total = sum(t**k for k in range(1, max_siblings + 1))
    ctr = itertools.count()
    if total <= limit - n:
        trees = list(_trees(max_depth, max_siblings))
        for k in range(1, max_siblings + 1):
            for shapes in itertools.product(trees, repeat=k):
                yield MDoc(body=_instantiate(shapes, ctr), meta=[("TYPE", S("T"))] if next(ctr) % 2 else [], label=f"tree {shapes!r}"[:160])
        return
    while n < limit:
        n += 1
        shapes = tuple(_rand_tree(rng, max_depth, max_siblings) for _ in range(rng.randint(1, max_siblings)))
        yield MDoc(body=_instantiate(shapes, ctr, rng), meta=[("TYPE", S("T"))] if rng.random() < 0.5 else [],
                   has_separator=rng.random() < 0.3, label=f"random tree {shapes!r}"[:160])


__all__ = [
    "MDoc", "MAssign", "MBlock", "MSection", "MComment", "MBareZone", "MStr", "MInt", "MFloat", "MBool", "MNull", "MList", "MMap",
    "MZone", "MRaw", "Holo", "Site", "Rewrite", "render_canonical", "lenient_sites", "render_lenient", "render_all_lenient",
    "diff_model_vs_ast", "ast_to_model", "normalize", "value_pool", "allowed_at", "place", "documents", "bare_form", "needs_multiline", "POSITIONS",
]
