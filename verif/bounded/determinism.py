"""C06 bounded stand-in / replay aid: a battery of real calls whose JSON-able results are compared
across processes (PYTHONHASHSEED, cwd, LANG), against a long-lived process that served other calls
first, and sequential vs concurrently scheduled asyncio tool calls. Timestamps are masked."""
from __future__ import annotations

import asyncio
import json
import os
import random
import re
import subprocess
import sys
import tempfile
from pathlib import Path

from verif.common import REPO, VERIF

DOCS = {
    "plain": "===DOC===\nMETA:\n  TYPE::SESSION_LOG\n  VERSION::\"1.0\"\n  STATUS::ACTIVE\n---\nA::1\nB::two words here\nL::[a,b,c,d]\nBLK:\n  X::true\n  Y::null\n§1::SEC\n  Z::3.5\n===END===\n",
    "lenient": "===DOC===\nFLOW::A->B->C\nT::x vs y\nS::a+b\nM::[k::v, k2::\"q r\"]\nTAG::NAME{qual}\nQ::\"\"\"triple\"\"\"\n",
    "zones": "===DOC===\nCODE::\n```python\nprint('é\\t')\n```\nB:\n  ```\n  raw\n  ```\n===END===\n",
    "sets": "===DOC===\nSTATUS::x\nRISKS::[r1,r2]\nDECISIONS::d\nTESTS::t\nCI::c\nDEPS::[d1]\nOTHER::o\n===END===\n",
    "holo_schema": '===SCH===\nMETA:\n  TYPE::PROTOCOL_DEFINITION\n  VERSION::"1.0"\nPOLICY:\n  VERSION::"1.0"\n  UNKNOWN_FIELDS::WARN\n  TARGETS::[§INDEXER]\nFIELDS:\n  NAME::["x"∧REQ→§INDEXER]\n  KIND::["A"∧ENUM[A,B]→§INDEXER]\n===END===\n',
    "bad_schema": '===BAD===\nMETA:\n  TYPE::PROTOCOL_DEFINITION\n  VERSION::"1.0"\nPOLICY:\n  VERSION::"1.0"\n  UNKNOWN_FIELDS::REJECT\nFIELDS:\n  STATUS::["ACTIVE"∧REQ∧ENUM[DRAFT,ACTIVE,DEPRECATED,DONE,DORMANT]]\n  N::[5∧OPT∧TYPE[NUMBER]∧RANGE[1,10]]\n  D::["aa"∧OPT∧REGEX["^a+$"]]\n  C::["X"∧OPT∧CONST[X]]\n  T::["s"∧OPT∧TYPE[STRING]∧MAX_LENGTH[2]]\n  MISSING::["m"∧REQ]\n===END===\n',
    "bad_instance": '===INST===\nBAD:\n  STATUS::D\n  N::77\n  D::bbb\n  C::Y\n  T::toolong\n  ZZ::1\n  AA::2\n  MM::3\n  Zz::4\n  zz::5\n  aa::6\n  Aa::7\n===END===\n',
    "holo_instance": '===INST===\nSCH:\n  NAME::["y"∧REQ]\n  KIND::A\n  EXTRA2::1\n  EXTRA1::2\n===END===\n',
}


def _mask(obj):
    if isinstance(obj, dict):
        return {k: ("<ts>" if k == "timestamp" else _mask(v)) for k, v in obj.items()}
    if isinstance(obj, list):
        return [_mask(x) for x in obj]
    if isinstance(obj, str):
        return re.sub(r"0x[0-9a-f]{6,}", lambda m: m.group(0), obj)
    return obj


def _j(x) -> str:
    return json.dumps(_mask(x), sort_keys=True, default=repr, ensure_ascii=False)


def battery() -> dict[str, str]:
    from octave_mcp.core.emitter import emit
    from octave_mcp.core.gbnf_compiler import GBNFCompiler
    from octave_mcp.core.lexer import tokenize
    from octave_mcp.core.parser import parse, parse_with_warnings
    from octave_mcp.core.projector import project
    from octave_mcp.core.schema_extractor import extract_schema_from_document
    from octave_mcp.core.sealer import seal_document, verify_seal
    from octave_mcp.core.validator import Validator
    from octave_mcp.mcp.compile_grammar import CompileGrammarTool
    from octave_mcp.mcp.eject import EjectTool
    from octave_mcp.mcp.validate import ValidateTool
    from octave_mcp.mcp.write import WriteTool

    out: dict[str, str] = {}
    for name, text in DOCS.items():
        try:
            toks, reps = tokenize(text)
            out[f"tokenize.{name}"] = _j([(t.type.name, t.value if not isinstance(t.value, dict) else t.value, t.line, t.column) for t in toks]) + _j(reps)
        except Exception as e:  # noqa: BLE001
            out[f"tokenize.{name}"] = f"{type(e).__name__}: {e}"
        try:
            doc, warns = parse_with_warnings(text)
            can = emit(doc)
            out[f"canon.{name}"] = can
            out[f"warnings.{name}"] = _j(warns)
            sealed = seal_document(doc)
            out[f"seal.{name}"] = emit(sealed) + verify_seal(sealed).status.value
            for mode in ("canonical", "executive", "developer"):
                out[f"project.{name}.{mode}"] = project(doc, mode).output
        except Exception as e:  # noqa: BLE001
            out[f"canon.{name}"] = f"{type(e).__name__}: {e}"
    # holographic routing through the validator API
    try:
        sch = extract_schema_from_document(parse(DOCS["holo_schema"]))
        inst = parse(DOCS["holo_instance"])
        v = Validator(schema=None)
        errs = v.validate(inst, strict=False, section_schemas={sch.name: sch})
        out["validator.holo.errors"] = _j([(e.code, e.field_path, e.message) for e in errs])
        out["validator.holo.routing"] = _j(v.routing_log.to_dict())
        out["gbnf.holo"] = GBNFCompiler().compile_schema(sch, include_envelope=True)
        # every kind of constraint failure (ambiguous ENUM prefix, RANGE, REGEX, CONST, MAX_LENGTH, missing REQ, unknown fields)
        bsch = extract_schema_from_document(parse(DOCS["bad_schema"]))
        bv = Validator(schema=None)
        berrs = bv.validate(parse(DOCS["bad_instance"]), strict=True, section_schemas={bsch.name: bsch})
        out["validator.bad.errors"] = _j([(e.code, e.field_path, e.message) for e in berrs])
        out["gbnf.bad"] = GBNFCompiler().compile_schema(bsch, include_envelope=True)
    except Exception as e:  # noqa: BLE001
        out["validator.holo"] = f"{type(e).__name__}: {e}"

    async def tools(concurrent: bool) -> dict[str, str]:
        calls = []
        for name, text in DOCS.items():
            for schema in ("META", "SESSION_LOG", "NOPE"):
                for kw in ({}, {"fix": True}, {"profile": "STRICT"}, {"compact": True, "diff_only": True}):
                    calls.append((f"validate.{name}.{schema}.{_j(kw)}", ValidateTool().execute(content=text, schema=schema, **kw)))
            for fmt in ("octave", "json", "yaml", "markdown", "gbnf"):
                for mode in ("canonical", "executive"):
                    calls.append((f"eject.{name}.{fmt}.{mode}", _safe(EjectTool().execute(content=text, schema="META", mode=mode, format=fmt))))
        for schema in ("META", "SESSION_LOG", "DEBATE_TRANSCRIPT", "NOPE"):
            calls.append((f"grammar.{schema}", _safe(CompileGrammarTool().execute(schema=schema))))
        d = tempfile.mkdtemp(prefix="vf-det-")
        try:
            for i, (name, text) in enumerate(DOCS.items()):
                p = os.path.join(d, f"f{i}.oct.md")
                calls.append((f"write.{name}", WriteTool().execute(target_path=p, content=text, lenient=True, schema="META")))
                calls.append((f"write.dry.{name}", WriteTool().execute(target_path=os.path.join(d, f"g{i}.oct.md"), content=text, corrections_only=True)))
            if concurrent:
                res = await asyncio.gather(*[c for _, c in calls])
            else:
                res = [await c for _, c in calls]
        finally:
            import shutil

            shutil.rmtree(d, ignore_errors=True)
        r = {}
        for (n, _), x in zip(calls, res):
            s = _j(x)
            r[n] = s.replace(d, "<tmp>")
        return r

    async def _safe_coro(c):
        try:
            return await c
        except Exception as e:  # noqa: BLE001
            return {"raised": f"{type(e).__name__}: {e}"}

    def _safe(c):
        return _safe_coro(c)

    out.update({f"seq.{k}": v for k, v in asyncio.run(tools(False)).items()})
    conc = asyncio.run(tools(True))
    for k, v in conc.items():
        if out.get(f"seq.{k}") != v:
            out[f"CONCURRENT-DIFFERS.{k}"] = v
    return out


def long_lived(seed: int) -> dict[str, str]:
    """The same battery after the process has served a shuffled sequence of other calls."""
    from octave_mcp.core.parser import parse_with_warnings
    from octave_mcp.core.emitter import emit

    rnd = random.Random(seed)
    texts = list(DOCS.values()) + ["===X===\nA::[1,2,3]\n===END===\n", "junk ::: [", "===Y===\nK::v\n"]
    for _ in range(40):
        t = rnd.choice(texts)
        try:
            emit(parse_with_warnings(t)[0])
        except Exception:  # noqa: BLE001
            pass
    first = battery()
    second = battery()
    for k, v in second.items():
        if first.get(k) != v:
            first[f"SECOND-RUN-DIFFERS.{k}"] = v
    return first


def run_child(env_over: dict[str, str], cwd: str, long: bool, seed: int) -> dict[str, str]:
    env = dict(os.environ)
    env.update(env_over)
    env["PYTHONPATH"] = f"{REPO}/src:{VERIF}"
    code = f"import json,sys; from verif.bounded import determinism as d; print(json.dumps(d.long_lived({seed}) if {long!r} else d.battery()))"
    p = subprocess.run([sys.executable, "-c", code], cwd=cwd, env=env, capture_output=True, text=True, timeout=600)
    if p.returncode != 0:
        raise RuntimeError(f"battery child failed: {p.stderr[-2000:]}")
    return json.loads(p.stdout.splitlines()[-1])


def compare_runs(configs: list[tuple[dict, bool]], seed: int) -> tuple[int, int, list[tuple[str, str, str]]]:
    """returns (n calls per run, n runs, differences[(call, config a, config b)])"""
    dirs = [tempfile.mkdtemp(prefix="vf-cwd-") for _ in configs]
    try:
        from concurrent.futures import ThreadPoolExecutor

        with ThreadPoolExecutor(len(configs)) as ex:
            futs = [ex.submit(run_child, env, d, long, seed) for (env, long), d in zip(configs, dirs)]
            runs = [f.result() for f in futs]
    finally:
        import shutil

        for d in dirs:
            shutil.rmtree(d, ignore_errors=True)
    base = runs[0]
    diffs = []
    for i, r in enumerate(runs[1:], 1):
        for k in sorted(set(base) | set(r)):
            if base.get(k) != r.get(k):
                diffs.append((k, json.dumps(configs[0][0]), json.dumps(configs[i][0]) + (" long-lived" if configs[i][1] else "")))
    for r in runs:
        for k in r:
            if k.startswith(("CONCURRENT-DIFFERS", "SECOND-RUN-DIFFERS")):
                diffs.append((k, "same process", "same process"))
    return len(base), len(runs), diffs
