"""Sharded execution of bounded (B-tier) sweeps over the real code."""
from __future__ import annotations

import itertools
import multiprocessing as mp
import os
from typing import Any, Callable, Iterable, Sequence

_FN: Callable | None = None


def _init(fn: Callable) -> None:
    global _FN
    _FN = fn


def _run_chunk(chunk: Sequence[Any]) -> tuple[int, int, list, set]:
    """returns (evaluations, nontrivial, failures[(item, text)], distinct signatures)"""
    assert _FN is not None
    ev = 0
    nontriv = 0
    fails = []
    sigs = set()
    for item in chunk:
        r = _FN(item)
        if r is None:
            continue
        # r = (failed: bool, text: str, nontrivial: bool, signature)
        failed, text, nt, sig = r
        ev += 1
        if nt:
            nontriv += 1
            if sig is not None:
                try:
                    sigs.add(sig)
                except TypeError:
                    sigs.add(repr(sig))
        if failed:
            fails.append((item, text))
    return ev, nontriv, fails, sigs


def chunks(it: Iterable[Any], size: int):
    it = iter(it)
    while True:
        c = list(itertools.islice(it, size))
        if not c:
            return
        yield c


def sweep(fn: Callable[[Any], tuple | None], items: Iterable[Any], cores: int | None = None, chunk: int = 2000, max_fail: int = 5000) -> dict:
    """fn(item) -> None (skipped) or (failed, text, nontrivial, signature). fn must be a module-level function."""
    cores = cores or int(os.environ.get("VERIF_CORES", os.cpu_count() or 4))
    ev = nt = 0
    fails: list = []
    sigs: set = set()
    if cores <= 1:
        _init(fn)
        for c in chunks(items, chunk):
            a, b, f, s = _run_chunk(c)
            ev += a
            nt += b
            fails.extend(f)
            sigs |= s
    else:
        with mp.get_context("fork").Pool(cores, initializer=_init, initargs=(fn,)) as pool:
            for a, b, f, s in pool.imap_unordered(_run_chunk, chunks(items, chunk)):
                ev += a
                nt += b
                if len(fails) < max_fail:
                    fails.extend(f)
                sigs |= s
    return {"evaluations": ev, "nontrivial": nt, "failures": fails, "distinct": len(sigs)}
