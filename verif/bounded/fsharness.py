"""Bounded fault-injection / kill-point harness for the OCTAVE write paths (C16, C17 part).

Every run executes the REAL function (`WriteTool.execute` or `atomic_write_octave`) in a forked
child inside a fresh `vf-fs-*` temp dir.  In the child the file-system entry points the write paths
use are replaced by counting gates; only calls that touch the scenario directory are counted, in
one global sequence 0,1,2,...  Modes: trace (no fault) / fail (k-th call raises OSError before doing
anything) / kill (`os._exit(137)` right before or right after the k-th call).  The parent snapshots
the directory before and after and applies pure oracles.

Fault model notes
  * outermost gate only: calls made *inside* a gated call (os.stat under Path.exists, os.mkdir under
    Path.mkdir, os.open under mkstemp, io.open under os.fdopen / Path.read_text) are not separate
    points; `io.open` reached that way is not `builtins.open`, so there is no double count.
  * `os.path.exists` never raises OSError in CPython (genericpath swallows it): an injected fault
    there makes it return False instead of raising.
  * a kill is a process kill (python-level buffers lost, kernel page cache kept), not a power loss;
    fsync ordering / missing directory fsync are outside this model.
  * a leftover `*.tmp` after a *kill* is unavoidable for any implementation: recorded as info only.
"""
from __future__ import annotations

import builtins
import errno as _errno
import hashlib
import importlib
import json
import multiprocessing as mp
import os
import pathlib
import shutil
import signal
import stat as _stat
import sys
import tempfile
import traceback
from typing import Any, Callable

NEW = "===DOC===\nMETA:\n  TYPE::X\nA::1\nB::two\n===END===\n"
OLD = "===DOC===\nA::old\nC::3\n===END===\n"
LENIENT = "===DOC===\nA::x->y\nC :: 3\n===END===\n"  # normalises to A::x→y / C::3
ERRNOS = ("ENOSPC", "EACCES", "EIO", "EINTR", "EROFS")
TARGET_MODULES = ("octave_mcp.mcp.write", "octave_mcp.core.file_ops")
INFO_LABELS = ("kill_leftover_tmp", "kill_leftover_dir", "pair_k2_not_reached", "excluded_cleanup_fault")

# errnos the operation behind each entry point can plausibly produce on Linux (EINTR is retried by
# CPython since PEP 475, so it never surfaces as OSError).  Used only to annotate violations.
_W = {"ENOSPC", "EACCES", "EIO", "EROFS"}
_R = {"EACCES", "EIO"}
PLAUSIBLE = {
    "os.stat": _R, "os.path.exists": _R, "Path.exists": _R, "Path.is_symlink": _R, "Path.resolve": _R,
    "Path.absolute": set(), "Path.read_text": _R, "Path.mkdir": _W, "tempfile.mkstemp": _W,
    "os.fchmod": {"EIO", "EROFS"}, "os.fdopen": set(), "os.fsync": {"ENOSPC", "EIO", "EROFS"},
    "os.replace": _W, "os.unlink": {"EACCES", "EIO", "EROFS"}, "open": _W,
    "file.write": {"ENOSPC", "EIO"}, "file.flush": {"ENOSPC", "EIO"}, "file.close": {"ENOSPC", "EIO"},
    "file.read": {"EIO"},
}


def _sha(text: str) -> str:
    return hashlib.sha256(text.encode("utf-8")).hexdigest()


# ------------------------------------------------------------------ scenario table (data)
def scenarios() -> list[dict]:
    """tool: write_tool -> WriteTool().execute(target_path=<abs target>, **call)
             atomic     -> atomic_write_octave(<abs target>, **call)
             func       -> <module:function>(<abs target>, **call)
    pre: files created before the call {relpath: {"text", "mode"}};  expect: "success" | "error:<substr>"."""
    T, bad = "x.oct.md", "0" * 64
    old_f = {T: {"text": OLD, "mode": 0o640}}
    len_f = {T: {"text": LENIENT, "mode": 0o640}}
    ro_f = {T: {"text": OLD, "mode": 0o444}}
    out: list[dict] = []

    def add(name: str, tool: str, pre: dict, call: dict, expect: str = "success", target: str = T) -> None:
        call = {a: b for a, b in call.items() if b is not None}
        out.append({"name": name, "tool": tool, "target": target, "pre": pre, "call": call, "expect": expect})

    for tag, h_old, h_len in (("nohash", None, None), ("hashok", _sha(OLD), _sha(LENIENT)), ("hashbad", bad, bad)):
        exp = "error:E_HASH" if tag == "hashbad" else "success"
        add(f"wt_new_{tag}", "write_tool", {}, {"content": NEW, "base_hash": h_old})  # absent file: hash ignored
        add(f"wt_overwrite_{tag}", "write_tool", old_f, {"content": NEW, "base_hash": h_old}, exp)
        add(f"wt_changes_{tag}", "write_tool", old_f, {"changes": {"A": "new"}, "base_hash": h_old}, exp)
        add(f"wt_normalize_{tag}", "write_tool", len_f, {"base_hash": h_len}, exp)
        add(f"at_overwrite_{tag}", "atomic", old_f, {"content": NEW, "base_hash": h_old},
            "error:Hash mismatch" if tag == "hashbad" else "success")
    # the target already holds the new text - byte for byte, or with CRLF / lone CR line ends (a text-mode read cannot
    # tell those apart): success still means the file's bytes hash to canonical_hash
    crlf_f = {T: {"text": NEW.replace("\n", "\r\n"), "mode": 0o640}}
    add("wt_overwrite_same", "write_tool", {T: {"text": NEW, "mode": 0o640}}, {"content": NEW})
    add("wt_overwrite_same_crlf", "write_tool", crlf_f, {"content": NEW})
    add("wt_normalize_crlf", "write_tool", {T: {"text": OLD.replace("\n", "\r\n"), "mode": 0o640}}, {})
    add("wt_changes_noop_crlf", "write_tool", {T: {"text": OLD.replace("\n", "\r\n"), "mode": 0o640}}, {"changes": {}})
    add("at_overwrite_same_crlf", "atomic", crlf_f, {"content": NEW})
    # text that cannot be encoded (a lone surrogate survives parse and emit): the write fails with a NON-OSError after the
    # temp file exists - an error return must still leave no temp file, no created directory, the target as it was
    SUR = '===DOC===\nA::"x\udc80y"\n===END===\n'
    add("at_new_unencodable", "atomic", {}, {"content": SUR}, "error:")
    add("at_overwrite_unencodable", "atomic", old_f, {"content": SUR}, "error:")
    add("at_missing_parent_unencodable", "atomic", {}, {"content": SUR}, "error:", target="sub/dir/x.oct.md")
    add("wt_overwrite_unencodable", "write_tool", old_f, {"content": SUR}, "error:")
    add("wt_missing_parent", "write_tool", {}, {"content": NEW}, target="sub/dir/x.oct.md")
    # the nearest existing ancestor is an EMPTY directory that was there before: a failed write must leave it in place
    empty_d = {"keep": {"dir": True, "mode": 0o750}, "other.txt": {"text": "x", "mode": 0o640}}
    add("wt_missing_parent_under_empty_dir", "write_tool", empty_d, {"content": NEW}, target="keep/2026/q3/x.oct.md")
    add("at_missing_parent_under_empty_dir", "atomic", empty_d, {"content": NEW}, target="keep/2026/q3/x.oct.md")
    add("wt_readonly", "write_tool", ro_f, {"content": NEW})
    add("wt_corrections_only", "write_tool", old_f, {"content": NEW, "corrections_only": True})
    add("wt_corrections_only_missing_parent", "write_tool", {}, {"content": NEW, "corrections_only": True},
        target="sub/dir/x.oct.md")
    add("at_new", "atomic", {}, {"content": NEW})
    add("at_missing_parent", "atomic", {}, {"content": NEW}, target="sub/dir/x.oct.md")
    add("at_readonly", "atomic", ro_f, {"content": NEW})
    return out


# ------------------------------------------------------------------ child side: counting gates
class _Ctl:
    def __init__(self, root: str, mode: str, ks: tuple = (), err: str | None = None, when: str | None = None):
        self.root, self.mode, self.ks, self.err, self.when = root, mode, tuple(x for x in ks if x is not None), err, when
        self.calls: list[list] = []
        self.injected: list[list] = []
        self.n = 0
        self.depth = 0
        self.fds: dict[int, str] = {}  # fds opened inside root -> label
        self.action: Callable[[], Any] | None = None  # mode "act": run once, ungated, right before the k-th counted call
        self.acted = False
        self.other: Any = None


def _gate(C: _Ctl, name: str, arg: str, real: Callable[[], Any], soft: bool = False) -> Any:
    if C.depth:  # nested under an already counted call
        return real()
    idx = C.n
    C.n += 1
    C.calls.append([idx, name, arg])
    hit = idx in C.ks
    if hit and C.mode == "act" and not C.acted and C.action is not None:
        C.acted = True
        C.depth += 1  # the other actor's own file operations are not counted and not faulted
        try:
            C.other = C.action()
        except BaseException as e:  # noqa: BLE001
            C.other = {"status": "raised", "exception": f"{type(e).__name__}: {e}"}
        finally:
            C.depth -= 1
    if hit and C.mode == "kill" and C.when == "before":
        os._exit(137)
    if hit and C.mode == "fail":
        C.injected.append([idx, name, arg])
        if soft:
            return False
        raise OSError(getattr(_errno, C.err), f"injected {C.err} at #{idx} {name}")  # EACCES -> PermissionError
    C.depth += 1
    try:
        return real()
    finally:
        C.depth -= 1
        if hit and C.mode == "kill" and C.when == "after":
            os._exit(137)


def _label(C: _Ctl, p: Any) -> str | None:
    """short label if p (path-like or tracked fd) lies inside the scenario root, else None."""
    if isinstance(p, int):
        return C.fds.get(p)
    try:
        s = os.fspath(p)
    except TypeError:
        return None
    if isinstance(s, bytes):
        s = os.fsdecode(s)
    a = os.path.abspath(s)
    if a == C.root:
        return "."
    return a[len(C.root) + 1:] if a.startswith(C.root + os.sep) else None


class _FileProxy:
    """thin proxy: write/flush/close/read are counted, everything else delegates."""

    def __init__(self, C: _Ctl, f: Any, lab: str):
        self.__dict__.update(_C=C, _f=f, _lab=lab)

    def write(self, data):
        return _gate(self._C, "file.write", self._lab, lambda: self._f.write(data))

    def read(self, *a):
        return _gate(self._C, "file.read", self._lab, lambda: self._f.read(*a))

    def flush(self):
        return _gate(self._C, "file.flush", self._lab, self._f.flush)

    def close(self):
        return _gate(self._C, "file.close", self._lab, self._f.close)

    def __enter__(self):
        return self

    def __exit__(self, *exc):
        self.close()
        return False

    def __getattr__(self, n):
        return getattr(self._f, n)


def _install(C: _Ctl) -> None:
    """Replace the entry points by attribute assignment on os / os.path / tempfile / builtins / pathlib.Path,
    and rebind any `from x import y` copies of the originals found in the target modules."""
    swapped: list[tuple[Any, Any]] = []

    def put(holder: Any, attr: str, new: Any) -> None:
        swapped.append((getattr(holder, attr), new))
        setattr(holder, attr, new)

    def path_first(holder: Any, attr: str, name: str, soft: bool = False) -> None:
        orig = getattr(holder, attr)

        def w(p, *a, **kw):
            lab = _label(C, p)
            if lab is None:
                return orig(p, *a, **kw)
            return _gate(C, name, lab, lambda: orig(p, *a, **kw), soft)

        w.__name__ = attr
        put(holder, attr, w)

    for attr in ("stat", "unlink", "fchmod", "fsync"):
        path_first(os, attr, f"os.{attr}")
    path_first(os.path, "exists", "os.path.exists", soft=True)
    for attr in ("exists", "is_symlink", "mkdir", "read_text", "resolve", "absolute"):
        path_first(pathlib.Path, attr, f"Path.{attr}")

    o_replace, o_fdopen, o_mkstemp, o_open = os.replace, os.fdopen, tempfile.mkstemp, builtins.open

    def p_replace(src, dst, *a, **kw):
        ls, ld = _label(C, src), _label(C, dst)
        if ls is None and ld is None:
            return o_replace(src, dst, *a, **kw)
        return _gate(C, "os.replace", f"{ls} -> {ld}", lambda: o_replace(src, dst, *a, **kw))

    def p_fdopen(fd, *a, **kw):
        lab = _label(C, fd)
        if lab is None:
            return o_fdopen(fd, *a, **kw)
        return _FileProxy(C, _gate(C, "os.fdopen", lab, lambda: o_fdopen(fd, *a, **kw)), lab)

    def p_mkstemp(suffix=None, prefix=None, dir=None, text=False):
        if dir is None or _label(C, dir) is None:
            return o_mkstemp(suffix, prefix, dir, text)
        counted = not C.depth
        fd, name = _gate(C, "tempfile.mkstemp", f"dir={_label(C, dir)}", lambda: o_mkstemp(suffix, prefix, dir, text))
        C.fds[fd] = _label(C, name) or name  # later fchmod/fdopen/fsync on this fd are in scope
        if counted:
            C.calls[-1][2] += f" => {C.fds[fd]}"
        return fd, name

    def p_open(file, *a, **kw):
        lab = _label(C, file)
        if lab is None:
            return o_open(file, *a, **kw)
        mode = a[0] if a else kw.get("mode", "r")
        return _FileProxy(C, _gate(C, "open", f"{lab} [{mode}]", lambda: o_open(file, *a, **kw)), lab)

    put(os, "replace", p_replace)
    put(os, "fdopen", p_fdopen)
    put(tempfile, "mkstemp", p_mkstemp)
    put(builtins, "open", p_open)
    for mname in TARGET_MODULES:  # `from os import replace`-style bindings (none today; kept for safety)
        mod = sys.modules.get(mname)
        for key, val in list(vars(mod).items()) if mod else ():
            for orig, new in swapped:
                if val is orig:
                    setattr(mod, key, new)


def _resolve(scn: dict, target: str) -> Callable[[], Any]:
    """import everything BEFORE the gates go in, return a thunk that performs the call under test."""
    call = dict(scn["call"])
    if scn["tool"] == "write_tool":
        import asyncio
        from octave_mcp.mcp.write import WriteTool
        import octave_mcp.core.file_ops  # noqa: F401

        return lambda: asyncio.run(WriteTool().execute(target_path=target, **call))
    if scn["tool"] == "atomic":
        from octave_mcp.core.file_ops import atomic_write_octave

        return lambda: atomic_write_octave(target, **call)
    mod, _, fn = scn["func"].partition(":")
    f = getattr(sys.modules.get(mod) or importlib.import_module(mod), fn)
    return lambda: f(target, **call)


def _other_action(other: dict, target: str) -> Callable[[], Any]:
    """what a second actor does to the same path, as one uninterrupted step:
       {"kind": "write_tool", "call": {...}} | {"kind": "atomic", "call": {...}} | {"kind": "external", "text": str} | {"kind": "delete"}"""
    kind = other.get("kind")
    if kind == "write_tool":
        import asyncio
        from octave_mcp.mcp.write import WriteTool

        call = dict(other["call"])

        def second_writer():
            # the call under test may itself be inside asyncio.run: give the second writer its own thread + loop
            import concurrent.futures

            with concurrent.futures.ThreadPoolExecutor(1) as ex:
                return ex.submit(lambda: asyncio.run(WriteTool().execute(target_path=target, **call))).result()

        return second_writer
    if kind == "atomic":
        from octave_mcp.core.file_ops import atomic_write_octave

        call = dict(other["call"])
        return lambda: atomic_write_octave(target, **call)
    if kind == "external":
        text = other["text"]

        def ext():
            with open(target, "w", encoding="utf-8", newline="") as f:
                f.write(text)
            return {"status": "external"}

        return ext
    if kind == "external_keepstat":
        # an update that keeps length and timestamps (cp -p / rsync -t / touch -r, or two writes within one tick)
        def ext_keep():
            st = os.stat(target)
            with open(target, "rb") as f:
                old = f.read()
            new = other["text"].encode("utf-8")
            new = (new + b" " * len(old))[: len(old)] if len(new) != len(old) else new
            if old.endswith(b"\n") and len(new) >= 1:
                new = new[:-1] + b"\n"
            with open(target, "wb") as f:
                f.write(new)
            os.utime(target, ns=(st.st_atime_ns, st.st_mtime_ns))
            return {"status": "external", "wrote": new.decode("utf-8", "replace")}

        return ext_keep
    if kind == "delete":
        def rm():
            os.unlink(target)
            return {"status": "deleted"}

        return rm
    return lambda: None


def _child(scn: dict, root: str, C: _Ctl, wfd: int) -> None:
    out: dict[str, Any] = {"envelope": None, "exception": None, "harness_error": None}
    try:
        thunk = _resolve(scn, os.path.join(root, scn["target"]))
        if C.mode == "act":
            C.action = _other_action(scn.get("other") or {}, os.path.join(root, scn["target"]))
        _install(C)
        try:
            out["envelope"] = thunk()
        except BaseException as e:  # the call under test raised instead of returning an envelope
            out["exception"] = f"{type(e).__name__}: {e}"
    except BaseException:
        out["harness_error"] = traceback.format_exc()
    out["calls"], out["injected"] = C.calls, C.injected
    out["other"] = C.other
    os.write(wfd, json.dumps(out, default=repr).encode("utf-8"))


# ------------------------------------------------------------------ parent side: run + inspect
def snapshot(root: str) -> dict[str, tuple]:
    """relpath -> (type 'f'|'d'|'l', mode bits, bytes | link target | None)"""
    snap: dict[str, tuple] = {}
    for dp, dirs, files in os.walk(root):
        for n in dirs + files:
            p = os.path.join(dp, n)
            st = os.lstat(p)
            m = _stat.S_IMODE(st.st_mode)
            rel = os.path.relpath(p, root)
            if _stat.S_ISLNK(st.st_mode):
                snap[rel] = ("l", m, os.readlink(p).encode())
            elif _stat.S_ISDIR(st.st_mode):
                snap[rel] = ("d", m, None)
            else:
                with open(p, "rb") as f:
                    snap[rel] = ("f", m, f.read())
    return snap


def _setup(scn: dict, root: str) -> None:
    for rel, spec in scn["pre"].items():
        p = os.path.join(root, rel)
        if spec.get("dir"):  # a pre-existing (empty) directory
            os.makedirs(p, exist_ok=True)
            os.chmod(p, spec["mode"])
            continue
        os.makedirs(os.path.dirname(p), exist_ok=True)
        with open(p, "w", encoding="utf-8", newline="") as f:
            f.write(spec["text"])
        os.chmod(p, spec["mode"])


def _run(scn: dict, mode: str, ks: tuple = (), err: str | None = None, when: str | None = None) -> dict:
    """one forked run; a child that produced no report (killed by its wall-clock alarm on a saturated machine) is
    retried once with a five-times longer alarm before the harness error is reported"""
    res = _run_once(scn, mode, ks, err, when, 60)
    if res.get("harness_error") and "no report" in str(res["harness_error"]):
        res = _run_once(scn, mode, ks, err, when, 300)
    return res


def _run_once(scn: dict, mode: str, ks: tuple, err: str | None, when: str | None, alarm_s: int) -> dict:
    root = os.path.realpath(tempfile.mkdtemp(prefix="vf-fs-"))
    try:
        _setup(scn, root)
        before = snapshot(root)
        rfd, wfd = os.pipe()
        sys.stdout.flush()
        sys.stderr.flush()
        pid = os.fork()
        if pid == 0:  # child: never returns into the caller's frames
            code = 70
            try:
                os.close(rfd)
                signal.alarm(alarm_s)  # a hung child dies by SIGALRM and is reported as a harness error
                _child(scn, root, _Ctl(root, mode, ks, err, when), wfd)
                code = 0
            finally:
                os._exit(code)
        os.close(wfd)
        buf = b""
        while chunk := os.read(rfd, 65536):
            buf += chunk
        os.close(rfd)
        code = os.waitstatus_to_exitcode(os.waitpid(pid, 0)[1])
        res: dict[str, Any] = {"before": before, "after": snapshot(root), "exit": code}
        if buf:
            res.update(json.loads(buf))
        elif mode != "kill" or code != 137:
            res["harness_error"] = f"child produced no report (exit={code})"
        return res
    finally:
        shutil.rmtree(root, ignore_errors=True)


def run_trace(scn: dict) -> dict:
    """{"calls": [[i, name, arg]...], "envelope", "exception", "before", "after", "exit"}"""
    return _run(scn, "trace")


def run_fault(scn: dict, k: int, errno_name: str, k2: int | None = None) -> dict:
    """k-th (and, if reached, k2-th) counted call fails with errno_name; same keys as run_trace + "injected"."""
    assert errno_name in ERRNOS and (k2 is None or k2 > k)
    return _run(scn, "fail", (k, k2), errno_name)


def run_act(scn: dict, k: int, other: dict) -> dict:
    """a second actor (scn-independent description `other`) performs its whole operation right before the k-th
    counted call of the call under test; same keys as run_trace + "other" (the second actor's result)."""
    scn2 = dict(scn)
    scn2["other"] = other
    return _run(scn2, "act", (k,))


def run_kill(scn: dict, k: int, when: str) -> dict:
    """os._exit(137) right before/after the k-th counted call: {"before", "after", "exit"}"""
    assert when in ("before", "after")
    return _run(scn, "kill", (k,), None, when)


# ------------------------------------------------------------------ oracles (pure)
def _fstate(snap: dict, rel: str) -> tuple | None:
    """(bytes, mode) of the target in a snapshot, None if absent."""
    e = snap.get(rel)
    return None if e is None else (e[2], e[1])


def _listing(snap: dict, rel: str) -> list[str] | None:
    """names in the target's directory; None if that directory does not exist."""
    d = os.path.dirname(rel)
    if d and d not in snap:
        return None
    return sorted(os.path.basename(p) for p in snap if os.path.dirname(p) == d)


def _is_cleanup_fault(injected) -> bool:
    return any(n in ("os.unlink", "os.path.exists") and str(a).endswith(".tmp") for _, n, a in injected)


def check_atomic(old: bytes | None, final: bytes | None, candidates) -> list[str]:
    """C16 core: final in {old} | candidates (None = absent)."""
    if final == old or final in candidates:
        return []
    if final is None:
        return ["atomicity: target vanished (previous content lost)"]
    if final == b"":
        return ["atomicity: target is EMPTY (0 bytes)"]
    for what, ref in [("new", c) for c in candidates] + [("old", old)]:
        if ref and ref.startswith(final):
            return [f"atomicity: target is a truncated prefix of the {what} text ({len(final)} of {len(ref)} bytes)"]
    return [f"atomicity: target is neither old nor new text ({len(final)} bytes: {final[:40]!r}...)"]


def check_cas(base_hash: str | None, old: bytes | None, final: bytes | None, envelope: dict | None = None) -> list[str]:
    """C17 CAS: with base_hash the file may change only if its content hashed to base_hash (and E_HASH iff mismatch)."""
    if base_hash and old is not None and hashlib.sha256(old).hexdigest() == base_hash and \
            (envelope or {}).get("status") == "error" and "ash mismatch" in json.dumps(envelope, default=repr):
        return ["spurious_hash_mismatch: hash-mismatch error although the file's content does hash to base_hash"]
    if not base_hash or final == old:
        return []
    if old is None:
        return ["cas_absent_target_written: base_hash given, target absent, yet a file was created"]
    if hashlib.sha256(old).hexdigest() != base_hash:
        return ["cas_violated: file changed although its content did not hash to base_hash"]
    return []


def _new_entry_label(path: str, kind: str, cleanup_fault: bool) -> str:
    if kind == "d":
        # a directory can only be removed again when the temp file in it could be removed first
        return "excluded_cleanup_fault" if cleanup_fault else "leftover_parent_dir"
    if path.endswith(".tmp"):
        return "excluded_cleanup_fault" if cleanup_fault else "leftover_tmp"
    return "leftover_other"


def check_error_post(envelope: dict, old: tuple | None, final: tuple | None, listing_before, listing_after,
                     injected=()) -> list[str]:
    """status=error => target (bytes, mode) unchanged and no new entry beside it.  old/final: (bytes, mode) | None."""
    if (envelope or {}).get("status") != "error":
        return []
    v = []
    if final != old:
        if (old and old[0]) != (final and final[0]):
            v.append("error_target_changed: status=error but target bytes differ from before")
        else:
            v.append(f"error_mode_changed: status=error but mode {oct(old[1])} -> {oct(final[1])}")
    if listing_before is None and listing_after is not None:
        v.append(("excluded_cleanup_fault" if _is_cleanup_fault(injected) else "leftover_parent_dir") + ": status=error but the target's directory was created and left behind")
    for n in sorted(set(listing_after or ()) - set(listing_before or ())):
        v.append(f"{_new_entry_label(n, 'f', _is_cleanup_fault(injected))}: status=error but new entry {n!r} beside target")
    return v


def check_success_post(envelope: dict, final: tuple | None, old_mode: int | None, listing_after=()) -> list[str]:
    """status=success => sha256(file) == canonical_hash, mode preserved for a pre-existing file, no *.tmp."""
    if (envelope or {}).get("status") != "success":
        return []
    v = []
    if final is None or final[0] is None:
        return ["success_target_absent: status=success but no file at target"]
    h = hashlib.sha256(final[0]).hexdigest()
    if h != envelope.get("canonical_hash"):
        v.append(f"success_hash_mismatch: file sha256 {h[:12]} != canonical_hash {str(envelope.get('canonical_hash'))[:12]}")
    if old_mode is not None and final[1] != old_mode:
        v.append(f"success_mode_changed: mode {oct(old_mode)} -> {oct(final[1])}")
    v += [f"success_leftover_tmp: {n!r} left beside target" for n in listing_after if n.endswith(".tmp")]
    return v


def check_noop(envelope: dict, before: dict, after: dict, corrections_only: bool = False, injected=()) -> list[str]:
    """corrections_only calls and status=error calls leave the whole tree identical (paths, types, bytes, modes)."""
    if not corrections_only and (envelope or {}).get("status") != "error":
        return []
    why = "corrections_only" if corrections_only else "status=error"
    v = []
    for p in sorted(set(after) - set(before)):
        v.append(f"{_new_entry_label(p, after[p][0], _is_cleanup_fault(injected))}: {why} but new entry {p!r} ({after[p][0]})")
    for p in sorted(set(before) - set(after)):
        v.append(f"noop_entry_removed: {why} but {p!r} disappeared")
    for p in sorted(set(before) & set(after)):
        if before[p] != after[p]:
            v.append(f"noop_entry_changed: {why} but {p!r} changed (type/mode/bytes)")
    return v


def _fmt_calls(calls) -> list[str]:
    return [f"{i}:{n}({a})" for i, n, a in calls]


def evaluate(scn: dict, trace: dict, run: dict, mode: str, ks: tuple = ()) -> dict:
    """Apply the oracles to one run.  trace: {"calls", "cands"} from the un-faulted run."""
    tgt = scn["target"]
    before, after = run["before"], run["after"]
    old, fin = _fstate(before, tgt), _fstate(after, tgt)
    out: dict[str, Any] = {"violations": [], "info": [], "harness": [], "calls": _fmt_calls(run.get("calls") or trace["calls"])}
    if run.get("harness_error"):
        out["harness"].append(f"child harness error: {run['harness_error']}")
        return out
    v = check_atomic(old and old[0], fin and fin[0], trace["cands"])
    v += check_cas(scn["call"].get("base_hash"), old and old[0], fin and fin[0], run.get("envelope"))
    if mode == "kill":
        if run["exit"] != 137:
            out["harness"].append(f"kill point {ks} never reached (exit={run['exit']})")
        if old and fin and old[1] != fin[1]:
            v.append(f"kill_mode_changed: existing file's mode {oct(old[1])} -> {oct(fin[1])} after kill")
        new = set(after) - set(before)
        out["info"] += ["kill_leftover_tmp"] * any(p.endswith(".tmp") for p in new)
        out["info"] += ["kill_leftover_dir"] * any(after[p][0] == "d" for p in new)
    else:
        env, inj = run.get("envelope"), run.get("injected") or []
        if run.get("exit") != 0:
            out["harness"].append(f"child exit {run.get('exit')} in mode {mode}")
        if run.get("exception"):
            v.append(f"exception_escaped: call raised {run['exception']} instead of returning an error envelope")
            env = {"status": "error"}
        elif not isinstance(env, dict) or env.get("status") not in ("success", "error"):
            v.append(f"bad_envelope: {env!r}"[:200])
            env = {"status": "error"}
        if mode == "fail":
            fired = [i for i, _, _ in inj]
            if ks[0] not in fired:
                out["harness"].append(f"injected fault index {ks[0]} never fired (calls={len(run.get('calls') or [])})")
            elif [c[1] for c in run["calls"][: ks[0] + 1]] != [c[1] for c in trace["calls"][: ks[0] + 1]]:
                out["harness"].append(f"call prefix before fault {ks[0]} differs from trace (non-deterministic index space)")
            if len(ks) > 1 and ks[1] not in fired:
                out["info"].append("pair_k2_not_reached")
        co = bool(scn["call"].get("corrections_only"))
        lb, la = _listing(before, tgt), _listing(after, tgt)
        v += check_noop(env, before, after, corrections_only=co, injected=inj)
        v += check_error_post(env, old, fin, lb, la, injected=inj)
        if not co:
            v += check_success_post(env, fin, old and old[1], la or ())
    if "pair_k2_not_reached" in out["info"]:
        v = []  # the run is identical to the single-fault run at k1: do not report its findings twice
    seen: set[str] = set()
    for s in v:  # one finding per label and run (check_noop / check_error_post overlap by design)
        lab = s.split(":", 1)[0]
        if lab in seen:
            continue
        seen.add(lab)
        (out["info"] if lab == "excluded_cleanup_fault" else out["violations"]).append(lab if lab in INFO_LABELS else s)
    return out


# ------------------------------------------------------------------ sweep
_WK: dict[str, Any] = {}


def _winit(scn: dict, trace: dict) -> None:
    _WK.update(scn=scn, trace=trace)


def _wjob(job: tuple) -> tuple:
    mode, k, err, k2, when = job
    scn, tr = _WK["scn"], _WK["trace"]
    try:
        run = run_kill(scn, k, when) if mode == "kill" else run_fault(scn, k, err, k2)
        return job, evaluate(scn, tr, run, mode, (k,) if k2 is None else (k, k2))
    except Exception:
        return job, {"violations": [], "info": [], "harness": [f"worker crashed: {traceback.format_exc()}"], "calls": []}


def _expect_ok(scn: dict, tr: dict) -> str | None:
    env, exp = tr.get("envelope"), scn["expect"]
    if tr.get("harness_error") or tr.get("exception") or not isinstance(env, dict):
        return f"trace run did not return an envelope: {tr.get('harness_error') or tr.get('exception') or env!r}"
    if scn["tool"] == "func":
        return None
    if exp == "success":
        return None if env.get("status") == "success" else f"trace expected success, got {json.dumps(env, default=repr)[:300]}"
    if env.get("status") != "error" or exp.split(":", 1)[1] not in json.dumps(env, default=repr):
        return f"trace expected {exp}, got {json.dumps(env, default=repr)[:300]}"
    return None


def sweep(scn: dict, pairs: bool = False, cores: int = 16) -> dict:
    """trace, then every k x errno, kill before/after every k, and (pairs) every k1<k2 x errno.
    -> {"scenario", "n_calls", "trace_calls", "evaluations", "violations": [{scenario, mode, k, errno, what, plausible, calls}],
        "excluded_cleanup_fault": n, "classes": {label: count}, "harness_errors": [...]}"""
    _resolve(scn, "/nonexistent")  # import the code under test once so forked children inherit it
    tr = run_trace(scn)
    res: dict[str, Any] = {"scenario": scn["name"], "n_calls": 0, "trace_calls": [], "evaluations": 1, "violations": [],
                           "excluded_cleanup_fault": 0, "classes": {}, "harness_errors": []}
    bad = _expect_ok(scn, tr)
    if bad:
        res["harness_errors"].append(f"{scn['name']}: {bad}")
        return res
    tgt_after = _fstate(tr["after"], scn["target"])
    ok = (tr["envelope"] or {}).get("status") == "success" or scn["tool"] == "func"
    wrote = ok and not scn["call"].get("corrections_only") and tgt_after is not None
    trace = {"calls": tr["calls"], "cands": [tgt_after[0]] if wrote else []}
    n = len(tr["calls"])
    res.update(n_calls=n, trace_calls=_fmt_calls(tr["calls"]))
    jobs: list[tuple] = [("fail", k, e, None, None) for k in range(n) for e in ERRNOS]
    jobs += [("kill", k, None, None, w) for k in range(n) for w in ("before", "after")]
    done = [(("trace", None, None, None, None), evaluate(scn, trace, tr, "trace"))]

    def run_jobs(js):
        if not js:
            return []
        if cores <= 1:
            _winit(scn, trace)
            return [_wjob(j) for j in js]
        with mp.get_context("fork").Pool(min(cores, len(js)), initializer=_winit, initargs=(scn, trace)) as pool:
            return list(pool.imap_unordered(_wjob, js, chunksize=4))

    singles = run_jobs(jobs)
    done += singles
    if pairs:
        # second fault: at every call the run made AFTER the first fault - that sequence differs from the trace (error
        # paths, fall-backs), so its length is taken from the single-fault run itself
        pj = []
        for (mode, k1, e, _, _), ev in singles:
            if mode != "fail":
                continue
            m = len(ev.get("calls") or [])
            pj += [("fail", k1, e, k2, None) for k2 in range(k1 + 1, max(m, k1 + 1))]
        done += run_jobs(pj)
    res["evaluations"] = len(done)
    order = {"trace": 0, "fail": 1, "kill": 2}
    for (mode, k, err, k2, when), ev in sorted(done, key=lambda d: (order[d[0][0]], d[0][1] or 0, d[0][3] or 0, str(d[0][2]), str(d[0][4]))):
        res["harness_errors"] += [f"{scn['name']} {mode} k={k} {err or when}: {h}" for h in ev["harness"]]
        for lab in ev["info"]:
            res["classes"][lab] = res["classes"].get(lab, 0) + 1
        res["excluded_cleanup_fault"] += "excluded_cleanup_fault" in ev["info"]
        for what in ev["violations"]:
            lab = what.split(":", 1)[0]
            res["classes"][lab] = res["classes"].get(lab, 0) + 1
            name = tr["calls"][k][1] if k is not None and k < n else None
            res["violations"].append({
                "scenario": scn["name"], "mode": mode if when is None else f"kill-{when}", "k": k if k2 is None else [k, k2],
                "errno": err, "what": what, "at": f"{k}:{name}({tr['calls'][k][2]})" if name else None,
                "plausible": None if mode != "fail" or k2 is not None else err in PLAUSIBLE.get(name, ()),
                "calls": ev["calls"]})
    return res
