"""Shared plumbing: obligations, outcomes, known findings, evidence, replay files, exit codes.

Tiers (DESIGN §0):  P  VC from the real AST discharged by z3/cvc5          (proved)
                    R  regular-language / transducer obligation (automata)   (proved)
                    F  frame / effect obligation by conservative inference    (proved)
                    L  property-level lemma over contract symbols            (proved)
                    B  bounded stand-in: contract run on the real function   (never proved)
                    A  assumption left unchecked                             (listed)
"""
from __future__ import annotations

import dataclasses
import hashlib
import json
import os
import re
import sys
import time
import traceback
from dataclasses import dataclass, field
from pathlib import Path
from typing import Any, Callable

REPO = Path(os.environ.get("VERIF_REPO", "/repo"))
SRC = REPO / "src"
PKG = SRC / "octave_mcp"
VERIF = Path(__file__).resolve().parent.parent
# experiments on patched / scratch trees (tools/try_seed.sh, VERIF_REPO=...) set VERIF_SCRATCH_OUT so that they never overwrite
# the evidence and replay files of the registered checks; the registered commands do not set it
_OUT = Path(os.environ["VERIF_SCRATCH_OUT"]) if os.environ.get("VERIF_SCRATCH_OUT") else VERIF
EVIDENCE_DIR = _OUT / "evidence"
REPLAY_DIR = _OUT / "replay"
KNOWN_FINDINGS = VERIF / "known_findings.jsonl"

PROVED_TIERS = ("P", "R", "F", "L")

EXIT_OK, EXIT_VIOLATION, EXIT_UNDECIDED, EXIT_CRASH = 0, 1, 2, 3
MAX_VIOLATIONS_PER_OBLIGATION = 8


def src_path(module: str) -> Path:
    """octave_mcp.core.lexer -> /repo/src/octave_mcp/core/lexer.py (current working tree)."""
    return SRC / (module.replace(".", "/") + ".py")


def read_src(module: str) -> str:
    return src_path(module).read_text(encoding="utf-8")


def jsonable(x: Any) -> Any:
    try:
        json.dumps(x)
        return x
    except Exception:
        if isinstance(x, dict):
            return {str(k): jsonable(v) for k, v in x.items()}
        if isinstance(x, (list, tuple, set, frozenset)):
            return [jsonable(v) for v in x]
        return repr(x)


@dataclass
class Witness:
    what: str  # what fails, in words (observed vs required)
    input: Any = None  # concrete failing input (JSON-able) when one exists
    key: str = ""  # canonical text used for known-finding matching (defaults to the input)
    replay: dict | None = None  # {"runner": "props.C01:replay_x", "args": {...}}
    confirmed: bool = False  # replayed against the real code of this tree and it failed
    verifier_output: str = ""  # model / offending expression / solver output

    def match_key(self) -> str:
        if self.key:
            return self.key
        if isinstance(self.input, str):
            return self.input
        return json.dumps(jsonable(self.input), sort_keys=True, ensure_ascii=False)


@dataclass
class Outcome:
    status: str  # discharged | refuted | undecided | crashed
    backend: str = ""
    witnesses: list[Witness] = field(default_factory=list)
    detail: str = ""
    extra: dict = field(default_factory=dict)  # bounded counts, samples, sub-obligation table ...
    seconds: float = 0.0
    # one obligation function may discharge several elementary obligations (e.g. one per regex)
    count: int = 1
    discharged: int | None = None

    @staticmethod
    def ok(backend: str, detail: str = "", count: int = 1, **extra: Any) -> "Outcome":
        return Outcome("discharged", backend, [], detail, dict(extra), count=count, discharged=count)

    @staticmethod
    def refuted(backend: str, witnesses: list[Witness], detail: str = "", count: int = 1, discharged: int = 0, **extra: Any) -> "Outcome":
        return Outcome("refuted", backend, witnesses, detail, dict(extra), count=count, discharged=discharged)

    @staticmethod
    def undecided(backend: str, detail: str = "", count: int = 1, **extra: Any) -> "Outcome":
        return Outcome("undecided", backend, [], detail, dict(extra), count=count, discharged=0)


@dataclass
class Ob:
    oid: str  # e.g. C01.R1
    tier: str  # P R F L B
    title: str
    functions: list[str]  # qualnames under contract
    fn: Callable[["Ctx"], Outcome]
    thorough_only: bool = False
    timeout: float = 600.0


@dataclass
class Finding:
    id: str
    property: str
    obligation: str
    match: dict
    what: str
    fixed: bool = False
    raw: dict = field(default_factory=dict)

    def matches(self, oid: str, w: Witness) -> bool:
        if self.fixed:
            return False
        if not (oid == self.obligation or oid.startswith(self.obligation + ".") or oid.startswith(self.obligation + "#")):
            return False
        m = self.match
        kind = m.get("kind")
        key = w.match_key()
        if kind == "input_equals":
            v = m.get("value")
            return key == (v if isinstance(v, str) else json.dumps(jsonable(v), sort_keys=True, ensure_ascii=False))
        if kind == "input_regex":
            return re.fullmatch(m["pattern"], key, re.S) is not None
        if kind == "site":
            return key == m.get("value")
        if kind == "lang":
            # regular language of failing inputs; the obligation has already subtracted it where it
            # can, this is the per-witness fallback (python re over the witness text)
            return re.fullmatch(m["pattern"], key, re.S) is not None
        return False


def load_findings(prop: str | None = None) -> list[Finding]:
    out: list[Finding] = []
    if not KNOWN_FINDINGS.exists():
        return out
    for i, line in enumerate(KNOWN_FINDINGS.read_text(encoding="utf-8").splitlines()):
        line = line.strip()
        if not line or line.startswith("#"):
            continue
        d = json.loads(line)
        if prop and d.get("property") != prop:
            continue
        out.append(
            Finding(
                id=d.get("id", f"KF{i}"),
                property=d["property"],
                obligation=d.get("obligation", ""),
                match=d.get("match", {}),
                what=d.get("what", ""),
                fixed=bool(d.get("fixed")) or str(d.get("status", "")).startswith("fixed"),
                raw=d,
            )
        )
    return out


class Ctx:
    """Per-run context handed to every obligation function."""

    def __init__(self, prop: str, tier: str, seed: int):
        self.prop = prop
        self.tier = tier
        self.seed = seed
        self.findings = load_findings(prop)
        self.cores = int(os.environ.get("VERIF_CORES", os.cpu_count() or 4))

    @property
    def thorough(self) -> bool:
        return self.tier == "thorough"

    def known_for(self, oid: str) -> list[Finding]:
        return [
            f
            for f in self.findings
            if not f.fixed and (oid == f.obligation or oid.startswith(f.obligation + ".") or oid.startswith(f.obligation + "#"))
        ]

    def known_lang_patterns(self, oid: str) -> list[str]:
        return [f.match["pattern"] for f in self.known_for(oid) if f.match.get("kind") == "lang"]


def sha(text: str) -> str:
    return hashlib.sha256(text.encode("utf-8")).hexdigest()


def write_replay(prop: str, oid: str, idx: int, ob: Ob, out: Outcome, w: Witness) -> Path:
    d = REPLAY_DIR / prop
    d.mkdir(parents=True, exist_ok=True)
    safe = re.sub(r"[^A-Za-z0-9_.#-]", "_", oid)
    p = d / f"{safe}.{idx}.json"
    payload = {
        "property": prop,
        "obligation": oid,
        "tier": ob.tier,
        "title": ob.title,
        "functions": ob.functions,
        "backend": out.backend,
        "what": w.what,
        "input": jsonable(w.input),
        "key": w.match_key(),
        "confirmed_on_real_code": w.confirmed,
        "no_failing_input_found": not w.confirmed,
        "verifier_output": w.verifier_output or out.detail,
        "replay": w.replay,
        "replay_cmd": f"./vf replay {p}",
    }
    p.write_text(json.dumps(payload, indent=1, ensure_ascii=False), encoding="utf-8")
    return p


def resolve_runner(spec: str) -> Callable[..., Any]:
    mod, _, name = spec.partition(":")
    import importlib

    m = importlib.import_module(mod)
    return getattr(m, name)


def run_replay(path: str) -> int:
    d = json.loads(Path(path).read_text(encoding="utf-8"))
    r = d.get("replay")
    print(f"obligation {d['obligation']} ({d['tier']}): {d['what']}")
    if not r:
        print("no replayable input recorded (no-failing-input-found); verifier output follows")
        print(d.get("verifier_output", ""))
        return EXIT_UNDECIDED
    fn = resolve_runner(r["runner"])
    res = fn(**r.get("args", {}))
    # runner convention: returns (failed: bool, text)
    failed, text = res if isinstance(res, tuple) else (bool(res), "")
    print(text)
    print("REPRODUCED" if failed else "not reproduced on this tree")
    return EXIT_VIOLATION if failed else EXIT_OK


def _call(ob: Ob, ctx: Ctx) -> Outcome:
    t0 = time.time()
    try:
        out = ob.fn(ctx)
        if not isinstance(out, Outcome):
            raise TypeError(f"obligation {ob.oid} returned {type(out)}")
    except Exception:
        out = Outcome("crashed", "python", [], traceback.format_exc())
    out.seconds = round(time.time() - t0, 3)
    return out


def _worker(args: tuple[str, str, str, int]) -> tuple[str, Outcome]:
    prop, oid, tier, seed = args
    import importlib

    mod = importlib.import_module(f"props.{prop}")
    ctx = Ctx(prop, tier, seed)
    for ob in mod.obligations(ctx):
        if ob.oid == oid:
            return oid, _call(ob, ctx)
    return oid, Outcome("crashed", "python", [], f"obligation {oid} disappeared")


def run_property(prop: str, tier: str, seed: int, only: str | None = None, jobs: int | None = None) -> int:
    import importlib
    import multiprocessing as mp

    t0 = time.time()
    try:
        mod = importlib.import_module(f"props.{prop}")
    except Exception:
        traceback.print_exc()
        return EXIT_CRASH
    ctx = Ctx(prop, tier, seed)
    obs: list[Ob] = [o for o in mod.obligations(ctx) if (tier == "thorough" or not o.thorough_only)]
    if only:
        obs = [o for o in obs if o.oid.startswith(only)]
    if not obs:
        print(f"vf: {prop}: zero obligations generated", file=sys.stderr)
        return EXIT_CRASH
    results: dict[str, Outcome] = {}
    serial = os.environ.get("VERIF_SERIAL") == "1" or len(obs) == 1
    if serial:
        for ob in obs:
            results[ob.oid] = _call(ob, ctx)
    else:
        # obligations that shard internally (B sweeps) ask for the whole machine: run them after the
        # small ones, one at a time; everything else goes through a pool
        big = [o for o in obs if getattr(o.fn, "wants_all_cores", False)]
        small = [o for o in obs if o not in big]
        n = min(jobs or ctx.cores, max(1, len(small)))
        if small:
            with mp.get_context("fork").Pool(n) as pool:
                asyncs = {o.oid: pool.apply_async(_worker, ((prop, o.oid, tier, seed),)) for o in small}
                for o in small:
                    try:
                        _, out = asyncs[o.oid].get(timeout=o.timeout)
                    except mp.TimeoutError:
                        out = Outcome("undecided", "timeout", [], f"obligation exceeded {o.timeout}s")
                    except Exception:
                        out = Outcome("crashed", "python", [], traceback.format_exc())
                    results[o.oid] = out
        for o in big:
            results[o.oid] = _call(o, ctx)
    return report(prop, tier, seed, mod, obs, results, time.time() - t0, ctx)


def report(prop: str, tier: str, seed: int, mod: Any, obs: list[Ob], results: dict[str, Outcome], wall: float, ctx: Ctx) -> int:
    violations: list[tuple[Ob, Outcome, Witness, Path]] = []
    known_hit: dict[str, tuple[Finding, str]] = {}
    undecided: list[str] = []
    crashed: list[str] = []
    n_ob = n_dis = 0
    by_backend: dict[str, dict[str, float]] = {}
    table = []
    restricted_rows: list[str] = []
    bounded = []
    for ob in obs:
        out = results[ob.oid]
        cnt = out.count
        dis = out.discharged if out.discharged is not None else (cnt if out.status == "discharged" else 0)
        if ob.tier in PROVED_TIERS:
            n_ob += cnt
        be = by_backend.setdefault(out.backend or "-", {"obligations": 0, "seconds": 0.0})
        be["obligations"] += cnt
        be["seconds"] = round(be["seconds"] + out.seconds, 3)
        row_status = out.status
        if out.status == "undecided":
            undecided.append(ob.oid)
        elif out.status == "crashed":
            crashed.append(ob.oid)
        elif out.status == "refuted":
            if not out.witnesses:
                out.witnesses = [Witness(what=out.detail or "obligation refuted", verifier_output=out.detail)]
            new = 0
            suppressed = 0
            for i, w in enumerate(out.witnesses):
                f = next((f for f in ctx.findings if f.matches(ob.oid, w)), None)
                if f is not None:
                    known_hit.setdefault(f.id, (f, w.match_key()))
                else:
                    new += 1
                    if new > MAX_VIOLATIONS_PER_OBLIGATION:
                        suppressed += 1
                        continue
                    p = write_replay(prop, ob.oid, i, ob, out, w)
                    violations.append((ob, out, w, p))
            if suppressed:
                print(f"NOTE: {suppressed} further unlisted failing cases of {ob.oid} not printed (same run, see evidence)")
            if new == 0:
                row_status = "known-finding"
                # every failure of this obligation is a listed finding: the remaining elementary
                # obligations it covers count as discharged, the failing ones do not
        if ob.tier in PROVED_TIERS:
            n_dis += dis
        row = {
            "id": ob.oid,
            "tier": ob.tier,
            "title": ob.title,
            "functions": ob.functions,
            "status": row_status,
            "backend": out.backend,
            "seconds": out.seconds,
            "elementary": cnt,
            "discharged": dis,
        }
        if out.detail and out.status != "discharged":
            row["detail"] = out.detail[:2000]
        if (out.extra or {}).get("restricted_to_default_parameters"):
            row["restricted_to_default_parameters"] = out.extra["restricted_to_default_parameters"]
            restricted_rows.append(f"{ob.oid}: proved for calls that leave {', '.join(out.extra['restricted_to_default_parameters'])} at the declared default (an unconstrained value of it is not discharged)")
        table.append(row)
        if ob.tier == "B":
            b = {"id": ob.oid, "title": ob.title, "status": row_status}
            b.update({k: jsonable(v) for k, v in out.extra.items()})
            bounded.append(b)

    for fid, (f, key) in sorted(known_hit.items()):
        print(f"KNOWN-FINDING: property={prop} {f.id} [{f.obligation}] {f.what} (e.g. {key[:120]!r})")
    for ob, out, w, p in violations:
        suffix = "" if w.confirmed else " no-failing-input-found"
        print(f"VIOLATION property={prop} replay={p}{suffix}")
        print(f"  obligation {ob.oid} [{ob.tier}] {ob.title}: {w.what[:400]}")
    for oid in undecided:
        print(f"UNDECIDED: property={prop} obligation={oid} {results[oid].detail[:300]}")
    for oid in crashed:
        print(f"CHECKER-CRASH: property={prop} obligation={oid}\n{results[oid].detail[-3000:]}")

    # canaries must have failed (they are obligations that are false by construction)
    canary_bad = [o.oid for o in obs if o.oid.endswith("canary") and results[o.oid].status == "discharged" and results[o.oid].extra.get("canary_expected_refuted")]

    # evidence
    ev_b_evals = sum(int(b.get("evaluations", 0)) for b in bounded)
    ev_b_distinct = sum(int(b.get("distinct_nontrivial", 0)) for b in bounded)
    samples: list[Any] = []
    for row in table[:6]:
        samples.append({"obligation": row["id"], "tier": row["tier"], "title": row["title"], "status": row["status"]})
    for b in bounded:
        for s in (b.get("samples") or [])[:3]:
            samples.append({"bounded": b["id"], "case": s})
    functions = sorted({f for o in obs for f in o.functions})
    level = getattr(mod, "LEVEL", "other")
    assumptions = list(getattr(mod, "ASSUMPTIONS", []))
    assumptions += restricted_rows
    trusted = list(getattr(mod, "TRUSTED_BASE", []))
    undischarged = [r["id"] for r in table if r["tier"] in PROVED_TIERS and r["discharged"] < r["elementary"]]
    if level == "proof" and (n_dis != n_ob):
        level = "other"
    coverage = {
        "obligations": n_ob,
        "discharged": n_dis,
        "checker_cmd": f"./vf check {prop} --tier {tier}",
        "trusted_base": trusted,
        "explanation": getattr(mod, "EXPLANATION", "")
        + f" | proved-tier elementary obligations: {n_dis}/{n_ob} discharged ({', '.join(sorted(set(r['tier'] for r in table)))} tiers present);"
        + (f" not discharged because of listed known findings / violations: {undischarged};" if undischarged else "")
        + f" bounded (B) obligations are stand-ins and are not counted: {[b['id'] for b in bounded]}.",
        "evaluations": max(1, ev_b_evals + n_ob),
        "distinct_nontrivial": max(ev_b_distinct + n_dis, 0),
        "rule": "evaluations = bounded-tier real-code executions + elementary proved-tier obligations; distinct_nontrivial = "
        "distinct non-trivial bounded cases (rule per enumerator, see bounded[]) + discharged elementary obligations "
        "(each a distinct named verification condition / language query / frame check)",
        "samples": samples or [{"note": "no samples"}],
        "obligation_table": table,
        "functions_under_contract": functions,
        "by_backend": by_backend,
        "bounded": bounded,
        "undecided": undecided,
        "known_findings_matched": [
            {"id": f.id, "obligation": f.obligation, "what": f.what, "example": key[:200]} for f, key in known_hit.values()
        ],
        "violations_reported": [
            {"obligation": ob.oid, "what": w.what[:300], "replay": str(p), "confirmed": w.confirmed} for ob, out, w, p in violations
        ],
    }
    ev = {
        "property_id": prop,
        "tier": tier,
        "seed": seed,
        "level": level,
        "coverage": coverage,
        "assumptions": assumptions,
        "wall_s": round(wall, 2),
        "violations": len(violations),
    }
    EVIDENCE_DIR.mkdir(parents=True, exist_ok=True)
    (EVIDENCE_DIR / f"{prop}.json").write_text(json.dumps(ev, indent=1, ensure_ascii=False) + "\n", encoding="utf-8")

    print(
        f"{prop} [{tier}] proved-tier {n_dis}/{n_ob} elementary obligations discharged; "
        f"bounded evaluations {ev_b_evals}; known findings {len(known_hit)}; violations {len(violations)}; "
        f"undecided {len(undecided)}; {wall:.1f}s"
    )
    if canary_bad:
        print(f"CHECKER-CRASH: canaries passed that must fail: {canary_bad}")
        return EXIT_CRASH
    if violations:
        return EXIT_VIOLATION
    if crashed:
        return EXIT_CRASH
    if undecided:
        return EXIT_UNDECIDED
    return EXIT_OK


def shape_verdict(backend: str, problems: list[str], probe, count: int, replay: dict | None = None) -> "Outcome":
    """Verdict of a contract that is keyed to the SHAPE of the source when that shape is not found:
    run the concrete probe `probe() -> (failed, text)` on the real code. Probe fails => refuted with that evidence.
    Probe passes => undecided (a correct refactor must never raise an alarm; the bounded tier still decides)."""
    try:
        failed, text = probe()
    except Exception as e:  # noqa: BLE001
        return Outcome.undecided(backend, "; ".join(problems[:3]) + f"; probe could not run: {type(e).__name__}: {e}")
    if not failed:
        return Outcome.undecided(backend, "source shape not recognised by this contract: " + "; ".join(p[:140] for p in problems[:3]) + f"; probe: {text[:200]}")
    return Outcome.refuted(backend, [Witness(what=f"{p} — {text[:400]}", key=p[:60], input=p, replay=replay, confirmed=True) for p in problems], count=count)
