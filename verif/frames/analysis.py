"""E3 — frames: assigns / reads / effects of every function in src/octave_mcp by conservative
inference over the real AST, with call-graph closure.

Soundness stance (A-static): no getattr/setattr/exec/eval/globals()/monkey-patching in the package
(searched for, absence is an obligation of its own); calls whose receiver type cannot be inferred are
linked to EVERY repository method of that name.
"""
from __future__ import annotations

import ast
import re
import os
from dataclasses import dataclass, field
from functools import lru_cache
from pathlib import Path
from typing import Iterable

from verif.common import PKG, SRC

MUTATORS = {"append", "extend", "insert", "pop", "remove", "clear", "update", "setdefault", "sort", "add", "discard", "popitem", "reverse", "__setitem__", "__delitem__"}
FRESH_CALLS = {
    "list", "dict", "set", "frozenset", "tuple", "sorted", "str", "int", "float", "bool", "len", "repr", "any", "all", "min", "max", "sum",
    "isinstance", "hasattr", "enumerate", "zip", "range", "reversed", "type", "abs", "round", "ord", "chr", "format", "iter", "next", "map", "filter",
}
# str/bytes methods: never mutate, return fresh scalars
SCALAR_METHODS = {
    "strip", "lstrip", "rstrip", "lower", "upper", "startswith", "endswith", "split", "rsplit", "splitlines", "join", "replace", "format", "encode", "decode",
    "isdigit", "isalpha", "isalnum", "isascii", "isdecimal", "isspace", "find", "rfind", "index", "rindex", "count", "title", "casefold", "partition", "rpartition",
    "hexdigest", "digest", "isoformat", "get", "items", "keys", "values", "copy", "group", "groups", "match", "search", "fullmatch", "sub", "finditer", "findall", "end", "start", "span",
    "zfill", "ljust", "rjust", "center", "expandtabs", "removeprefix", "removesuffix", "is_integer",
}

FS_READ_METHODS = {"exists", "is_file", "is_dir", "is_symlink", "stat", "lstat", "read_text", "read_bytes", "glob", "rglob", "iterdir", "samefile", "resolve", "absolute", "relative_to_cwd"}
FS_WRITE_METHODS = {"mkdir", "write_text", "write_bytes", "rmdir", "symlink_to", "touch", "hardlink_to"}
FS_WRITE_METHODS_PATH_ONLY = {"unlink", "rename", "replace", "chmod", "open"}  # need an inferred Path receiver
CWD_METHODS = {"absolute", "resolve", "cwd"}

DOTTED_EFFECTS = {
    "os.environ": "env", "os.getenv": "env", "os.putenv": "env", "sys.argv": "env", "sys.stdin": "env",
    "os.getcwd": "cwd", "Path.cwd": "cwd", "pathlib.Path.cwd": "cwd", "os.chdir": "cwd",
    "time.time": "clock", "time.monotonic": "clock", "time.perf_counter": "clock", "time.time_ns": "clock", "time.localtime": "clock", "time.strftime": "clock",
    "datetime.now": "clock", "datetime.utcnow": "clock", "datetime.today": "clock", "date.today": "clock", "datetime.datetime.now": "clock",
    "uuid.uuid4": "random", "uuid.uuid1": "random", "os.urandom": "random", "tempfile.mkstemp": "random", "tempfile.mkdtemp": "random",
    "tempfile.NamedTemporaryFile": "random", "tempfile.TemporaryDirectory": "random",
    "os.system": "subprocess", "os.popen": "subprocess",
    "id": "identity", "hash": "identity", "object.__repr__": "identity",
    "os.stat": "fs_read", "os.lstat": "fs_read", "os.listdir": "fs_read", "os.scandir": "fs_read", "os.walk": "fs_read", "os.access": "fs_read", "os.readlink": "fs_read",
    "os.path.exists": "fs_read", "os.path.isfile": "fs_read", "os.path.isdir": "fs_read", "os.path.islink": "fs_read", "os.path.getsize": "fs_read", "os.path.getmtime": "fs_read",
    "os.path.realpath": "fs_read", "os.path.abspath": "cwd",
    "os.replace": "fs_write", "os.unlink": "fs_write", "os.remove": "fs_write", "os.rename": "fs_write", "os.fchmod": "fs_write", "os.chmod": "fs_write",
    "os.fsync": "fs_write", "os.fdopen": "fs_write", "os.makedirs": "fs_write", "os.mkdir": "fs_write", "os.rmdir": "fs_write", "os.symlink": "fs_write", "os.link": "fs_write",
    "os.write": "fs_write", "os.close": "fs_write", "os.open": "fs_write", "os.truncate": "fs_write", "os.utime": "fs_write",
}
DOTTED_PREFIX_EFFECTS = {"random.": "random", "secrets.": "random", "subprocess.": "subprocess", "shutil.": "fs_write", "locale.": "locale", "threading.": "concurrency", "asyncio.": "concurrency", "socket.": "network", "urllib.": "network", "http.": "network", "requests.": "network"}


@dataclass
class ClassInfo:
    module: str
    name: str
    node: ast.ClassDef
    bases: list[str]
    methods: dict[str, "FuncInfo"] = field(default_factory=dict)
    is_dataclass: bool = False
    is_enum: bool = False
    is_exception: bool = False
    has_repr: bool = False
    fields: dict[str, str] = field(default_factory=dict)  # dataclass / annotated field -> annotation text

    @property
    def qual(self) -> str:
        return f"{self.module}:{self.name}"


@dataclass
class Effect:
    kind: str
    detail: str
    lineno: int


@dataclass
class Store:
    roots: frozenset  # of ('param', name) ('self',) ('global', name) ('fresh',) ('unknown', text)
    what: str  # attribute path text, e.g. node.value / doc.sections.append
    attr: str  # last attribute stored or mutated ('' for subscript on a bare name)
    lineno: int
    kind: str  # 'attr' | 'subscript' | 'mutcall' | 'del' | 'global'


@dataclass
class FuncInfo:
    module: str
    qualname: str
    node: ast.FunctionDef | ast.AsyncFunctionDef
    cls: ClassInfo | None
    params: list[str]
    calls: list[tuple[tuple, int]] = field(default_factory=list)  # (descriptor, lineno)
    effects: list[Effect] = field(default_factory=list)
    stores: list[Store] = field(default_factory=list)
    attr_loads: list[tuple[str, str, int]] = field(default_factory=list)  # (receiver text, attr, lineno)
    has_await: bool = False
    is_async: bool = False

    @property
    def key(self) -> str:
        return f"{self.module}:{self.qualname}"


class Package:
    def __init__(self) -> None:
        self.modules: dict[str, ast.Module] = {}
        self.imports: dict[str, dict[str, tuple[str, str | None]]] = {}  # module -> local name -> (module, attr|None)
        self.funcs: dict[str, FuncInfo] = {}
        self.classes: dict[str, ClassInfo] = {}  # "module:Class"
        self.class_by_name: dict[str, list[ClassInfo]] = {}
        self.module_globals: dict[str, set[str]] = {}
        self.set_typed_globals: dict[str, set[str]] = {}
        self.immutable_globals: dict[str, set[str]] = {}
        self.dynamic_sites: list[tuple[str, int, str]] = []
        self._load()
        self._analyse()

    # ---- loading ---------------------------------------------------------------------------------
    def _load(self) -> None:
        for p in sorted(PKG.rglob("*.py")):
            rel = p.relative_to(SRC).with_suffix("")
            mod = ".".join(rel.parts)
            if mod.endswith(".__init__"):
                mod = mod[: -len(".__init__")]
            try:
                tree = ast.parse(p.read_text(encoding="utf-8"), filename=str(p))
            except SyntaxError:
                continue
            self.modules[mod] = tree
        for mod, tree in self.modules.items():
            imps: dict[str, tuple[str, str | None]] = {}
            globs: set[str] = set()
            setg: set[str] = set()
            for st in ast.walk(tree):
                if isinstance(st, ast.Import):
                    for a in st.names:
                        imps[(a.asname or a.name).split(".")[0]] = (a.name if a.asname else a.name.split(".")[0], None)
                elif isinstance(st, ast.ImportFrom) and st.module:
                    base = st.module
                    if st.level:
                        parts = mod.split(".")
                        base = ".".join(parts[: len(parts) - st.level] + ([st.module] if st.module else []))
                    for a in st.names:
                        imps[a.asname or a.name] = (base, a.name)
            for st in tree.body:
                tgts = []
                val = None
                if isinstance(st, ast.Assign):
                    tgts = [t.id for t in st.targets if isinstance(t, ast.Name)]
                    val = st.value
                elif isinstance(st, ast.AnnAssign) and isinstance(st.target, ast.Name):
                    tgts = [st.target.id]
                    val = st.value
                    if "set" in ast.unparse(st.annotation).split("[")[0].lower():
                        setg.update(tgts)
                globs.update(tgts)
                if val is not None and _is_set_expr_syntactic(val):
                    setg.update(tgts)
                if val is not None and _is_immutable_expr(val):
                    self.immutable_globals.setdefault(mod, set()).update(tgts)
            self.imports[mod] = imps
            self.module_globals[mod] = globs
            self.set_typed_globals[mod] = setg
            self._collect_defs(mod, tree.body, None, "")

    def _collect_defs(self, mod: str, body: list[ast.stmt], cls: ClassInfo | None, prefix: str) -> None:
        for st in body:
            if isinstance(st, ast.ClassDef):
                ci = ClassInfo(mod, st.name, st, [ast.unparse(b) for b in st.bases])
                for d in st.decorator_list:
                    if "dataclass" in ast.unparse(d):
                        ci.is_dataclass = True
                ci.is_enum = any(b.split(".")[-1] in ("Enum", "IntEnum", "StrEnum", "Flag") for b in ci.bases)
                ci.is_exception = any(b.split(".")[-1].endswith(("Exception", "Error")) for b in ci.bases)
                for s2 in st.body:
                    if isinstance(s2, ast.AnnAssign) and isinstance(s2.target, ast.Name):
                        ci.fields[s2.target.id] = ast.unparse(s2.annotation)
                    if isinstance(s2, (ast.FunctionDef, ast.AsyncFunctionDef)) and s2.name in ("__repr__", "__str__"):
                        ci.has_repr = True
                self.classes[ci.qual] = ci
                self.class_by_name.setdefault(st.name, []).append(ci)
                self._collect_defs(mod, st.body, ci, prefix + st.name + ".")
            elif isinstance(st, (ast.FunctionDef, ast.AsyncFunctionDef)):
                fi = FuncInfo(mod, prefix + st.name, st, cls, [a.arg for a in st.args.posonlyargs + st.args.args + st.args.kwonlyargs] + ([st.args.vararg.arg] if st.args.vararg else []) + ([st.args.kwarg.arg] if st.args.kwarg else []))
                fi.is_async = isinstance(st, ast.AsyncFunctionDef)
                self.funcs[fi.key] = fi
                if cls is not None and prefix == cls.name + ".":
                    cls.methods[st.name] = fi
                # nested defs
                self._collect_defs(mod, st.body, None, prefix + st.name + ".<locals>.")

    # ---- resolution helpers ----------------------------------------------------------------------
    def resolve_name(self, mod: str, name: str) -> tuple[str, str] | None:
        """local name -> ('func'|'class'|'module'|'ext', key)"""
        if f"{mod}:{name}" in self.funcs:
            return ("func", f"{mod}:{name}")
        if f"{mod}:{name}" in self.classes:
            return ("class", f"{mod}:{name}")
        imp = self.imports.get(mod, {}).get(name)
        if imp:
            m, a = imp
            if a is None:
                return ("module", m)
            if m in self.modules:
                if f"{m}:{a}" in self.funcs:
                    return ("func", f"{m}:{a}")
                if f"{m}:{a}" in self.classes:
                    return ("class", f"{m}:{a}")
                if f"{m}.{a}" in self.modules:
                    return ("module", f"{m}.{a}")
                # re-export through package __init__
                r = self.resolve_name(m, a)
                if r:
                    return r
                return ("ext", f"{m}.{a}")
            return ("ext", f"{m}.{a}")
        return None

    def mro(self, ci: ClassInfo) -> list[ClassInfo]:
        out = [ci]
        for b in ci.bases:
            r = self.resolve_name(ci.module, b.split(".")[-1]) if "." not in b else None
            if r is None:
                r = self.resolve_name(ci.module, b)
            if r and r[0] == "class":
                for c in self.mro(self.classes[r[1]]):
                    if c not in out:
                        out.append(c)
        return out

    def subclasses(self, ci: ClassInfo) -> list[ClassInfo]:
        return [c for c in self.classes.values() if ci in self.mro(c)]

    def find_method(self, ci: ClassInfo, name: str) -> list[FuncInfo]:
        out = []
        for c in self.mro(ci):
            if name in c.methods:
                out.append(c.methods[name])
                break
        # dynamic dispatch: overriding methods in subclasses
        for c in self.subclasses(ci):
            if c is not ci and name in c.methods and c.methods[name] not in out:
                out.append(c.methods[name])
        return out

    def methods_named(self, name: str) -> list[FuncInfo]:
        return [c.methods[name] for c in self.classes.values() if name in c.methods]

    # ---- per-function analysis --------------------------------------------------------------------
    def _analyse(self) -> None:
        for fi in list(self.funcs.values()):
            FuncVisitor(self, fi).run()
        for mod, tree in self.modules.items():
            for n in ast.walk(tree):
                if isinstance(n, ast.Call) and isinstance(n.func, ast.Name) and n.func.id in ("getattr", "setattr", "exec", "eval", "globals", "delattr", "__import__", "vars", "locals"):
                    # hasattr is harmless; getattr with a constant name is a plain attribute load
                    if n.func.id == "getattr" and len(n.args) >= 2 and isinstance(n.args[1], ast.Constant):
                        continue
                    self.dynamic_sites.append((mod, n.lineno, ast.unparse(n)[:80]))

    # ---- closure ---------------------------------------------------------------------------------
    def callees(self, fi: FuncInfo) -> list[tuple[FuncInfo, int]]:
        out: list[tuple[FuncInfo, int]] = []
        for desc, ln in fi.calls:
            kind = desc[0]
            if kind == "func":
                f = self.funcs.get(desc[1])
                if f:
                    out.append((f, ln))
            elif kind == "class":
                ci = self.classes.get(desc[1])
                if ci:
                    for m in ("__init__", "__post_init__", "__new__"):
                        for f in self.find_method(ci, m):
                            out.append((f, ln))
            elif kind == "method":
                ci = self.classes.get(desc[1])
                if ci:
                    for f in self.find_method(ci, desc[2]):
                        out.append((f, ln))
            elif kind == "anymethod":
                for f in self.methods_named(desc[1]):
                    out.append((f, ln))
        return out

    @lru_cache(maxsize=None)
    def reachable(self, key: str) -> tuple[str, ...]:
        seen = [key]
        s = {key}
        i = 0
        while i < len(seen):
            fi = self.funcs.get(seen[i])
            i += 1
            if not fi:
                continue
            for f, _ in self.callees(fi):
                if f.key not in s:
                    s.add(f.key)
                    seen.append(f.key)
            # nested functions defined inside are reachable (they are called or returned)
            pre = fi.key + ".<locals>."
            for k in self.funcs:
                if k.startswith(pre) and k not in s:
                    s.add(k)
                    seen.append(k)
        return tuple(seen)

    def closure_effects(self, key: str) -> list[tuple[str, Effect]]:
        out = []
        for k in self.reachable(key):
            fi = self.funcs.get(k)
            if fi:
                for e in fi.effects:
                    out.append((k, e))
                if fi.has_await:
                    out.append((k, Effect("await", "await / async for / async with", fi.node.lineno)))
        return out

    def call_path(self, src: str, dst: str) -> list[str]:
        prev = {src: None}
        dq = [src]
        while dq:
            k = dq.pop(0)
            if k == dst:
                path = []
                while k is not None:
                    path.append(k)
                    k = prev[k]
                return list(reversed(path))
            fi = self.funcs.get(k)
            if not fi:
                continue
            nxt = [f.key for f, _ in self.callees(fi)] + [x for x in self.funcs if x.startswith(k + ".<locals>.")]
            for n in nxt:
                if n not in prev:
                    prev[n] = k
                    dq.append(n)
        return []


def _is_immutable_expr(e: ast.AST) -> bool:
    if isinstance(e, ast.Constant):
        return True
    if isinstance(e, ast.JoinedStr):
        return True
    if isinstance(e, ast.Tuple):
        return all(_is_immutable_expr(x) for x in e.elts)
    if isinstance(e, ast.BinOp):
        return _is_immutable_expr(e.left) and _is_immutable_expr(e.right)
    if isinstance(e, ast.Name):
        return True  # alias of another module constant / None / True
    if isinstance(e, ast.Call):
        f = ast.unparse(e.func)
        if f in ("frozenset", "re.compile", "tuple", "str", "int", "float", "logging.getLogger", "TypeVar", "Path"):
            return True
    if isinstance(e, ast.Attribute):
        return True  # Enum member / module attribute
    if isinstance(e, ast.UnaryOp):
        return _is_immutable_expr(e.operand)
    return False


def _is_set_expr_syntactic(e: ast.AST) -> bool:
    if isinstance(e, (ast.Set, ast.SetComp)):
        return True
    if isinstance(e, ast.Call) and isinstance(e.func, ast.Name) and e.func.id in ("set", "frozenset"):
        return True
    return False


class FuncVisitor(ast.NodeVisitor):
    def __init__(self, pkg: Package, fi: FuncInfo):
        self.pkg = pkg
        self.fi = fi
        self.mod = fi.module
        self.var_regions: dict[str, tuple[set, set]] = {}
        self.var_type: dict[str, str] = {}  # local -> 'Path' | 'set' | 'list' | 'dict' | 'str' | class qual
        self.globals_declared: set[str] = set()
        self.locals: set[str] = set(fi.params)

    # ---- type & root inference (flow-insensitive) ------------------------------------------------
    def run(self) -> None:
        fn = self.fi.node
        # a memoised function (functools.lru_cache / cache) that hands out a MUTABLE object shares that object between
        # all callers of the process: state carried across calls, like a module-level container
        decos = [ast.unparse(d.func if isinstance(d, ast.Call) else d).split(".")[-1] for d in fn.decorator_list]
        if any(d in ("lru_cache", "cache", "cached_property") for d in decos):
            local_ctor: set[str] = set()
            for n in ast.walk(fn):
                if isinstance(n, ast.Assign) and len(n.targets) == 1 and isinstance(n.targets[0], ast.Name) and _mutable_expr(n.value):
                    local_ctor.add(n.targets[0].id)
            local_call: dict[str, ast.Call] = {}
            for n in ast.walk(fn):
                if isinstance(n, ast.Assign) and len(n.targets) == 1 and isinstance(n.targets[0], ast.Name) and isinstance(n.value, ast.Call):
                    local_call[n.targets[0].id] = n.value
            own_ret = ast.unparse(fn.returns) if fn.returns is not None else ""
            for n in ast.walk(fn):
                # ... or the result of a package function / class that builds a mutable object (a parsed Document, a
                # SchemaDefinition): whoever edits the object a caller was handed edits every later caller's answer
                v = n.value if isinstance(n, ast.Return) else None
                if isinstance(v, ast.Name) and v.id in local_call:
                    v = local_call[v.id]
                if isinstance(v, ast.Call) and not _immutable_annotation(own_ret) and self._package_call_builds_mutable(v):
                    self.fi.effects.append(Effect("global_write", f"@{[d for d in decos if d in ('lru_cache', 'cache', 'cached_property')][0]} function hands out the mutable object built by {ast.unparse(v.func)}(...): shared between calls of the process", n.lineno))
                    break
            for n in ast.walk(fn):
                if isinstance(n, ast.Return) and n.value is not None and (_mutable_expr(n.value) or (isinstance(n.value, ast.Name) and n.value.id in local_ctor)):
                    self.fi.effects.append(Effect("global_write", f"@{[d for d in decos if d in ('lru_cache', 'cache', 'cached_property')][0]} function returns a mutable object ({ast.unparse(n.value)[:40]}): shared between calls of the process", n.lineno))
                    break
        # a memo is keyed by == / hash of the arguments: it is transparent only when equal arguments are
        # indistinguishable to the body. True == 1 == 1.0 and 0.0 == -0.0 are equal-but-distinct, so a memoised
        # function that may receive numbers answers according to which twin was seen first (call history)
        memo = [d for d in fn.decorator_list if ast.unparse(d.func if isinstance(d, ast.Call) else d).split(".")[-1] in ("lru_cache", "cache")]
        if memo:
            typed = any(isinstance(d, ast.Call) and any(k.arg == "typed" and isinstance(k.value, ast.Constant) and k.value.value is True for k in d.keywords) for d in memo)
            for a in fn.args.posonlyargs + fn.args.args + fn.args.kwonlyargs + [x for x in (fn.args.vararg, fn.args.kwarg) if x]:
                if a.arg in ("self", "cls"):
                    continue
                ann = ast.unparse(a.annotation) if a.annotation is not None else "Any"
                if not _faithful_key(ann, typed):
                    self.fi.effects.append(Effect("memo_key", f"memo of {self.fi.key.split(':')[-1]} is keyed by == on `{a.arg}: {ann}`: equal-but-distinct arguments (True/1/1.0, 0.0/-0.0) share one entry, so the answer depends on which was seen first", fn.lineno))
        # parameter annotations
        for a in fn.args.posonlyargs + fn.args.args + fn.args.kwonlyargs:
            if a.annotation is not None:
                t = self._type_of_annotation(a.annotation)
                if t:
                    self.var_type[a.arg] = t
        own = _own_nodes(fn)
        for n in own:
            if isinstance(n, ast.Global):
                self.globals_declared.update(n.names)
        # collect local names
        for n in own:
            if isinstance(n, (ast.Import, ast.ImportFrom)):
                # a function-local import binds a module / function name, not a local value: calls through it must be
                # resolved like calls through a module-level import (Package._load records both kinds), otherwise
                # everything reached through a late import drops out of the call graph
                continue
            for t in _targets_of(n):
                for nm in _names_in_target(t):
                    if nm not in self.globals_declared:
                        self.locals.add(nm)
        # fixpoint on roots / types
        for _ in range(4):
            for n in own:
                if isinstance(n, ast.Assign):
                    for t in n.targets:
                        self._bind(t, n.value)
                elif isinstance(n, ast.AnnAssign) and n.value is not None:
                    self._bind(n.target, n.value)
                    if isinstance(n.target, ast.Name):
                        t = self._type_of_annotation(n.annotation)
                        if t:
                            self.var_type[n.target.id] = t
                elif isinstance(n, ast.AugAssign):
                    self._bind(n.target, n.value, aug=True)
                elif isinstance(n, (ast.For, ast.AsyncFor)):
                    self._bind(n.target, n.iter, elem=True)
                elif isinstance(n, ast.comprehension):
                    self._bind(n.target, n.iter, elem=True)
                elif isinstance(n, (ast.With, ast.AsyncWith)):
                    for it in n.items:
                        if it.optional_vars is not None:
                            self._bind(it.optional_vars, it.context_expr)
                elif isinstance(n, ast.NamedExpr):
                    self._bind(n.target, n.value)
        for n in own:
            self.visit_node(n)

    def _package_call_builds_mutable(self, call: ast.Call) -> bool:
        f = call.func
        r = self.pkg.resolve_name(self.mod, f.id) if isinstance(f, ast.Name) else None
        if r is None:
            return False
        kind, key = r
        if kind == "class":
            ci = self.pkg.classes.get(key)
            if ci is None or ci.is_enum or ci.is_exception:
                return False
            frozen = any(isinstance(d, ast.Call) and any(k.arg == "frozen" and isinstance(k.value, ast.Constant) and k.value.value is True for k in d.keywords) for d in ci.node.decorator_list)
            return not frozen
        if kind == "func":
            g = self.pkg.funcs.get(key)
            if g is None:
                return False
            ann = ast.unparse(g.node.returns) if g.node.returns is not None else ""
            return not _immutable_annotation(ann)
        return False

    def _type_of_annotation(self, ann: ast.AST) -> str | None:
        txt = ast.unparse(ann).replace('"', "").replace("'", "")
        head = txt.split("[")[0].split("|")[0].strip()
        if head in ("Path", "pathlib.Path"):
            return "Path"
        if head in ("set", "frozenset", "Set", "FrozenSet"):
            return "set"
        if head in ("list", "List"):
            return "list"
        if head in ("dict", "Dict"):
            return "dict"
        if head == "str":
            return "str"
        r = self.pkg.resolve_name(self.mod, head.split(".")[-1])
        if r and r[0] == "class":
            return r[1]
        return None

    def type_of(self, e: ast.AST) -> str | None:
        if isinstance(e, ast.Name):
            if e.id in self.var_type:
                return self.var_type[e.id]
            if e.id == "self" and self.fi.cls:
                return self.fi.cls.qual
            if e.id not in self.locals and e.id in self.pkg.set_typed_globals.get(self.mod, ()):
                return "set"
            return None
        if isinstance(e, (ast.Set, ast.SetComp)):
            return "set"
        if isinstance(e, (ast.List, ast.ListComp)):
            return "list"
        if isinstance(e, (ast.Dict, ast.DictComp)):
            return "dict"
        if isinstance(e, (ast.JoinedStr,)) or (isinstance(e, ast.Constant) and isinstance(e.value, str)):
            return "str"
        if isinstance(e, ast.Call):
            f = e.func
            if isinstance(f, ast.Name):
                if f.id in ("set", "frozenset"):
                    return "set"
                if f.id in ("list", "sorted"):
                    return "list"
                if f.id == "dict":
                    return "dict"
                if f.id == "str":
                    return "str"
                if f.id == "Path":
                    return "Path"
                r = self.pkg.resolve_name(self.mod, f.id)
                if r and r[0] == "class":
                    return r[1]
            if isinstance(f, ast.Attribute):
                rt = self.type_of(f.value)
                if rt == "Path" and f.attr in ("absolute", "resolve", "with_suffix", "with_name", "joinpath", "expanduser", "relative_to"):
                    return "Path"
                if rt == "set" and f.attr in ("union", "intersection", "difference", "copy", "symmetric_difference"):
                    return "set"
                if f.attr == "cwd" and ast.unparse(f.value) in ("Path", "pathlib.Path"):
                    return "Path"
            return None
        if isinstance(e, ast.BinOp):
            lt, rt = self.type_of(e.left), self.type_of(e.right)
            if isinstance(e.op, ast.Div) and (lt == "Path" or rt == "Path"):
                return "Path"
            if isinstance(e.op, (ast.BitOr, ast.BitAnd, ast.Sub, ast.BitXor)) and (lt == "set" or rt == "set"):
                return "set"
            return None
        if isinstance(e, ast.Attribute):
            rt = self.type_of(e.value)
            if rt == "Path" and e.attr in ("parent",):
                return "Path"
            if rt and rt in self.pkg.classes:
                for c in self.pkg.mro(self.pkg.classes[rt]):
                    if e.attr in c.fields:
                        return self._type_of_annotation(ast.parse(c.fields[e.attr], mode="eval").body)
            return None
        if isinstance(e, ast.IfExp):
            return self.type_of(e.body) or self.type_of(e.orelse)
        return None

    def regions(self, e: ast.AST) -> tuple[set, set]:
        """(self_regions, elem_regions): regions the object denoted by `e` may live in, and regions of
        the objects reachable through it. Regions: ('param', p) = everything reachable from p at entry,
        ('self',), ('global', g) for MUTABLE module-level objects, ('fresh',), ('unknown', text)."""
        F = ("fresh",)
        if isinstance(e, ast.Name):
            if e.id == "self":
                return {("self",)}, {("self",)}
            if e.id in self.fi.params:
                r = {("param", e.id)}
                vs, ve = self.var_regions.get(e.id, (set(), set()))
                return r | vs, r | ve
            if e.id in self.locals:
                vs, ve = self.var_regions.get(e.id, ({F}, set()))
                return set(vs), set(ve)
            if e.id in self.globals_declared or e.id in self.pkg.module_globals.get(self.mod, ()):
                if e.id in self.pkg.immutable_globals.get(self.mod, ()) and e.id not in self.globals_declared:
                    return set(), set()
                return {("global", e.id)}, {("global", e.id)}
            r = self.pkg.resolve_name(self.mod, e.id)
            if r and r[0] == "ext":
                return {("global", e.id)}, {("global", e.id)}
            return set(), set()
        if isinstance(e, (ast.Attribute, ast.Subscript, ast.Starred)):
            s_, e_ = self.regions(e.value)
            r = (s_ - {F}) | e_
            return set(r), set(r)
        if isinstance(e, (ast.Constant, ast.JoinedStr, ast.Compare, ast.UnaryOp, ast.Lambda)):
            return set(), set()
        if isinstance(e, ast.BoolOp):
            ss, ee = set(), set()
            for v in e.values:
                a, b = self.regions(v)
                ss |= a
                ee |= b
            return ss, ee
        if isinstance(e, ast.IfExp):
            a, b = self.regions(e.body)
            c, d = self.regions(e.orelse)
            return a | c, b | d
        if isinstance(e, (ast.NamedExpr, ast.Await)):
            return self.regions(e.value)
        if isinstance(e, ast.BinOp):
            if isinstance(e.op, ast.Mod):
                return set(), set()
            a, b = self.regions(e.left)
            c, d = self.regions(e.right)
            # list + list etc. builds a fresh container holding the operands' elements
            return {F}, (b | d | ((a | c) - {F}))
        if isinstance(e, (ast.List, ast.Tuple, ast.Set, ast.Dict)):
            ee = set()
            elts = e.values if isinstance(e, ast.Dict) else e.elts
            for x in elts:
                if x is None:
                    continue
                a, b = self.regions(x)
                ee |= (a - {F}) | b
            return {F}, ee
        if isinstance(e, (ast.ListComp, ast.SetComp, ast.GeneratorExp, ast.DictComp)):
            elt = e.value if isinstance(e, ast.DictComp) else e.elt
            a, b = self.regions(elt)
            return {F}, (a - {F}) | b
        if isinstance(e, ast.Call):
            f = e.func
            args = list(e.args) + [k.value for k in e.keywords]
            allr = set()
            for x in args:
                a, b = self.regions(x)
                allr |= (a - {F}) | b
            if isinstance(f, ast.Name):
                if f.id in ("str", "int", "float", "bool", "len", "repr", "any", "all", "sum", "isinstance", "hasattr", "range", "type", "abs", "round", "ord", "chr", "format"):
                    return set(), set()
                if f.id in FRESH_CALLS:
                    if f.id in ("next", "min", "max"):
                        return set(allr), set(allr)
                    return {F}, allr
                r = self.pkg.resolve_name(self.mod, f.id)
                if r and r[0] == "class":
                    return {F}, allr
            if isinstance(f, ast.Attribute):
                rs, re_ = self.regions(f.value)
                if f.attr in SCALAR_METHODS and f.attr not in ("get", "items", "values", "copy", "group", "groups"):
                    return set(), set()
                if f.attr in ("copy", "items", "values", "keys"):
                    return {F}, (rs - {F}) | re_
                recv = (rs - {F}) | re_
                return {F} | recv | allr, recv | allr
            return {F} | allr, allr
        return {("unknown", ast.unparse(e)[:40])}, {("unknown", ast.unparse(e)[:40])}

    def roots(self, e: ast.AST) -> set:
        """Regions of the object denoted by `e` itself (what a store through `e` mutates)."""
        return self.regions(e)[0]

    def _bind(self, target: ast.AST, value: ast.AST, elem: bool = False, aug: bool = False) -> None:
        F = ("fresh",)
        if isinstance(target, ast.Name):
            if target.id in self.globals_declared:
                return
            s_, e_ = self.regions(value)
            if elem:
                r = (s_ - {F}) | e_
                s_, e_ = set(r), set(r)
            cur = self.var_regions.setdefault(target.id, (set(), set()))
            cur[0].update(s_ if (s_ or e_) else {F})
            cur[1].update(e_)
            if not elem and not aug:
                t = self.type_of(value)
                if t:
                    self.var_type.setdefault(target.id, t)
        elif isinstance(target, (ast.Tuple, ast.List)):
            for t in target.elts:
                self._bind(t, value, elem=True)
        elif isinstance(target, ast.Starred):
            self._bind(target.value, value, elem=True)

    # ---- visiting ----------------------------------------------------------------------------------
    def visit_node(self, n: ast.AST) -> None:
        fi = self.fi
        if isinstance(n, (ast.Await, ast.AsyncFor, ast.AsyncWith)):
            fi.has_await = True
        if isinstance(n, ast.Global):
            for nm in n.names:
                fi.stores.append(Store(frozenset({("global", nm)}), f"global {nm}", nm, n.lineno, "global"))
                fi.effects.append(Effect("global_write", f"global {nm}", n.lineno))
        if isinstance(n, (ast.Assign, ast.AugAssign, ast.AnnAssign)):
            tgts = n.targets if isinstance(n, ast.Assign) else [n.target]
            for t in tgts:
                for tt in _flatten_targets(t):
                    self._store(tt, n.lineno)
            if isinstance(n, ast.AugAssign) and isinstance(n.target, ast.Name) and isinstance(n.op, (ast.Add, ast.BitOr, ast.BitAnd, ast.Sub, ast.Mult)):
                # `x += [...]` on a local NAME that aliases an object reachable from a parameter / self / a module
                # object extends that object IN PLACE (list.__iadd__, set.__ior__ ...): a store through the alias.
                # Numbers and strings are immutable: only names whose value is not known to be one of those count.
                r = {x for x in self.roots(n.target) if x[0] != "fresh"}
                t = self.type_of(n.target)
                if r and t not in ("int", "float", "str", "bool", "tuple", "bytes") and not _is_scalar_expr(n.value):
                    fi.stores.append(Store(frozenset(r), f"{ast.unparse(n.target)} {type(n.op).__name__}= ... (in place through an alias)", "", n.lineno, "aug-inplace"))
                    self._global_write_check(r, ast.unparse(n)[:60], n.lineno)
        if isinstance(n, ast.Return) and n.value is not None and not isinstance(n.value, (ast.Constant, ast.Compare, ast.JoinedStr)):
            # a function that hands out a MUTABLE module-level object (or something reachable through one) leaks process
            # state into its callers: a caller that edits what it was handed (a store through a parameter, far away) edits
            # every later caller's answer. regions() already drops immutable module constants. Scalars read out of a global
            # (a str / int / bool / enum member / None by annotation or by expression shape) are not objects to edit.
            try:
                rs, re_ = self.regions(n.value)
                if isinstance(n.value, (ast.Tuple, ast.List, ast.Dict, ast.Set)):
                    rs = rs | re_  # a fresh tuple / list holding the object hands the object out all the same
                gs = sorted({r[1] for r in rs if r[0] == "global"})
            except Exception:  # noqa: BLE001
                gs = []
            if gs and self.type_of(n.value) not in ("int", "float", "str", "bool", "bytes", "Path", "frozenset") and not _is_scalar_expr(n.value):
                ret = ast.unparse(self.fi.node.returns) if self.fi.node.returns is not None else ""
                if not _immutable_annotation(ret):
                    self.fi.effects.append(Effect("global_escape", f"returns (part of) the mutable module-level object {', '.join(gs)}: `{ast.unparse(n.value)[:60]}`", n.lineno))
        if isinstance(n, ast.Delete):
            for t in n.targets:
                self._store(t, n.lineno, kind="del")
        if isinstance(n, (ast.For, ast.AsyncFor, ast.comprehension)):
            self._iteration(n.iter, n.lineno if hasattr(n, "lineno") else getattr(n.iter, "lineno", 0), in_comp=isinstance(n, ast.comprehension), comp_parent=None)
        if isinstance(n, ast.Attribute) and isinstance(n.ctx, ast.Load):
            fi.attr_loads.append((ast.unparse(n.value)[:60], n.attr, n.lineno))
            d = self._dotted(n)
            if d in DOTTED_EFFECTS and d in ("os.environ", "sys.argv", "sys.stdin"):
                fi.effects.append(Effect(DOTTED_EFFECTS[d], d, n.lineno))
        if isinstance(n, ast.Call):
            self._call(n)
        if isinstance(n, ast.JoinedStr):
            for v in n.values:
                if isinstance(v, ast.FormattedValue):
                    self._stringify(v.value, n.lineno)

    def _dotted(self, e: ast.AST) -> str:
        parts = []
        while isinstance(e, ast.Attribute):
            parts.append(e.attr)
            e = e.value
        if isinstance(e, ast.Name):
            base = e.id
            if base in self.locals and base != "self":
                return ""
            imp = self.pkg.imports.get(self.mod, {}).get(base)
            if imp:
                m, a = imp
                base = m if a is None else (a if m in ("datetime", "pathlib", "os", "time") else f"{m}.{a}")
                if a is not None and m == "os" and a == "path":
                    base = "os.path"
            parts.append(base)
            return ".".join(reversed(parts))
        return ""

    def _store(self, t: ast.AST, lineno: int, kind: str | None = None) -> None:
        fi = self.fi
        if isinstance(t, ast.Name):
            if t.id in self.globals_declared:
                fi.stores.append(Store(frozenset({("global", t.id)}), t.id, t.id, lineno, "global"))
                fi.effects.append(Effect("global_write", f"{t.id} = ...", lineno))
            return
        if isinstance(t, ast.Attribute):
            r = self.roots(t.value)
            if isinstance(t.value, ast.Name) and t.value.id not in self.locals:
                rr = self.pkg.resolve_name(self.mod, t.value.id)
                if rr and rr[0] == "class":
                    r = r | {("global", t.value.id)}
            fi.stores.append(Store(frozenset(r), ast.unparse(t), t.attr, lineno, kind or "attr"))
            self._global_write_check(r, ast.unparse(t), lineno)
        elif isinstance(t, ast.Subscript):
            r = self.roots(t.value)
            attr = t.value.attr if isinstance(t.value, ast.Attribute) else ""
            fi.stores.append(Store(frozenset(r), ast.unparse(t), attr, lineno, kind or "subscript"))
            self._global_write_check(r, ast.unparse(t), lineno)

    def _global_write_check(self, roots: set, what: str, lineno: int) -> None:
        for r in roots:
            if r[0] == "global":
                self.fi.effects.append(Effect("global_write", f"{what} (module-level object {r[1]})", lineno))
            if r == ("param", "cls") and self.fi.cls is not None:
                self.fi.effects.append(Effect("global_write", f"{what} (class attribute)", lineno))

    def _is_set_typed(self, e: ast.AST) -> bool:
        return self.type_of(e) == "set"

    def _iteration(self, it: ast.AST, lineno: int, in_comp: bool, comp_parent) -> None:
        if self._is_set_typed(it):
            self.fi.effects.append(Effect("hash_order", f"iteration over set-typed {ast.unparse(it)[:60]}", getattr(it, "lineno", lineno)))

    def _stringify(self, e: ast.AST, lineno: int) -> None:
        if self._is_set_typed(e):
            self.fi.effects.append(Effect("hash_order", f"str of set-typed {ast.unparse(e)[:60]}", lineno))
        t = self.type_of(e)
        if t and t in self.pkg.classes:
            ci = self.pkg.classes[t]
            if not _deterministic_repr(self.pkg, ci):
                self.fi.effects.append(Effect("identity", f"str() of {ci.name} instance (no deterministic repr)", lineno))

    def _call(self, n: ast.Call) -> None:
        fi = self.fi
        f = n.func
        ln = n.lineno
        if isinstance(f, ast.Name):
            name = f.id
            if name in self.locals and name not in ("self",):
                # call of a local: nested def or a callable parameter
                k = f"{self.mod}:{fi.qualname}.<locals>.{name}"
                if k in self.pkg.funcs:
                    fi.calls.append((("func", k), ln))
                else:
                    # enclosing function's nested defs (sibling closures)
                    q = fi.qualname
                    while ".<locals>." in q:
                        q = q.rsplit(".<locals>.", 1)[0]
                        k2 = f"{self.mod}:{q}.<locals>.{name}"
                        if k2 in self.pkg.funcs:
                            fi.calls.append((("func", k2), ln))
                            break
                return
            if name == "open":
                mode = None
                if len(n.args) > 1 and isinstance(n.args[1], ast.Constant):
                    mode = n.args[1].value
                for kw in n.keywords:
                    if kw.arg == "mode" and isinstance(kw.value, ast.Constant):
                        mode = kw.value.value
                write = bool(mode) and any(c in str(mode) for c in "wax+")
                fi.effects.append(Effect("fs_write" if write else "fs_read", f"open({ast.unparse(n.args[0])[:40] if n.args else ''}, {mode!r})", ln))
                binary = bool(mode) and "b" in str(mode)
                if not binary and not any(kw.arg == "encoding" for kw in n.keywords):
                    fi.effects.append(Effect("locale", f"open() without encoding= at line {ln}", ln))
                return
            if name in ("id", "hash"):
                fi.effects.append(Effect("identity", f"{name}()", ln))
            if name in ("str", "repr") and n.args:
                self._stringify(n.args[0], ln)
            if name in ("sorted", "min", "max") and n.args and self._is_set_typed(n.args[0]) and any(kw.arg == "key" for kw in n.keywords):
                # a sort key need not be injective: elements with equal keys keep the set's (hash) order
                fi.effects.append(Effect("hash_order", f"{name}(..., key=...) over set-typed {ast.unparse(n.args[0])[:50]}: ties keep hash order", ln))
            if name in ("list", "tuple") and n.args and self._is_set_typed(n.args[0]):
                fi.effects.append(Effect("hash_order", f"{name}() of set-typed {ast.unparse(n.args[0])[:50]}", ln))
            if name == "print":
                fi.effects.append(Effect("stdout", "print", ln))
            # nested function of an enclosing scope?
            q = fi.qualname
            found = False
            while True:
                k = f"{self.mod}:{q}.<locals>.{name}"
                if k in self.pkg.funcs:
                    fi.calls.append((("func", k), ln))
                    found = True
                    break
                if ".<locals>." not in q:
                    break
                q = q.rsplit(".<locals>.", 1)[0]
            if found:
                return
            r = self.pkg.resolve_name(self.mod, name)
            if r:
                if r[0] in ("func", "class"):
                    fi.calls.append(((r[0], r[1]), ln))
                elif r[0] == "ext":
                    self._ext_effect(r[1], ln)
            return
        if isinstance(f, ast.Attribute):
            attr = f.attr
            d = self._dotted(f)
            if d:
                self._ext_effect(d, ln)
            recv = f.value
            # join over a set
            if attr == "join" and n.args and self._is_set_typed(n.args[0]):
                fi.effects.append(Effect("hash_order", f"join over set-typed {ast.unparse(n.args[0])[:50]}", ln))
            rt = self.type_of(recv)
            # module function?
            if isinstance(recv, ast.Name) and recv.id not in self.locals:
                r = self.pkg.resolve_name(self.mod, recv.id)
                if r and r[0] == "module":
                    m = r[1]
                    if m in self.pkg.modules:
                        if f"{m}:{attr}" in self.pkg.funcs:
                            fi.calls.append((("func", f"{m}:{attr}"), ln))
                        elif f"{m}:{attr}" in self.pkg.classes:
                            fi.calls.append((("class", f"{m}:{attr}"), ln))
                    return
                if r and r[0] == "class":
                    fi.calls.append((("method", r[1], attr), ln))
                    return
            # file-system methods
            if attr in FS_READ_METHODS and rt not in ("str", "dict", "list", "set") and not (rt and rt in self.pkg.classes):
                fi.effects.append(Effect("fs_read", f".{attr}()", ln))
                if attr in CWD_METHODS:
                    fi.effects.append(Effect("cwd", f".{attr}()", ln))
                if attr == "read_text" and not any(kw.arg == "encoding" for kw in n.keywords):
                    fi.effects.append(Effect("locale", f".read_text() without encoding= at line {ln}", ln))
            if attr in FS_WRITE_METHODS and rt not in ("str", "dict", "list", "set") and not (rt and rt in self.pkg.classes):
                fi.effects.append(Effect("fs_write", f".{attr}()", ln))
            if attr in FS_WRITE_METHODS_PATH_ONLY and rt == "Path":
                fi.effects.append(Effect("fs_write", f"Path.{attr}()", ln))
            # mutation
            is_repo_method = bool(rt and rt in self.pkg.classes and self.pkg.find_method(self.pkg.classes[rt], attr))
            if attr in MUTATORS and rt not in ("str",) and not is_repo_method:
                r = self.roots(recv)
                a = recv.attr if isinstance(recv, ast.Attribute) else ""
                fi.stores.append(Store(frozenset(r), ast.unparse(f), a, ln, "mutcall"))
                self._global_write_check(r, ast.unparse(f), ln)
            # repository method?
            if rt and rt in self.pkg.classes:
                fi.calls.append((("method", rt, attr), ln))
            elif rt in ("str", "list", "dict", "set", "Path"):
                pass
            else:
                if isinstance(recv, ast.Call) and isinstance(recv.func, ast.Name) and recv.func.id == "super" and fi.cls:
                    for c in self.pkg.mro(fi.cls)[1:]:
                        if attr in c.methods:
                            fi.calls.append((("func", c.methods[attr].key), ln))
                            break
                elif self.pkg.methods_named(attr):
                    fi.calls.append((("anymethod", attr), ln))

    def _ext_effect(self, dotted: str, ln: int) -> None:
        if dotted in DOTTED_EFFECTS:
            self.fi.effects.append(Effect(DOTTED_EFFECTS[dotted], dotted, ln))
            if dotted.startswith("tempfile."):
                self.fi.effects.append(Effect("fs_write", dotted, ln))
            return
        short = ".".join(dotted.split(".")[-2:])
        if short in DOTTED_EFFECTS:
            self.fi.effects.append(Effect(DOTTED_EFFECTS[short], dotted, ln))
            return
        for p, k in DOTTED_PREFIX_EFFECTS.items():
            if dotted.startswith(p):
                self.fi.effects.append(Effect(k, dotted, ln))
                return


def _deterministic_repr(pkg: Package, ci: ClassInfo) -> bool:
    for c in pkg.mro(ci):
        if c.is_dataclass or c.is_enum or c.has_repr or c.is_exception:
            return True
    return False


def _is_scalar_expr(e: ast.AST) -> bool:
    """the right-hand side is visibly a number / string (then `x += e` rebinds an immutable)"""
    if isinstance(e, ast.Constant) and isinstance(e.value, (int, float, str, bytes, bool)):
        return True
    if isinstance(e, ast.JoinedStr):
        return True
    if isinstance(e, ast.Call) and ast.unparse(e.func) in ("len", "int", "float", "str", "ord", "sum", "abs", "round"):
        return True
    if isinstance(e, ast.BinOp):
        return _is_scalar_expr(e.left) or _is_scalar_expr(e.right)
    return False


_FAITHFUL_ATOMS = {"str", "bytes", "None", "Path", "TokenType", "pathlib.Path"}


def _faithful_key(annotation: str, typed: bool) -> bool:
    """True when == on values of the annotated type implies they are indistinguishable: text, bytes, None, paths,
    enum members and tuples / frozensets of those; `int` (and `bool`) only under lru_cache(typed=True); never float
    (0.0 == -0.0, same type) and never Any / object / unannotated."""
    atoms = [a for a in re.split(r"[\s|,\[\]]+", annotation.replace("...", "")) if a]
    for a in atoms:
        if a in ("tuple", "frozenset", "Optional", "Union", "typing.Optional", "typing.Union"):
            continue
        if a in _FAITHFUL_ATOMS:
            continue
        if a in ("int", "bool") and typed:
            continue
        return False
    return bool(atoms)


def _immutable_annotation(ann: str) -> bool:
    """the annotated type is built from immutable scalars / tuples / frozensets only"""
    atoms = [a for a in re.split(r"[\s|,\[\]]+", ann.replace("...", "")) if a]
    return bool(atoms) and all(a in ("str", "int", "float", "bool", "bytes", "None", "tuple", "frozenset", "Path", "Optional", "re.Pattern", "Pattern", "Literal") or a.startswith(('"', "'")) for a in atoms)


def _mutable_expr(e: ast.AST) -> bool:
    """an expression that builds a fresh mutable object: a container display / comprehension, or a call of a
    capitalised name (a class) other than the immutable built-ins"""
    if isinstance(e, (ast.List, ast.Dict, ast.Set, ast.ListComp, ast.DictComp, ast.SetComp)):
        return True
    if isinstance(e, ast.Call):
        f = ast.unparse(e.func).split(".")[-1]
        if f in ("list", "dict", "set", "bytearray", "defaultdict", "OrderedDict", "deque", "Counter"):
            return True
        return f[:1].isupper() and f not in ("Path", "PurePath", "Decimal", "Fraction")
    return False


def _own_nodes(fn: ast.AST) -> list[ast.AST]:
    """All nodes of the function body except the bodies of nested defs/classes (lambdas included)."""
    out: list[ast.AST] = []
    stack = list(reversed(fn.body))
    while stack:
        n = stack.pop()
        out.append(n)
        if isinstance(n, (ast.FunctionDef, ast.AsyncFunctionDef, ast.ClassDef)):
            continue
        stack.extend(reversed(list(ast.iter_child_nodes(n))))
    return out


def _targets_of(n: ast.AST) -> list[ast.AST]:
    if isinstance(n, ast.Assign):
        return n.targets
    if isinstance(n, (ast.AnnAssign, ast.AugAssign, ast.NamedExpr)):
        return [n.target]
    if isinstance(n, (ast.For, ast.AsyncFor, ast.comprehension)):
        return [n.target]
    if isinstance(n, (ast.With, ast.AsyncWith)):
        return [it.optional_vars for it in n.items if it.optional_vars is not None]
    if isinstance(n, ast.ExceptHandler) and n.name:
        return [ast.Name(id=n.name, ctx=ast.Store())]
    if isinstance(n, (ast.FunctionDef, ast.AsyncFunctionDef, ast.ClassDef)):
        return [ast.Name(id=n.name, ctx=ast.Store())]
    if isinstance(n, (ast.Import, ast.ImportFrom)):
        return [ast.Name(id=(a.asname or a.name).split(".")[0], ctx=ast.Store()) for a in n.names]
    return []


def _names_in_target(t: ast.AST) -> list[str]:
    if isinstance(t, ast.Name):
        return [t.id]
    if isinstance(t, (ast.Tuple, ast.List)):
        out = []
        for e in t.elts:
            out += _names_in_target(e)
        return out
    if isinstance(t, ast.Starred):
        return _names_in_target(t.value)
    return []


def _flatten_targets(t: ast.AST) -> list[ast.AST]:
    if isinstance(t, (ast.Tuple, ast.List)):
        out = []
        for e in t.elts:
            out += _flatten_targets(e)
        return out
    if isinstance(t, ast.Starred):
        return _flatten_targets(t.value)
    return [t]


_PKG: Package | None = None


def package() -> Package:
    global _PKG
    if _PKG is None:
        _PKG = Package()
    return _PKG
