"""Guarded-store inference for response envelopes (C10, C20): for a tool's `execute` body, collect every
`return` with the guards (enclosing if/elif/else tests, try/except position) under which it is reached
and every store into the envelope dict with its guards. Sound under the structured-control-flow and
no-escape conditions that the analysis itself checks (any violation of those => 'unrecognised',
i.e. undecided, never a pass)."""
from __future__ import annotations

import ast
from dataclasses import dataclass, field

from verif import extract


@dataclass
class Guard:
    test: str
    positive: bool
    lineno: int


@dataclass
class Store:
    key: str
    value: ast.AST
    value_text: str
    guards: list[Guard]
    lineno: int
    block: list[ast.stmt]  # the statement list that contains the store
    index: int  # position in that list
    in_except: bool
    in_try: int  # depth of enclosing try bodies


@dataclass
class Ret:
    expr: ast.AST | None
    text: str
    guards: list[Guard]
    lineno: int
    in_except: bool
    in_try: int


@dataclass
class Report:
    var: str
    init: ast.Dict | None
    init_lineno: int
    stores: list[Store] = field(default_factory=list)
    returns: list[Ret] = field(default_factory=list)
    problems: list[str] = field(default_factory=list)  # reasons the shape is outside the analysis
    assigns: dict[str, list[tuple[int, str]]] = field(default_factory=dict)  # other local assignments name -> [(lineno, text)]


def analyse(module: str, qualname: str, var: str = "result") -> Report:
    fn = extract.find_def(module, qualname)
    rep = Report(var, None, 0)

    def walk(stmts: list[ast.stmt], guards: list[Guard], in_except: bool, in_try: int) -> None:
        for i, st in enumerate(stmts):
            if isinstance(st, (ast.Assign, ast.AnnAssign)):
                targets = st.targets if isinstance(st, ast.Assign) else [st.target]
                val = st.value
                for t in targets:
                    if isinstance(t, ast.Name):
                        if t.id == var:
                            if rep.init is None and isinstance(val, ast.Dict) and not guards:
                                rep.init = val
                                rep.init_lineno = st.lineno
                            else:
                                rep.problems.append(f"L{st.lineno}: `{var}` is rebound")
                        else:
                            rep.assigns.setdefault(t.id, []).append((st.lineno, ast.unparse(val) if val is not None else ""))
                    elif isinstance(t, ast.Subscript) and isinstance(t.value, ast.Name) and t.value.id == var:
                        if isinstance(t.slice, ast.Constant) and isinstance(t.slice.value, str):
                            rep.stores.append(Store(t.slice.value, val, ast.unparse(val), list(guards), st.lineno, stmts, i, in_except, in_try))
                        else:
                            rep.problems.append(f"L{st.lineno}: store into `{var}` with a non-constant key")
                    elif isinstance(t, (ast.Tuple, ast.List)):
                        for e in ast.walk(t):
                            if isinstance(e, ast.Name) and e.id == var:
                                rep.problems.append(f"L{st.lineno}: `{var}` is rebound in an unpacking")
                            elif isinstance(e, ast.Name):
                                rep.assigns.setdefault(e.id, []).append((st.lineno, ast.unparse(val) if val is not None else ""))
            elif isinstance(st, ast.AugAssign):
                if isinstance(st.target, ast.Name) and st.target.id == var:
                    rep.problems.append(f"L{st.lineno}: `{var}` is rebound")
            elif isinstance(st, ast.Delete):
                for t in st.targets:
                    if var in {n.id for n in ast.walk(t) if isinstance(n, ast.Name)}:
                        rep.problems.append(f"L{st.lineno}: del on `{var}`")
            elif isinstance(st, ast.Return):
                rep.returns.append(Ret(st.value, ast.unparse(st.value) if st.value is not None else "None", list(guards), st.lineno, in_except, in_try))
            elif isinstance(st, ast.If):
                t = ast.unparse(st.test)
                walk(st.body, guards + [Guard(t, True, st.lineno)], in_except, in_try)
                walk(st.orelse, guards + [Guard(t, False, st.lineno)], in_except, in_try)
            elif isinstance(st, (ast.For, ast.While, ast.AsyncFor)):
                walk(st.body, guards + [Guard("loop:" + ast.unparse(st.iter if not isinstance(st, ast.While) else st.test), True, st.lineno)], in_except, in_try)
                walk(st.orelse, guards, in_except, in_try)
            elif isinstance(st, ast.Try):
                walk(st.body, guards, in_except, in_try + 1)
                for h in st.handlers:
                    walk(h.body, guards + [Guard("except:" + (ast.unparse(h.type) if h.type else "BaseException"), True, h.lineno)], True, in_try)
                walk(st.orelse, guards, in_except, in_try)
                walk(st.finalbody, guards, in_except, in_try)
            elif isinstance(st, (ast.With, ast.AsyncWith)):
                walk(st.body, guards, in_except, in_try)
            elif isinstance(st, ast.Expr):
                # mutating method calls on the envelope
                v = st.value
                if isinstance(v, ast.Await):
                    v = v.value
                if isinstance(v, ast.Call) and isinstance(v.func, ast.Attribute) and isinstance(v.func.value, ast.Name) and v.func.value.id == var:
                    if v.func.attr in ("update", "pop", "clear", "popitem", "setdefault", "__setitem__", "__delitem__"):
                        rep.problems.append(f"L{st.lineno}: `{var}.{v.func.attr}(...)`")
            elif isinstance(st, (ast.FunctionDef, ast.AsyncFunctionDef, ast.ClassDef)):
                for n in ast.walk(st):
                    if isinstance(n, ast.Name) and n.id == var and isinstance(n.ctx, ast.Store):
                        rep.problems.append(f"L{st.lineno}: nested definition rebinds `{var}`")
            # escape: the dict itself passed to a call (not a subscript of it)
            for n in ast.walk(st) if not isinstance(st, (ast.If, ast.For, ast.While, ast.Try, ast.With, ast.FunctionDef, ast.AsyncFunctionDef)) else []:
                if isinstance(n, ast.Call):
                    for a in list(n.args) + [k.value for k in n.keywords]:
                        if isinstance(a, ast.Name) and a.id == var:
                            fname = ast.unparse(n.func)
                            if fname not in ("len", "json.dumps", "isinstance", "dict", "str", "repr"):
                                rep.problems.append(f"L{st.lineno}: `{var}` escapes into {fname}(...)")

    walk(fn.body, [], False, 0)
    return rep


def dict_literal_value(d: ast.Dict, key: str) -> tuple[str, ast.AST | None]:
    """('const', node) / ('missing', None) / ('dynamic', node) — later duplicate keys and ** spreads win."""
    found: tuple[str, ast.AST | None] = ("missing", None)
    for k, v in zip(d.keys, d.values):
        if k is None:
            found = ("spread-after", v) if found[0] != "missing" else ("spread", v)
            continue
        if isinstance(k, ast.Constant) and k.value == key:
            found = ("const", v) if isinstance(v, ast.Constant) else ("dynamic", v)
    return found


def helper_returns(module: str, qualname: str, key: str) -> list[tuple[int, str, object]]:
    """For a helper that builds an envelope: per return (lineno, kind, constant|None) of `key`."""
    fn = extract.find_def(module, qualname)
    out = []
    # helper shape: either returns a dict literal, or a local dict initialised by a literal and never re-keyed for `key`
    local_init: dict[str, ast.Dict] = {}
    rekeyed: set[str] = set()
    for n in ast.walk(fn):
        if isinstance(n, (ast.Assign, ast.AnnAssign)):
            tgts = n.targets if isinstance(n, ast.Assign) else [n.target]
            for t in tgts:
                if isinstance(t, ast.Name) and isinstance(n.value, ast.Dict):
                    local_init[t.id] = n.value
                if isinstance(t, ast.Subscript) and isinstance(t.value, ast.Name):
                    if not (isinstance(t.slice, ast.Constant) and t.slice.value != key):
                        rekeyed.add(t.value.id)
    for n in ast.walk(fn):
        if isinstance(n, ast.Return):
            v = n.value
            if isinstance(v, ast.Dict):
                kind, node = dict_literal_value(v, key)
                out.append((n.lineno, kind, node.value if kind == "const" else None))
            elif isinstance(v, ast.Name) and v.id in local_init and v.id not in rekeyed:
                kind, node = dict_literal_value(local_init[v.id], key)
                out.append((n.lineno, kind, node.value if kind == "const" else None))
            else:
                out.append((n.lineno, "unknown", None))
    return out
