"""C12.B — bounded: every grammar the compiler returns, for schemas drawn from the sanitisation and
constraint pools, is read by the independent GBNF reference reader (verif/gbnf.py) and must be
well-formed. Routes: Python API (compile_schema with/without envelope), FIELDS-block schema documents
and META.CONTRACT documents through octave_compile_grammar and octave_eject(format=gbnf), grammar_hint
of INVALID octave_validate / octave_write responses, packaged schemas."""
from __future__ import annotations

import asyncio
import itertools
import os
import random
import re
import shutil
import tempfile

from verif import gbnf
from verif.bounded.sweep import sweep
from verif.common import Ctx, Outcome, Witness

STRUCTURAL = ["ws", "field", "content", "document", "root", "envelope-start", "envelope-end", "meta-block", "meta-content", "meta-field"]
NAMES = [
    "STATUS", "status", "Status", "A.B", "a_dot_b", "A_DOT_B", "A/B", "a_slash_b", "A-B", "A_B", "a__b", "A__B", "_A", "A_", "A.B.C", "x-y.z/w",
    "\u00e9", "\u00c9", "caf\u00e9", "CAF\u00c9", "\u65e5\u672c", "u65e5", "_u65e5_", "\u26a0\ufe0f_warning",
    "1A", "r_1a", "R_1A", "_1", "1", "9_9",
    "unnamed_field", "_", "__",
    # names equal to what the collision numbering would hand out
    "STATUS_2", "status_2", "a_dot_b_2", "content_2", "ws_2", "x_2", "X", "x", "X_2", "x_3", "unnamed_field_2",
] + [s.upper() for s in STRUCTURAL] + STRUCTURAL + [s.upper().replace("-", "_") for s in STRUCTURAL if "-" in s] + ["Field", "Root", "Ws", "number", "string", "boolean", "digit"] + ["ROOT_", "_content", "ws-", "Document!", "FIELD_", "_ROOT_"]  # names that become a structural rule name only AFTER sanitising

REGEXES = [
    "^[a-z]+$", "[A-Z]{2,6}", "^abc$", "abc", "a.c", "a\\.c", "^a|b$", "(a|b)+", "(?:ab)*", "[a-z]+[0-9]*", "[^\\]]+", "[\\w]+", "\\d{4}", "x{2}", "x{2,}", "x{,3}",
    "[a-z", "a]", "(a", "a)", "a||b", "|a", "()", "[]", "\"q\"", "a\"b", "back\\\\slash", "caf\u00e9", "[\u00e0-\u00ff]+", "^$", "", "+", "a**", "^^a$$", "a$b", "[a-z]+?", "#not-a-comment", "a b", "a\tb", "::=", "root", "ws ::= x",
]
SIMPLE = ["REQ", "OPT", "TYPE[STRING]", "TYPE[NUMBER]", "TYPE[BOOLEAN]", "TYPE[LIST]", "DATE", "ISO8601", "DIR", "APPEND_ONLY", "RANGE[1,10]", "MAX_LENGTH[3]", "MIN_LENGTH[0]", "MIN_LENGTH[2]"]
VALUED = [
    "CONST[ACTIVE]", "CONST[5]", "CONST[true]", 'CONST["a b"]', 'CONST["q\\"uote"]', 'CONST["back\\\\slash"]', 'CONST["\u00e9"]', 'CONST[""]',
    "ENUM[A,B]", "ENUM[ACTIVE,ACTIVATING,DONE]", "ENUM[5,6]", 'ENUM["a b","c"]', 'ENUM["q\\"x",B]', "ENUM[A]", "ENUM[\u00e9,\u65e5\u672c]",
]


def chains(rng: random.Random, n: int):
    members = SIMPLE + VALUED + [f'REGEX["{r}"]'.replace("\\", "\\\\").replace('\\\\"', '\\"') for r in ()]
    out = [[m] for m in SIMPLE + VALUED]
    out += [["REQ", m] for m in VALUED + ["TYPE[NUMBER]", "DATE"]]
    for _ in range(n):
        out.append(rng.sample(members, rng.choice((2, 3))))
    return out


def regex_member(r: str) -> str:
    """REGEX["..."] with the pattern escaped for an OCTAVE quoted string"""
    return 'REGEX["' + r.replace("\\", "\\\\").replace('"', '\\"').replace("\t", "\\t") + '"]'


def fields_doc(name: str, fields: list[tuple[str, list[str]]]) -> str:
    lines = [f"==={name}===", "META:", "  TYPE::PROTOCOL_DEFINITION", '  VERSION::"1.0"', "POLICY:", '  VERSION::"1.0"', "  UNKNOWN_FIELDS::IGNORE", "FIELDS:"]
    for fn, ch in fields:
        lines.append(f'  {fn}::["x"∧' + "∧".join(ch) + "]")
    lines.append("===END===")
    return "\n".join(lines) + "\n"


def contract_doc(type_text: str, fields: list[tuple[str, list[str]]]) -> str:
    specs = ",".join(f"FIELD[{fn}]::" + "∧".join(ch) for fn, ch in fields)
    return "===DOC===\nMETA:\n  TYPE::" + type_text + '\n  VERSION::"1.0"\n  CONTRACT::[' + specs + "]\n===END===\n"


def cases(seed: int, thorough: bool):
    rng = random.Random(seed)
    out = []
    # 1. every name alone and every pair of names (sanitisation collisions), one plain chain
    for n in NAMES:
        out.append(("api", "S", [(n, ["REQ"])]))
        out.append(("fields", "SCH", [(n, ["REQ"])]))
        out.append(("contract", "T", [(n, ["REQ"])]))
    for trio in (["STATUS", "status", "STATUS_2"], ["STATUS_2", "status", "STATUS"], ["CONTENT", "content_2"], ["content_2", "CONTENT"], ["A.B", "a_dot_b", "a_dot_b_2"], ["X", "x", "x_2", "X_2", "x_3"], ["WS", "ws_2", "WS_2"], ["_", "__", "unnamed_field_2", "unnamed_field"]):
        for perm in itertools.permutations(trio) if len(trio) <= 4 else [trio, trio[::-1]]:
            out.append(("api", "S", [(n, ["REQ"]) for n in perm]))
    out.append(("contract", "T", [(n, ["REQ"]) for n in ("STATUS", "status", "STATUS_2")]))
    pairs = list(itertools.combinations(NAMES, 2))
    rng.shuffle(pairs)
    for a, b in pairs[: (len(pairs) if thorough else 700)]:
        out.append(("api", "S", [(a, ["REQ"]), (b, ["OPT", "ENUM[A,B]"])]))
    for a, b in pairs[: (1500 if thorough else 150)]:
        out.append(("fields", "SCH", [(a, ["REQ"]), (b, ["REQ"])]))
        out.append(("contract", "T", [(a, ["REQ"]), (b, ["REQ"])]))
    # 2. every regex, alone and in a chain, both routes
    for r in REGEXES:
        out.append(("api", "S", [("R", [regex_member(r)])]))
        out.append(("api", "S", [("R", ["REQ", regex_member(r), "TYPE[STRING]"])]))
        out.append(("fields", "SCH", [("R", [regex_member(r)])]))
        out.append(("contract", "T", [("R", ["REQ", regex_member(r)])]))
    # 3. chains
    for ch in chains(rng, 600 if thorough else 120):
        out.append(("api", "S", [("F", ch)]))
        out.append(("fields", "SCH", [("F", ch), ("G", ["REQ"])]))
        out.append(("contract", "T", [("F", ch)]))
    # 4. schema / TYPE names that end up inside literals and the header comment
    for nm in ["S", "my schema", 'q"uote', "back\\slash", "two\nlines", "\u00e9", "===END===", "a # b", ""]:
        out.append(("api", nm, [("F", ["REQ"])]))
        q = '"' + nm.replace("\\", "\\\\").replace('"', '\\"').replace("\n", "\\n") + '"'
        out.append(("contract", q, [("F", ["REQ"])]))
    # 5. random mixes
    for _ in range(3000 if thorough else 300):
        k = rng.choice((1, 2, 3, 4))
        fs = []
        for n in rng.sample(NAMES, k):
            ch = rng.choice(chains(rng, 0)) if rng.random() < 0.6 else ["REQ", regex_member(rng.choice(REGEXES))]
            fs.append((n, ch))
        out.append((rng.choice(("api", "fields", "contract")), rng.choice(("S", "T")), fs))
    return out


_CASES: list = []


def _schema_from_api(name: str, fields):
    from octave_mcp.core.constraints import ConstraintChain
    from octave_mcp.core.holographic import HolographicPattern
    from octave_mcp.core.schema_extractor import FieldDefinition, SchemaDefinition

    s = SchemaDefinition(name=name, version="1.0")
    for fn, ch in fields:
        try:
            chain = ConstraintChain.parse("∧".join(ch))
        except Exception:  # noqa: BLE001 - the chain text is not accepted by the schema reader: not in the domain
            return None
        s.fields[fn] = FieldDefinition(name=fn, pattern=HolographicPattern(example=None, constraints=chain, target=None), raw_value="")
    return s


def grammars_for(route: str, name: str, fields) -> list[tuple[str, str]]:
    """(where, grammar text) for every grammar the repository returns for this case; [] when the schema reader refuses it"""
    from octave_mcp.core.gbnf_compiler import GBNFCompiler
    from octave_mcp.mcp.compile_grammar import CompileGrammarTool
    from octave_mcp.mcp.eject import EjectTool

    out = []
    if route == "api":
        s = _schema_from_api(name, fields)
        if s is None:
            return []
        for env in (False, True):
            out.append((f"compile_schema(include_envelope={env})", GBNFCompiler().compile_schema(s, include_envelope=env)))
        return out
    text = fields_doc(name, fields) if route == "fields" else contract_doc(name, fields)
    r = asyncio.run(CompileGrammarTool().execute(content=text))
    if r.get("status") == "success" and isinstance(r.get("grammar"), str):
        out.append((f"octave_compile_grammar({route})", r["grammar"]))
    r = asyncio.run(EjectTool().execute(content=text, schema="META", format="gbnf"))
    if isinstance(r.get("output"), str) and r.get("format") == "gbnf":
        out.append((f"octave_eject(gbnf, {route})", r["output"]))
    return out


def problems(g: str) -> list[tuple[str, str]]:
    return gbnf.check_wellformed(g, allow_underscore=True)


def classify(kind: str, msg: str, route: str, fields, grammar: str) -> str:
    """failure class: kind of ill-formedness + what in the schema triggers it"""
    feats = []
    if kind == "duplicate_rule":
        m = re.search(r"rule '([^']+)'", msg)
        nm = m.group(1) if m else ""
        feats.append("field-vs-structural" if nm in STRUCTURAL else "field-vs-field")
    elif any("REGEX[" in c for _, ch in fields for c in ch):
        feats.append("regex-passthrough")
    else:
        feats.append("other")
    return f"{kind}|{','.join(feats)}"


def _one(idx: int):
    route, name, fields = _CASES[idx]
    try:
        gs = grammars_for(route, name, fields)
    except Exception as e:  # noqa: BLE001
        return True, f"exception|compiler raised {type(e).__name__}: {str(e)[:150]} | route {route} name {name!r} fields {fields!r}", True, idx
    for where, g in gs:
        ps = problems(g)
        if ps:
            kind, msg = ps[0]
            return True, f"{classify(kind, msg, route, fields, g)}|{where}: {kind}: {msg[:200]} | schema name {name!r} fields {fields!r} | grammar {g[:400]!r}", True, idx
    return False, "", bool(gs), idx


def replay(seed: int, thorough: bool, idx: int):
    global _CASES
    _CASES = cases(seed, thorough)
    failed, text, _, _ = _one(idx)
    return failed, text or "every returned grammar is well-formed for this schema"


def strict_names_report(seed: int) -> dict:
    """how many grammars differ only by llama.cpp's stricter name rule (underscore) — reported, see known findings"""
    n = bad = 0
    for route, name, fields in cases(seed, False)[:400]:
        try:
            for _, g in grammars_for(route, name, fields):
                n += 1
                if not problems(g) and gbnf.strict_only_rejections(g):
                    bad += 1
        except Exception:  # noqa: BLE001
            pass
    return {"grammars": n, "only_strict_name_rule_rejects": bad}


def ob_b1(ctx: Ctx) -> Outcome:
    global _CASES
    _CASES = cases(ctx.seed, ctx.thorough)
    n = len(_CASES)
    res = sweep(_one, range(n), ctx.cores, chunk=50)
    wits, seen = [], set()
    for idx, text in res["failures"][:20000]:
        parts = text.split("|", 2)
        key = "|".join(parts[:2])
        if key in seen:
            continue
        seen.add(key)
        wits.append(Witness(what=parts[2][:1500] if len(parts) > 2 else text[:1500], input={"case_index": idx, "case": repr(_CASES[idx])[:300]}, key=key, replay={"runner": "props.C12_b:replay", "args": {"seed": ctx.seed, "thorough": ctx.thorough, "idx": idx}}, confirmed=True))
    extra = dict(
        bound=f"{n} schemas: {len(NAMES)} field names (case/dot/slash/hyphen/underscore collisions, unicode, leading digits, the grammar's own rule names in both cases, primitives) alone and in pairs; {len(REGEXES)} REGEX patterns (literals, escapes, groups, alternation, brace quantifiers, classes, anchors, unbalanced and empty forms, GBNF metacharacters) alone and inside chains; {len(SIMPLE) + len(VALUED)} other chain members alone / with REQ / in seeded 2-3 member chains; schema names with quotes, backslash, newline, '#'; seeded mixes of up to 4 fields; routes: compile_schema with and without envelope, FIELDS-block and META.CONTRACT documents through octave_compile_grammar and octave_eject(format=gbnf); schemas the schema reader refuses are skipped",
        evaluations=res["evaluations"],
        distinct_nontrivial=res["nontrivial"],
        rule="a case is one schema through its route(s); distinct by generator index; non-trivial: at least one grammar was returned",
        samples=[repr(_CASES[i])[:200] for i in (0, n // 2, n - 1)],
        failing_schemas=len(res["failures"]),
    )
    if wits:
        return Outcome.refuted("independent GBNF reader", wits, **extra)
    return Outcome.ok("independent GBNF reader", **extra)


ob_b1.wants_all_cores = True


# ---- B2: grammar_hint of INVALID responses, packaged schemas ----------------------------------------------------------------


def ob_b2(ctx: Ctx) -> Outcome:
    from octave_mcp.mcp.compile_grammar import CompileGrammarTool
    from octave_mcp.mcp.validate import ValidateTool
    from octave_mcp.mcp.write import WriteTool

    wits = []
    n = 0
    names = []
    try:
        from octave_mcp.schemas import loader

        for fn in ("list_builtin_schemas", "get_builtin_schema_names", "list_schemas"):
            if hasattr(loader, fn):
                names = list(getattr(loader, fn)())
                break
    except Exception:  # noqa: BLE001
        names = []
    names = sorted(set(names) | {"META", "SESSION_LOG", "DEBATE_TRANSCRIPT", "SKILL", "TEST_HOLOGRAPHIC", "AGENT", "PATTERN"})
    for nm in names:
        r = asyncio.run(CompileGrammarTool().execute(schema=nm))
        if r.get("status") == "success" and isinstance(r.get("grammar"), str):
            n += 1
            ps = problems(r["grammar"])
            if ps:
                wits.append(Witness(what=f"octave_compile_grammar(schema={nm!r}): {ps[0][0]}: {ps[0][1][:200]}", key=f"{ps[0][0]}|packaged:{nm}", input=nm, replay={"runner": "props.C12_b:replay_packaged", "args": {"name": nm}}, confirmed=True))
    bad_doc = "===X===\nMETA:\n  TYPE::{t}\n  VERSION::\"1.0\"\nSTATUS::NOPE\n===END===\n"
    d = tempfile.mkdtemp(prefix="vf-c12-")
    try:
        for nm in names:
            for tool in ("validate", "write"):
                text = bad_doc.format(t=nm)
                if tool == "validate":
                    r = asyncio.run(ValidateTool().execute(content=text, schema=nm, grammar_hint=True))
                else:
                    r = asyncio.run(WriteTool().execute(target_path=os.path.join(d, f"{nm}.oct.md"), content=text, schema=nm, grammar_hint=True))
                gh = r.get("grammar_hint")
                if isinstance(gh, dict) and isinstance(gh.get("grammar"), str):
                    n += 1
                    ps = problems(gh["grammar"])
                    if ps:
                        wits.append(Witness(what=f"grammar_hint of octave_{tool}(schema={nm!r}): {ps[0][0]}: {ps[0][1][:200]}", key=f"{ps[0][0]}|hint:{nm}", input=nm, replay={"runner": "props.C12_b:replay_packaged", "args": {"name": nm}}, confirmed=True))
    finally:
        shutil.rmtree(d, ignore_errors=True)
    extra = dict(bound=f"packaged / searchable schemas {names}: octave_compile_grammar(schema=...), grammar_hint of octave_validate and octave_write on an invalid document", evaluations=n, distinct_nontrivial=n, rule="a case is one returned grammar", strict_name_rule=strict_names_report(ctx.seed))
    if n == 0:
        return Outcome.undecided("independent GBNF reader", "no packaged schema produced a grammar")
    if wits:
        return Outcome.refuted("independent GBNF reader", wits, **extra)
    return Outcome.ok("independent GBNF reader", **extra)


def replay_packaged(name: str):
    from octave_mcp.mcp.compile_grammar import CompileGrammarTool

    r = asyncio.run(CompileGrammarTool().execute(schema=name))
    ps = problems(r.get("grammar", "")) if r.get("status") == "success" else []
    return bool(ps), f"octave_compile_grammar(schema={name!r}): {ps[:2] or 'well-formed'}"


# ---- B3: llama.cpp's real rule-name alphabet (no underscore) ------------------------------------------------------------------


def replay_strict(fields):
    from octave_mcp.core.gbnf_compiler import GBNFCompiler

    s = _schema_from_api("S", [(f, ["REQ"]) for f in fields])
    g = GBNFCompiler().compile_schema(s, include_envelope=True)
    strict = gbnf.check_wellformed(g, allow_underscore=False)
    return bool(strict), f"fields {fields}: llama.cpp's name rule: {strict[:1] or 'accepted'}"


def ob_b3(ctx: Ctx) -> Outcome:
    """Under llama.cpp's own is_word_char (letters, digits, '-') the same grammars must parse too. Grammars that
    fail ONLY because a rule name contains '_' are one class (known finding: the sanitiser writes '_' and the
    repository's tests pin those names); any other strict-only rejection is a different class."""
    from octave_mcp.core.gbnf_compiler import GBNFCompiler

    wits, seen = [], set()
    n = 0
    for fields in (["STATUS"], ["MY_FIELD"], ["A.B"], ["A-B"], ["1A"], ["é"], ["WS"], ["A", "a"], ["x/y"]):
        n += 1
        s = _schema_from_api("S", [(f, ["REQ"]) for f in fields])
        g = GBNFCompiler().compile_schema(s, include_envelope=True)
        if gbnf.check_wellformed(g, allow_underscore=True):
            continue  # reported by B1
        only = gbnf.strict_only_rejections(g)
        if not only:
            continue
        key = "strict-name-rule|underscore" if all("contains '_'" in o for o in only) else f"strict-name-rule|other:{only[0][:40]}"
        if key not in seen:
            seen.add(key)
            wits.append(Witness(what=f"fields {fields}: {only[0]}", key=key, input=fields, replay={"runner": "props.C12_b:replay_strict", "args": {"fields": fields}}, confirmed=True))
    extra = dict(bound="9 small schemas compiled with envelope and read under llama.cpp's rule-name alphabet [a-zA-Z0-9-]", evaluations=n, distinct_nontrivial=n, rule="a case is one schema")
    if wits:
        return Outcome.refuted("independent GBNF reader (strict names)", wits, **extra)
    return Outcome.ok("independent GBNF reader (strict names)", **extra)
