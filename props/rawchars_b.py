"""C01/C02 bounded: control characters delivered RAW inside a quoted string of `content` (a JSON transport can carry them)
through octave_write and a following normalize call. The canonical text that was written must be a fixed point."""
from __future__ import annotations

import asyncio
import os
import tempfile

from verif.common import Ctx, Outcome, Witness

RAW = {"CR": "\r", "CRLF": "\r\n", "VT": "\x0b", "FF": "\x0c", "FS": "\x1c", "NEL": "\x85", "LS": "\u2028", "PS": "\u2029", "DEL": "\x7f", "ESC": "\x1b", "BEL": "\x07"}
POSITIONS = {"assignment": 'K::"a{c}b"', "list item": 'K::["a{c}b",x]', "block child": 'B:\n  K::"a{c}b"', "comment": 'K::1 // a{c}b'}


def _one(name: str, pos: str):
    from octave_mcp.mcp.write import WriteTool

    content = "===DOC===\n" + POSITIONS[pos].format(c=RAW[name]) + "\n===END===\n"
    with tempfile.TemporaryDirectory(prefix="vf-raw-") as td:
        p = os.path.join(td, "d.oct.md")
        r1 = asyncio.run(WriteTool().execute(target_path=p, content=content))
        if r1.get("status") != "success":
            return None, "refused"
        b1 = open(p, "rb").read()
        r2 = asyncio.run(WriteTool().execute(target_path=p))
        b2 = open(p, "rb").read()
        if r2.get("status") != "success":
            return True, f"raw {name} in a {pos}: the file octave_write produced ({b1!r}) is refused by normalize: {[e.get('code') for e in r2.get('errors', [])]}"
        if b1 != b2 or r1.get("canonical_hash") != r2.get("canonical_hash"):
            return True, f"raw {name} in a {pos}: octave_write wrote {b1!r}; normalizing that file rewrites it to {b2!r} (canonical_hash {str(r1.get('canonical_hash'))[:12]} -> {str(r2.get('canonical_hash'))[:12]})"
    return False, "fixed point"


def replay(name: str, pos: str):
    failed, text = _one(name, pos)
    return bool(failed), text


def ob_raw(oid: str):
    def fn(ctx: Ctx) -> Outcome:
        wits = []
        ran = 0
        for name in RAW:
            for pos in POSITIONS:
                failed, text = _one(name, pos)
                if failed is None:
                    continue
                ran += 1
                if failed:
                    wits.append(Witness(what=text[:700], input={"char": name, "position": pos}, key=f"raw-control|{name}|{pos}", replay={"runner": "props.rawchars_b:replay", "args": {"name": name, "pos": pos}}, confirmed=True))
        extra = dict(bound=f"{len(RAW)} control / line-boundary characters {sorted(RAW)} delivered raw x {len(POSITIONS)} positions ({sorted(POSITIONS)}): octave_write(content) then octave_write(normalize) on the file; bytes and canonical_hash compared", evaluations=len(RAW) * len(POSITIONS), distinct_nontrivial=ran, rule="a case is one character in one position; non-trivial: the first write succeeds")
        if ran == 0:
            return Outcome.undecided("real tools on files", "every case was refused")
        if wits:
            return Outcome.refuted("real tools on files", wits, **extra)
        return Outcome.ok("real tools on files", **extra)

    return fn


# ---- C01.B4: hand-found inputs outside the document model (reported by review, kept as regression cases) ---------------------
HAND_DOCS = {
    "nameless-numbered-section|top": "===D===\n§1::\nK::1\n===END===\n",
    "nameless-numbered-section|children": "===D===\n§1::\n  K::1\n===END===\n",
    "nameless-numbered-section|suffix": "===D===\n§2b::\n  K::1\n===END===\n",
    "nameless-named-section": "===D===\n§CONTEXT::\n  K::1\n===END===\n",
    "holographic-unescaped-example|backslash-n": '===D===\nK::["a\\\\n"∧REQ]\n===END===\n',
    "holographic-unescaped-example|backslash-n-target": '===D===\nK::["a\\\\n"∧REQ→§SELF]\n===END===\n',
    "holographic-unescaped-example|backslash-t": '===D===\nK::["a\\\\t"∧REQ]\n===END===\n',
    "holographic-plain-escape": '===D===\nK::["a\\nb"∧REQ]\n===END===\n',
    "holographic-unescaped-example|quote": '===D===\nK::["a\\"b"∧REQ]\n===END===\n',
    "nested-meta-comment-only": "===D===\nB:\n  META:\n    // only\n===END===\n",
    "meta-empty-nested-block|comment-then-sibling": "===D===\nMETA:\n  TYPE::X\n  SUB:\n    // only\n  AFTER::1\n===END===\n",
    "meta-empty-nested-block|sibling": "===D===\nMETA:\n  TYPE::X\n  SUB:\n  AFTER::1\n===END===\n",
    "meta-empty-nested-block|last": "===D===\nMETA:\n  TYPE::X\n  SUB:\nK::1\n===END===\n",
    "nested-inline-map|in-map": "===D===\nK::[a::1,b::[c::2]]\n===END===\n",
    "nested-inline-map|only": "===D===\nK::[a::[c::2]]\n===END===\n",
    "nested-inline-map|direct": "===D===\nK::[a::[b::1,c::2],d::3]\n===END===\n",
    "nameless-numbered-section|annotation": "===D===\n§3::[note]\n  K::1\n===END===\n",
}


def _hand_one(name: str):
    from octave_mcp.core.emitter import emit
    from octave_mcp.core.parser import parse, parse_with_warnings

    t = HAND_DOCS[name]
    for reader in ("lenient", "strict"):
        try:
            d = parse_with_warnings(t)[0] if reader == "lenient" else parse(t)
            e1 = emit(d)
        except Exception:  # noqa: BLE001 - a refused input is outside the property
            continue
        try:
            e2 = emit(parse(e1))
        except Exception as e:  # noqa: BLE001
            return True, f"{name}: {t!r} is read ({reader}) and written as {e1!r}, which the strict reader refuses: {type(e).__name__}: {str(e)[:120]}"
        if e1 != e2:
            return True, f"{name}: {t!r} is read ({reader}) and written as {e1!r}; reading that and writing again gives {e2!r}"
    return False, "fixed point"


def replay_hand(name: str):
    return _hand_one(name)


def ob_hand(ctx: Ctx) -> Outcome:
    wits = []
    for name in HAND_DOCS:
        failed, text = _hand_one(name)
        if failed:
            wits.append(Witness(what=text[:700], input={"case": name}, key=f"hand|{name}", replay={"runner": "props.rawchars_b:replay_hand", "args": {"name": name}}, confirmed=True))
    extra = dict(bound=f"{len(HAND_DOCS)} hand-found documents outside the document model (nameless numbered / named sections, holographic patterns with escapes, nested META with only a comment): emit∘parse then strict re-read and byte comparison", evaluations=len(HAND_DOCS) * 2, distinct_nontrivial=len(HAND_DOCS), rule="a case is one document through both readers")
    if wits:
        return Outcome.refuted("real reader + emitter", wits, **extra)
    return Outcome.ok("real reader + emitter", **extra)


# ---- C02.B3: comments are content (hand-made placements the document model cannot express: inside META) -----------------------
COMMENT_DOCS = {
    "meta|leading": "===D===\nMETA:\n  // lead\n  TYPE::X\n===END===\n",
    "meta|trailing": "===D===\nMETA:\n  TYPE::X // trail\n===END===\n",
    "meta|orphan-last": "===D===\nMETA:\n  TYPE::X\n  // orphan\n===END===\n",
    "meta|nested": "===D===\nMETA:\n  TYPE::X\n  SUB:\n    // inner\n    A::1 // t\n===END===\n",
    "body|leading": "===D===\n// lead\nK::1\n===END===\n",
    "body|trailing": "===D===\nK::1 // trail\n===END===\n",
    "block|inner": "===D===\nB:\n  // inner\n  K::1 // t\n===END===\n",
    "section|inner": "===D===\n§1::S\n  // inner\n  K::1\n===END===\n",
    "list|trailing": "===D===\nK::[a,b] // t\n===END===\n",
}


def _comment_one(name: str):
    import re

    from octave_mcp.core.emitter import emit
    from octave_mcp.core.parser import parse

    t = COMMENT_DOCS[name]
    try:
        e1 = emit(parse(t))
    except Exception:  # noqa: BLE001
        return None, "refused"
    want = sorted(re.findall(r"// ?([^\n]*)", t))
    got = sorted(re.findall(r"// ?([^\n]*)", e1))
    if want != got:
        return True, f"{name}: comments {want} of {t!r} come back as {got} in {e1!r}"
    return False, "kept"


def replay_comment(name: str):
    failed, text = _comment_one(name)
    return bool(failed), text


def ob_comments(ctx: Ctx) -> Outcome:
    wits = []
    ran = 0
    for name in COMMENT_DOCS:
        failed, text = _comment_one(name)
        if failed is None:
            continue
        ran += 1
        if failed:
            wits.append(Witness(what=text[:600], input={"case": name}, key=f"comment|{name}", replay={"runner": "props.rawchars_b:replay_comment", "args": {"name": name}}, confirmed=True))
    extra = dict(bound=f"{len(COMMENT_DOCS)} comment placements (META: leading / trailing / orphan / nested block; body, block, section, list): the comment texts of the source are the comment texts of the canonical output", evaluations=len(COMMENT_DOCS), distinct_nontrivial=ran, rule="a case is one document")
    if wits:
        return Outcome.refuted("real reader + emitter", wits, **extra)
    return Outcome.ok("real reader + emitter", **extra)
