"""C10 — validation status is always present and never overstated."""
from __future__ import annotations

import ast
import re

from verif import extract
from verif.common import Ctx, Ob, Outcome, Witness
from verif.frames import envelope as E

PROPERTY = "C10"
LEVEL = "other"
LEVEL_TEXT = "single-call clauses decided for ALL argument values and flag combinations by guarded-store inference over the real execute bodies (every return and every store into the envelope with the guards under which it is reached: a syntactic, conservative derivation, not a sampled run); the schema-name language is a regular-language obligation; the re-validation clause and the abstraction itself are cross-checked by a bounded product of contents x schema arguments x flags on the real tools"
LEVEL_NOTE = "sound under structured control flow and no escape of the envelope dict (both checked; otherwise undecided); callees are arbitrary (may raise / return anything) except the loaders' None-contract; re-validation of VALIDATED canonicals rests on C01/C09 (B)"
TECHNIQUE = "guarded-store / guarded-return inference on the real AST of the four execute bodies (F-style frame proof of the envelope invariant) + regular-language obligation for schema names + bounded flag product"
EXPLANATION = "C10: every return of validate/write/eject/compile_grammar carries validation_status in the three values; VALIDATED is stored only under has_schema and (no blocking error or LENIENT/ULTRA); INVALID only under STRICT/STANDARD with a non-empty error list and schema name/version stored; valid mirrors the status; stage-1 exceptions return before any status store."
ASSUMPTIONS = ["structured control flow; the envelope dict does not escape (checked)", "has_schema is defined by the pinned expression (checked textually)", "python dict semantics"]
TRUSTED_BASE = ["CPython ast", "verif.frames.envelope"]

STATUS = {"VALIDATED", "UNVALIDATED", "INVALID"}
V = ("octave_mcp.mcp.validate", "ValidateTool.execute", "ValidateTool._error_envelope")
W = ("octave_mcp.mcp.write", "WriteTool.execute", "WriteTool._error_envelope")
J = ("octave_mcp.mcp.eject", "EjectTool.execute", None)
G = ("octave_mcp.mcp.compile_grammar", "CompileGrammarTool.execute", "CompileGrammarTool._error_response")


def _w(what, key, lineno=None, detail=""):
    return Witness(what=what, key=key, input=f"L{lineno}" if lineno else key, verifier_output=detail or what)


def _norm_guard(test: str, positive: bool) -> tuple[str, bool]:
    """`not X` under polarity p is X under polarity not p; redundant parentheses dropped; `len(X) == 0` / `X == []` is `not X`"""
    t = test.strip()
    changed = True
    while changed:
        changed = False
        if t.startswith("(") and t.endswith(")") and t.count("(") == t.count(")") and "(" not in t[1:-1].split(")")[0] + "(" * 0 and _balanced(t[1:-1]):
            t, changed = t[1:-1].strip(), True
        if t.startswith("not "):
            t, positive, changed = t[4:].strip(), not positive, True
        m = re.fullmatch(r"len\((\w+)\) == 0|(\w+) == \[\]", t)
        if m:
            t, positive, changed = (m.group(1) or m.group(2)), not positive, True
        m = re.fullmatch(r"len\((\w+)\) > 0|len\((\w+)\) != 0|(\w+) != \[\]", t)
        if m:
            t, changed = (m.group(1) or m.group(2) or m.group(3)), True
    return t, positive


def _balanced(t: str) -> bool:
    d = 0
    for ch in t:
        d += ch == "("
        d -= ch == ")"
        if d < 0:
            return False
    return d == 0


def _has(guards, text, positive=True):
    want = _norm_guard(text, positive)
    return any(_norm_guard(g.test, g.positive) == want for g in guards)


def _status_of_returns(mod, q, helper, var, wits, count):
    """every return expression carries a constant validation_status in the three values"""
    rep = E.analyse(mod, q, var or "result")
    if var and rep.problems:
        return None, rep, f"{q}: envelope shape outside the analysis: {rep.problems[:3]}"
    helper_ok = None
    if helper:
        hr = E.helper_returns(mod, helper, "validation_status")
        helper_ok = bool(hr) and all(k == "const" and v in STATUS for _, k, v in hr)
        count[0] += len(hr)
        if not helper_ok:
            wits.append(_w(f"{helper} does not always return a constant validation_status in {sorted(STATUS)}: {hr}", f"{helper}:status"))
    for r in rep.returns:
        count[0] += 1
        e = r.expr
        if isinstance(e, ast.Dict):
            kind, node = E.dict_literal_value(e, "validation_status")
            if kind == "spread-after":
                # a ** spread after the key: its keys must be constants different from validation_status
                sp = ast.unparse(node)
                keys = [s.key for s in E.analyse(mod, q, sp).stores]
                rep2 = E.analyse(mod, q, sp)
                if rep2.problems or "validation_status" in keys:
                    wits.append(_w(f"{q}@L{r.lineno}: **{sp} may override validation_status", f"{q}:spread", r.lineno))
                kind, node = "const", [v for k, v in zip(e.keys, e.values) if isinstance(k, ast.Constant) and k.value == "validation_status"][-1]
                if not isinstance(node, ast.Constant):
                    kind = "dynamic"
            if kind != "const" or node.value not in STATUS:
                wits.append(_w(f"{q}@L{r.lineno}: returned dict has validation_status {kind} ({ast.unparse(node) if node is not None else 'absent'})", f"{q}:return-literal", r.lineno))
        elif isinstance(e, ast.Name) and var and e.id == var:
            pass  # decided from the stores below
        elif isinstance(e, ast.Call) and helper and ast.unparse(e.func) == "self." + helper.split(".")[1]:
            if not helper_ok:
                wits.append(_w(f"{q}@L{r.lineno}: returns {helper}(...) which is not a constant-status envelope", f"{q}:return-helper", r.lineno))
        else:
            wits.append(_w(f"{q}@L{r.lineno}: return expression `{r.text[:60]}` is not a recognised envelope", f"{q}:return-unknown", r.lineno))
    return rep, rep, None


def ob_validate(ctx: Ctx) -> Outcome:
    mod, q, helper = V
    wits: list[Witness] = []
    count = [0]
    try:
        rep, _, err = _status_of_returns(mod, q, helper, "result", wits, count)
    except extract.ExtractionError as e:
        return Outcome.undecided("envelope", str(e))
    if err:
        return Outcome.undecided("envelope", err)
    # initial envelope
    kind, node = E.dict_literal_value(rep.init, "validation_status") if rep.init is not None else ("missing", None)
    count[0] += 1
    if kind != "const" or node.value != "UNVALIDATED":
        wits.append(_w(f"{q}: the envelope is not initialised with validation_status=UNVALIDATED", f"{q}:init"))
    kind, node = E.dict_literal_value(rep.init, "valid") if rep.init is not None else ("missing", None)
    if kind != "const" or node.value is not False:
        wits.append(_w(f"{q}: the envelope is not initialised with valid=False", f"{q}:init-valid"))
    # has_schema definition
    hs = rep.assigns.get("has_schema", [])
    count[0] += 1
    if len(hs) != 1 or hs[0][1] != "schema_def is not None or (schema_definition is not None and schema_definition.fields)":
        return Outcome.undecided("envelope", f"{q}: has_schema is not the pinned expression: {hs}")
    # schema_def / schema_definition provenance (the named schema actually found)
    sd = [t for _, t in rep.assigns.get("schema_def", [])]
    sdef = [t for _, t in rep.assigns.get("schema_definition", [])]
    count[0] += 1
    if sd != ["get_builtin_schema(schema_name)"] or sorted(set(sdef)) != ["None", "load_schema_by_name(schema_name)"]:
        wits.append(_w(f"{q}: schema_def / schema_definition do not come from get_builtin_schema / load_schema_by_name alone: {sd} {sdef}", f"{q}:schema-provenance"))
    for s in rep.stores:
        if s.key == "validation_status":
            count[0] += 1
            val = s.value.value if isinstance(s.value, ast.Constant) else None
            nxt = s.block[s.index + 1] if s.index + 1 < len(s.block) else None
            nxt_t = ast.unparse(nxt) if nxt is not None else ""
            if val not in STATUS:
                wits.append(_w(f"{q}@L{s.lineno}: validation_status stored as {s.value_text}", f"{q}:status-store", s.lineno))
                continue
            if s.in_except:
                wits.append(_w(f"{q}@L{s.lineno}: validation_status={val} stored inside an exception handler", f"{q}:status-in-except", s.lineno))
            if val == "VALIDATED":
                ok = _has(s.guards, "has_schema") and (_has(s.guards, "validation_errors", False) or (_has(s.guards, "validation_errors") and _has(s.guards, "profile in ('LENIENT', 'ULTRA')")))
                if not ok:
                    wits.append(_w(f"{q}@L{s.lineno}: VALIDATED stored without the guards has_schema ∧ (no blocking error ∨ LENIENT/ULTRA): {[(g.test, g.positive) for g in s.guards]}", f"{q}:VALIDATED-guards", s.lineno))
                if nxt_t != "result['valid'] = True":
                    wits.append(_w(f"{q}@L{s.lineno}: VALIDATED is not followed by result['valid'] = True", f"{q}:valid-mirror", s.lineno))
            if val == "INVALID":
                ok = _has(s.guards, "has_schema") and _has(s.guards, "validation_errors") and _has(s.guards, "profile in ('LENIENT', 'ULTRA')", False)
                if not ok:
                    wits.append(_w(f"{q}@L{s.lineno}: INVALID stored without the guards has_schema ∧ blocking errors ∧ STRICT/STANDARD: {[(g.test, g.positive) for g in s.guards]}", f"{q}:INVALID-guards", s.lineno))
                if nxt_t != "result['valid'] = False":
                    wits.append(_w(f"{q}@L{s.lineno}: INVALID is not followed by result['valid'] = False", f"{q}:valid-mirror", s.lineno))
                # at least one validation error accompanies INVALID
                later = [ast.unparse(x) for x in s.block[s.index + 1:]]
                if "result['validation_errors'] = error_dicts" not in later:
                    wits.append(_w(f"{q}@L{s.lineno}: INVALID without result['validation_errors'] = error_dicts in the same block", f"{q}:INVALID-errors", s.lineno))
            if val == "UNVALIDATED":
                wits.append(_w(f"{q}@L{s.lineno}: explicit UNVALIDATED store (unexpected shape)", f"{q}:status-store", s.lineno))
        if s.key == "valid":
            count[0] += 1
            prev = s.block[s.index - 1] if s.index > 0 else None
            pt = ast.unparse(prev) if prev is not None else ""
            want = {"True": "result['validation_status'] = 'VALIDATED'", "False": "result['validation_status'] = 'INVALID'"}.get(s.value_text)
            if want is None or pt != want:
                wits.append(_w(f"{q}@L{s.lineno}: result['valid'] = {s.value_text} does not mirror the status store before it", f"{q}:valid-mirror", s.lineno))
    # error_dicts is the comprehension over the (non-empty) blocking errors
    ed = [t for _, t in rep.assigns.get("error_dicts", [])]
    count[0] += 1
    if len(ed) != 1 or "for err in validation_errors" not in ed[0]:
        wits.append(_w(f"{q}: error_dicts is not built one-per-error from validation_errors: {ed}", f"{q}:error_dicts"))
    # schema name / version are stored on both arms of the has_schema branch
    names = [s for s in rep.stores if s.key == "schema_name"]
    vers = [s for s in rep.stores if s.key == "schema_version"]
    count[0] += 1
    arms = {(_has(s.guards, "schema_def is not None"), _has(s.guards, "schema_definition is not None")) for s in names if _has(s.guards, "has_schema")}
    arms_v = {(_has(s.guards, "schema_def is not None"), _has(s.guards, "schema_definition is not None")) for s in vers if _has(s.guards, "has_schema")}
    if arms != {(True, False), (False, True)} or arms_v != arms:
        wits.append(_w(f"{q}: schema_name/schema_version are not stored on both arms (builtin / file schema) of the has_schema branch", f"{q}:schema-record"))
    # stage-1 exception: returns result before any status store
    first_status = min([s.lineno for s in rep.stores if s.key == "validation_status"], default=10**9)
    exc_returns = [r for r in rep.returns if r.in_except and isinstance(r.expr, ast.Name) and r.lineno < first_status]
    count[0] += 1
    if not exc_returns:
        wits.append(_w(f"{q}: no exception handler returning the UNVALIDATED envelope before the first status store", f"{q}:stage1"))
    # compact mode keeps a count before emptying the error list
    empt = [s for s in rep.stores if s.key == "validation_errors" and s.value_text == "[]" and _has(s.guards, "compact")]
    count[0] += 1
    for s in empt:
        before = [ast.unparse(x) for x in s.block[: s.index]]
        if "result['validation_error_count'] = len(result.get('validation_errors', []))" not in before:
            wits.append(_w(f"{q}@L{s.lineno}: compact mode empties validation_errors without recording validation_error_count first", f"{q}:compact", s.lineno))
    if wits:
        return Outcome.refuted("envelope", wits, count=count[0])
    return Outcome.ok("envelope", count=count[0])


def ob_write(ctx: Ctx) -> Outcome:
    mod, q, helper = W
    wits: list[Witness] = []
    count = [0]
    try:
        rep, _, err = _status_of_returns(mod, q, helper, "result", wits, count)
    except extract.ExtractionError as e:
        return Outcome.undecided("envelope", str(e))
    if err:
        return Outcome.undecided("envelope", err)
    kind, node = E.dict_literal_value(rep.init, "validation_status") if rep.init is not None else ("missing", None)
    count[0] += 1
    if kind != "const" or node.value != "UNVALIDATED":
        wits.append(_w(f"{q}: the envelope is not initialised with validation_status=UNVALIDATED", f"{q}:init"))
    hs = rep.assigns.get("has_schema", [])
    count[0] += 1
    if len(hs) != 1 or hs[0][1] != "schema_def is not None or (schema_definition is not None and bool(schema_definition.fields))":
        return Outcome.undecided("envelope", f"{q}: has_schema is not the pinned expression: {hs}")
    sd = [t for _, t in rep.assigns.get("schema_def", [])]
    sdef = sorted(set(t for _, t in rep.assigns.get("schema_definition", [])))
    count[0] += 1
    if sd != ["get_builtin_schema(schema_name)"] or sdef != ["None", "load_schema(schema_path)", "load_schema_by_name(schema_name)"]:
        wits.append(_w(f"{q}: schema_def / schema_definition provenance changed: {sd} {sdef}", f"{q}:schema-provenance"))
    for s in rep.stores:
        if s.key != "validation_status":
            continue
        count[0] += 1
        val = s.value.value if isinstance(s.value, ast.Constant) else None
        if val not in STATUS:
            wits.append(_w(f"{q}@L{s.lineno}: validation_status stored as {s.value_text}", f"{q}:status-store", s.lineno))
            continue
        if s.in_except:
            wits.append(_w(f"{q}@L{s.lineno}: status stored in an exception handler", f"{q}:status-in-except", s.lineno))
        if val == "VALIDATED" and not (_has(s.guards, "has_schema") and _has(s.guards, "validation_errors", False)):
            wits.append(_w(f"{q}@L{s.lineno}: VALIDATED stored without has_schema ∧ no blocking error: {[(g.test, g.positive) for g in s.guards]}", f"{q}:VALIDATED-guards", s.lineno))
        if val == "INVALID":
            if not (_has(s.guards, "has_schema") and _has(s.guards, "validation_errors")):
                wits.append(_w(f"{q}@L{s.lineno}: INVALID stored without has_schema ∧ blocking errors", f"{q}:INVALID-guards", s.lineno))
            nxt = s.block[s.index + 1] if s.index + 1 < len(s.block) else None
            nt = ast.unparse(nxt) if nxt is not None else ""
            if not (nt.startswith("result['validation_errors'] = [") and "for err in validation_errors" in nt):
                wits.append(_w(f"{q}@L{s.lineno}: INVALID is not followed by the one-per-error validation_errors list", f"{q}:INVALID-errors", s.lineno))
    names = [s for s in rep.stores if s.key == "schema_name" and _has(s.guards, "has_schema")]
    count[0] += 1
    arms = {(_has(s.guards, "schema_def is not None"), _has(s.guards, "schema_definition is not None")) for s in names}
    if arms != {(True, False), (False, True)}:
        wits.append(_w(f"{q}: schema_name is not stored on both arms of the has_schema branch", f"{q}:schema-record"))
    # status=error only through _error_envelope (UNVALIDATED)
    count[0] += 1
    if any(s.key == "status" for s in rep.stores):
        wits.append(_w(f"{q}: result['status'] is stored directly (status=error must go through _error_envelope => UNVALIDATED)", f"{q}:status-error"))
    if wits:
        return Outcome.refuted("envelope", wits, count=count[0])
    return Outcome.ok("envelope", count=count[0])


def ob_const_tools(ctx: Ctx) -> Outcome:
    wits: list[Witness] = []
    count = [0]
    for mod, q, helper in (J, G):
        try:
            _, _, err = _status_of_returns(mod, q, helper, None, wits, count)
        except extract.ExtractionError as e:
            return Outcome.undecided("envelope", str(e))
        # every return literal must be UNVALIDATED for these tools
        rep = E.analyse(mod, q, "__none__")
        for r in rep.returns:
            if isinstance(r.expr, ast.Dict):
                vals = [v for k, v in zip(r.expr.keys, r.expr.values) if isinstance(k, ast.Constant) and k.value == "validation_status"]
                if vals and isinstance(vals[-1], ast.Constant) and vals[-1].value != "UNVALIDATED":
                    wits.append(_w(f"{q}@L{r.lineno}: returns validation_status={vals[-1].value!r} (this tool never validates)", f"{q}:status", r.lineno))
    if wits:
        return Outcome.refuted("envelope", wits, count=count[0])
    return Outcome.ok("envelope", count=count[0])


def ob_schema_name_language(ctx: Ctx) -> Outcome:
    """C10.P4/R: load_schema_by_name returns None before touching the file system unless the name is in
    L(SCHEMA_NAME_PATTERN via .match) ⊆ [A-Z][A-Z0-9_]*\\n? ; get_builtin_schema is a dict lookup."""
    from verif.reglang import automata as A
    from verif.reglang.alphabet import alphabet

    al = alphabet()
    try:
        rx = extract.const("octave_mcp.schemas.loader", "SCHEMA_NAME_PATTERN")
        fn = extract.find_def("octave_mcp.schemas.loader", "load_schema_by_name")
        gb = ast.unparse(extract.find_def("octave_mcp.schemas.loader", "get_builtin_schema"))
    except extract.ExtractionError as e:
        return Outcome.undecided("ast-shape", str(e))
    wits = []
    lang = A.erase_mark(A.match_marked(rx.pattern, rx.flags, None, al)) & A.dfa_regex(rx.pattern, rx.flags, None, al) | (A.erase_mark(A.match_marked(rx.pattern, rx.flags, None, al)))
    accepted_full = A.concat(al, [A.dfa_regex(rx.pattern, rx.flags, None, al)])  # strings the pattern matches entirely
    # .match accepts any string with a matching prefix; for an anchored ^...$ pattern that is the full matches plus a trailing newline
    pref = A.erase_mark(A.match_marked(rx.pattern, rx.flags, None, al))
    allowed = A.dfa_regex(r"[A-Z][A-Z0-9_]*\n?", 0, None, al)
    bad = pref - allowed
    if not bad.is_empty():
        s = bad.witness_str()
        wits.append(Witness(what=f"schema name {s!r} passes SCHEMA_NAME_PATTERN.match but is outside [A-Z][A-Z0-9_]*", key=s, input=s, confirmed=True))
    body = [b for b in fn.body if not (isinstance(b, ast.Expr) and isinstance(b.value, ast.Constant))]
    first = ast.unparse(body[0]) if body else ""
    if first != "if not SCHEMA_NAME_PATTERN.match(schema_name):\n    return None":
        wits.append(_w("load_schema_by_name no longer starts with the schema-name guard returning None", "load_schema_by_name:guard"))
    if "return BUILTIN_SCHEMA_DEFINITIONS.get(schema_name)" not in gb:
        wits.append(_w("get_builtin_schema is no longer a plain dict lookup", "get_builtin_schema"))
    if wits:
        return Outcome.refuted("dfa+ast-shape", wits, count=3)
    return Outcome.ok("dfa+ast-shape", count=3)


def obligations(ctx: Ctx):
    P = PROPERTY
    obs = [
        Ob(f"{P}.P1", "F", "octave_validate: status present on every return, VALIDATED/INVALID only under their guards, valid mirrors status", [f"{V[0]}:{V[1]}", f"{V[0]}:{V[2]}"], ob_validate),
        Ob(f"{P}.P2", "F", "octave_write: status present on every return, VALIDATED/INVALID only under their guards", [f"{W[0]}:{W[1]}", f"{W[0]}:{W[2]}"], ob_write),
        Ob(f"{P}.P3", "F", "octave_eject / octave_compile_grammar: every return carries UNVALIDATED", [f"{J[0]}:{J[1]}", f"{G[0]}:{G[1]}", f"{G[0]}:{G[2]}"], ob_const_tools),
        Ob(f"{P}.P4", "R", "schema names: only [A-Z][A-Z0-9_]* reaches the file system; builtin lookup is a dict get", ["octave_mcp.schemas.loader:load_schema_by_name", "octave_mcp.schemas.loader:get_builtin_schema"], ob_schema_name_language),
    ]
    try:
        from props import C10_b

        from props import framesobs as _FO

        obs.append(Ob(f"{P}.F3.state", "F", "the verdict is a function of the call: the validator's closure writes no process state (module objects, memoised mutable objects) that a later call could read", ["octave_mcp.core.validator:Validator.validate"], _FO.ob_no_effects(["octave_mcp.core.validator:Validator.validate"], ("global_write",))))
        obs.append(Ob(f"{P}.F3.tool", "F", "a status is decided by THIS call: the four tool objects carry nothing from one call to the next (no method in the closure of execute stores through self)", [f"{V[0]}:{V[1]}", f"{W[0]}:{W[1]}", f"{J[0]}:{J[1]}", f"{G[0]}:{G[1]}"], _FO.ob_tool_stateless(("validate", "write", "eject", "compile_grammar"))))
        obs.append(Ob(f"{P}.F3.memo", "F", "memoised functions in the validator's closure are keyed by arguments whose equality implies they are indistinguishable", ["octave_mcp.core.validator:Validator.validate"], _FO.ob_memo_keys(["octave_mcp.core.validator:Validator.validate"])))
        obs.append(Ob(f"{P}.B1", "B", "contents x schema arguments x profiles x flag combinations on the four real tools; VALIDATED canonicals re-validate", [f"{V[0]}:{V[1]}", f"{W[0]}:{W[1]}", f"{J[0]}:{J[1]}", f"{G[0]}:{G[1]}"], C10_b.ob_b1, timeout=3000))
        obs.append(Ob(f"{P}.B2", "B", "the CLI's `octave validate`: a VALIDATED claim is backed by the tool on the same input and on the printed canonical text", [f"{V[0]}:{V[1]}", f"{W[0]}:{W[1]}", f"{J[0]}:{J[1]}", f"{G[0]}:{G[1]}"], C10_b.ob_b2, timeout=3000))
    except ImportError:
        pass
    return obs
