"""C07 — every lenient rewrite has a receipt; canonical input has none."""
from __future__ import annotations

import ast
import re

from contracts import receipts as RC
from props import docs_b
from props import lexical as LX
from verif import extract
from verif.common import Ctx, Ob, Outcome, Witness
from verif.pyvc.adapter import contract_ob

PROPERTY = "C07"
LEVEL = "other"
LEVEL_TEXT = "receipt plumbing proved: the lexer appends a normalization receipt exactly when it builds a token with normalized_from, with the token's own position (AST-shape obligation on the real tokenize); which lexemes get normalized_from is a regular-language obligation over the real table; parse_with_warnings returns lexer receipts ++ parser warnings; octave_write's mapping functions map one receipt to one correction (VCs on the real functions). The parser's own receipts (multi-word coalescing etc.) and the end-to-end multiset equality are a bounded stand-in over the content model"
LEVEL_NOTE = "parser receipts: the multi-word, canonical (no receipt) and bare-flow cases are proved on the real parse_section for all token values (contracts/parse_receipts.py); the other ~15 receipt sites inside parse_value/parse_section are explored (B), not proved"
TECHNIQUE = "AST-shape + language obligations on the real lexer (R), pre/postconditions on the real plumbing functions discharged by z3 (P), bounded injected-rewrite vs receipt multiset comparison (B)"
EXPLANATION = "C07: R/P obligations on tokenize, parse_with_warnings, WriteTool._map_parse_warnings_to_corrections/_track_corrections; B: multiset of receipts == multiset of injected rewrites on every model document and subset of rewrite sites, zero receipts on canonical text, through both readers and both tools."
ASSUMPTIONS = ["canonical text contains no alias lexeme outside strings/comments/zones (C03.R2/R3)", "parser receipt sites other than multi-word / canonical / bare-flow are bounded (B)"]
TRUSTED_BASE = ["verif.reglang", "verif.pyvc", "verif.bounded.model", "z3", "cvc5"]
LEXER = "octave_mcp.core.lexer"
WRITE = "octave_mcp.mcp.write"


def probe_receipts():
    """texts with rewrites at known places: one receipt each, with the written / resulting text and the position"""
    from octave_mcp.core.parser import parse_with_warnings

    cases = [
        ("===D===\nA::x->y\n===END===\n", [("->", "→", 2, 5)]),
        ("===D===\nA::x->y->z\nB::p+q\n===END===\n", [("->", "→", 2, 5), ("->", "→", 2, 8), ("+", "⊕", 3, 5)]),
        ('===D===\nS::"a\u2028b"\nA::x->y\n===END===\n', [("->", "→", 3, 5)]),
        ('===D===\nT::"""x"""\nA::u<->v\n===END===\n', [('"""', None, 2, 4), ("<->", "⇌", 3, 5)]),
        ("===D===\nA::x→y\nB::p⊕q\n===END===\n", []),
    ]
    bad = []
    for text, want in cases:
        _, ws = parse_with_warnings(text)
        got = sorted((w.get("original"), w.get("line"), w.get("column")) for w in ws if w.get("type") == "normalization")
        exp = sorted((o, ln, c) for o, _, ln, c in want)
        if got != exp:
            bad.append(f"{text!r}: receipts {got}, rewrites written {exp}")
        for w in ws:
            if w.get("type") == "normalization":
                m = [n for o, n, ln, c in want if (o, ln, c) == (w.get("original"), w.get("line"), w.get("column")) and n is not None]
                if m and w.get("normalized") != m[0]:
                    bad.append(f"{text!r}: {w.get('original')} reported as becoming {w.get('normalized')!r}")
    return bool(bad), "; ".join(bad[:2]) or "probe: each written rewrite has exactly one receipt with its text and position"


def probe_positions():
    """real tokenize on texts with every character some routines treat as a line break, multi-line strings and zones:
    each token's (line, column) must be where an independent scan of the text (only "\\n" ends a line) finds its lexeme"""
    from octave_mcp.core.lexer import tokenize

    seps = ["\r", "\x0b", "\x0c", "\x1c", "\x1d", "\x1e", "\x85", "\u2028", "\u2029"]
    texts = ['===D===\nS::"a%sb%s"\nF::A->B\nK::v\n===END===\n' % (sp, sp) for sp in seps]
    texts += ['===D===\nT::"""l1\nl2\nl3"""\nF::A->B\n===END===\n', '===D===\n// c\u2028d\nF::A->B\n===END===\n', "===D===\nZ::\n```\na\u2028b\n\n```\nF::A->B\n===END===\n", '===D===\nL::["x\x0cy",\n  "p\x85q"]\nF::A->B\n===END===\n']
    bad = []
    for t in texts:
        toks, _ = tokenize(t)
        for tk in toks:
            if tk.type.name in ("IDENTIFIER", "FLOW", "ASSIGN") and isinstance(tk.line, int):
                lines = t.split("\n")
                if not (1 <= tk.line <= len(lines)):
                    bad.append(f"{t!r}: token {tk.type.name} {tk.value!r} reported on line {tk.line} of {len(lines)}")
                    continue
                lexeme = tk.normalized_from or (tk.value if isinstance(tk.value, str) else None)
                if tk.type.name == "ASSIGN":
                    lexeme = "::"
                if lexeme and lines[tk.line - 1][tk.column - 1: tk.column - 1 + len(lexeme)] != lexeme:
                    bad.append(f"{t!r}: token {tk.type.name} {lexeme!r} reported at ({tk.line},{tk.column}) where the input has {lines[tk.line - 1][tk.column - 1: tk.column - 1 + len(lexeme)]!r}")
    return bool(bad), "; ".join(bad[:2]) or "probe: every token is where a scan for \\n-terminated lines finds it"


def ob_position_update(ctx: Ctx) -> Outcome:
    """C07.P8: the position bookkeeping block of tokenize's table branch (located structurally) under its contract;
    when the block reads variables the contract does not describe, or has another shape, a probe decides"""
    from contracts import receipts as RC
    from verif.common import shape_verdict
    from verif.pyvc.adapter import contract_outcome

    try:
        step = RC._pos_block()
    except extract.ExtractionError as e:
        return shape_verdict("pyvc", [str(e)], probe_positions, 7, {"runner": "props.C07:probe_positions", "args": {}})
    extra = sorted(set(step.params) - set(RC.POSITION_UPDATE.params))
    if extra:
        return shape_verdict("pyvc", [f"the position bookkeeping now depends on {extra}, which the contract does not describe"], probe_positions, 7, {"runner": "props.C07:probe_positions", "args": {}})
    out = contract_outcome(RC.POSITION_UPDATE, "contracts.receipts:POSITION_UPDATE")
    if out.status == "undecided":
        return shape_verdict("pyvc", [out.detail[:200]], probe_positions, 7, {"runner": "props.C07:probe_positions", "args": {}})
    return out


def probe_brace_repair() -> tuple[bool, str]:
    """concrete stand-in for C07.P9 when the helper has another shape: the hand-built brace documents of C07.B3"""
    from props import C07_b

    bad = []
    for i, (text, want, keep) in enumerate(C07_b.brace_cases()):
        p = C07_b._brace_one(text, want, keep)
        if p:
            bad.append(f"case {i}: {p[:200]}")
    return (bool(bad), "; ".join(bad[:3]) or "all hand-built brace documents repaired exactly at their live occurrences")


def ob_protected_lookup(ctx: Ctx) -> Outcome:
    """C07.P9: the nested helper `_is_protected` of the brace repair under contract (result <=> some protected range
    contains the position, given sorted starts), plus the frame the precondition relies on: `protected.sort()` runs
    after the last append and before the helper's only uses, and matches are filtered by `not _is_protected(match.start())`."""
    from contracts import receipts as RC
    from verif.common import shape_verdict
    from verif.pyvc.adapter import contract_outcome

    rp = {"runner": "props.C07:probe_brace_repair", "args": {}}
    try:
        fn = extract.find_def(WRITE, "WriteTool._repair_curly_brace_annotations")
        RC._is_protected_fn()
    except extract.ExtractionError as e:
        return shape_verdict("pyvc", [str(e)], probe_brace_repair, 1, rp)
    problems = []
    sorts = [n for n in ast.walk(fn) if isinstance(n, ast.Call) and isinstance(n.func, ast.Attribute) and n.func.attr == "sort" and isinstance(n.func.value, ast.Name) and n.func.value.id == "protected" and not n.args and not n.keywords]
    appends = [n for n in ast.walk(fn) if isinstance(n, ast.Call) and isinstance(n.func, ast.Attribute) and n.func.attr in ("append", "extend", "insert") and isinstance(n.func.value, ast.Name) and n.func.value.id == "protected"]
    uses = [n for n in ast.walk(fn) if isinstance(n, ast.Call) and isinstance(n.func, ast.Name) and n.func.id == "_is_protected"]
    rebinds = [n for n in ast.walk(fn) if isinstance(n, ast.Name) and n.id == "protected" and isinstance(n.ctx, ast.Store)]
    top = {id(st): k for k, st in enumerate(fn.body)}

    def top_index(node):
        for k, st in enumerate(fn.body):
            if any(x is node for x in ast.walk(st)):
                return k
        return -1

    if len(sorts) != 1 or top_index(sorts[0]) < 0 or not isinstance(fn.body[top_index(sorts[0])], ast.Expr):
        problems.append("`protected.sort()` is not a single unconditional top-level statement")
    else:
        ks = top_index(sorts[0])
        if any(top_index(a) >= ks for a in appends):
            problems.append("protected grows after it was sorted")
        if any(top_index(u) <= ks for u in uses) or not uses:
            problems.append("_is_protected is used before the sort (or never)")
        if len(rebinds) != 1 or top_index(rebinds[0]) >= ks:
            problems.append("protected is rebound")
    # the one use is `not _is_protected(<match>.start())` as the test of an `if` statement or of a comprehension filter
    tests = [n.test for n in ast.walk(fn) if isinstance(n, ast.If)] + [c for n in ast.walk(fn) if isinstance(n, ast.comprehension) for c in n.ifs]
    filt = [t for t in tests if isinstance(t, ast.UnaryOp) and isinstance(t.op, ast.Not) and isinstance(t.operand, ast.Call) and t.operand in uses and len(t.operand.args) == 1 and isinstance(t.operand.args[0], ast.Call) and isinstance(t.operand.args[0].func, ast.Attribute) and t.operand.args[0].func.attr == "start" and not t.operand.args[0].args]
    if len(filt) != 1 or len(uses) != 1:
        problems.append("matches are not filtered by `not _is_protected(<match>.start())` exactly once")
    # the zone ranges: a line opens / closes a protected zone only when the LEXER's fence pattern takes it as a fence line (a
    # private notion of "fence line" - strip(), startswith - disagrees with the reader on runs behind a tab or followed by a
    # later backtick, and the zone loses its protection from that line on)
    fence_tests = [n for n in ast.walk(fn) if isinstance(n, ast.Call) and ast.unparse(n.func) == "FENCE_PATTERN.match" and len(n.args) == 1 and isinstance(n.args[0], ast.Name) and n.args[0].id == "line"]
    imports_pattern = any(isinstance(n, ast.ImportFrom) and n.module == "octave_mcp.core.lexer" and any(a.name == "FENCE_PATTERN" and a.asname is None for a in n.names) for n in ast.walk(extract.module_ast(WRITE)))
    private = [n for n in ast.walk(fn) if isinstance(n, ast.Call) and isinstance(n.func, ast.Attribute) and n.func.attr == "startswith" and n.args and isinstance(n.args[0], ast.Constant) and isinstance(n.args[0].value, str) and n.args[0].value.startswith("```")]
    if len(fence_tests) != 1 or not imports_pattern or private:
        problems.append("fence lines of the protected zones are not recognised by the lexer's FENCE_PATTERN.match(line)")
    if problems:
        return shape_verdict("ast-frame", problems, probe_brace_repair, 1, rp)
    out = contract_outcome(RC.IS_PROTECTED, "contracts.receipts:IS_PROTECTED")
    if out.status == "undecided":
        return shape_verdict("pyvc", [out.detail[:200]], probe_brace_repair, 1, rp)
    return out


def ob_receipt_coupling(ctx: Ctx) -> Outcome:
    """C07.P1 (AST shape): in tokenize's table branch the token is Token(token_type, value, line, column,
    normalized_from, raw_lexeme) and `if normalized_from: repairs.append({type: normalization, original:
    normalized_from, normalized: value, line, column})` follows with no assignment to line/column/value in
    between; normalized_from is assigned only from matched_text (alias) or the literal '\"\"\"'; the '+'
    branch appends Token(SYNTHESIS, '⊕', line, column, '+') and the matching receipt; the identifier branch
    builds a token without normalized_from."""
    try:
        fn = extract.find_def(LEXER, "tokenize")
    except extract.ExtractionError as e:
        return Outcome.undecided("ast-shape", str(e))
    src = ast.unparse(fn)
    facts = []
    need = [
        ("token = Token(token_type, value, line, column, normalized_from, raw_lexeme)", "table token carries normalized_from"),
        ("if normalized_from:\n                    repairs.append({'type': 'normalization', 'original': normalized_from, 'normalized': value, 'line': line, 'column': column})", "receipt appended iff normalized_from, same line/column/value"),
        ("tokens.append(Token(TokenType.SYNTHESIS, '⊕', line, column, '+'))\n                repairs.append({'type': 'normalization', 'original': '+', 'normalized': '⊕', 'line': line, 'column': column})", "'+' branch: token and receipt together"),
        ("token = Token(TokenType.IDENTIFIER, unicode_id, line, column)", "identifier tokens carry no normalized_from"),
    ]
    from verif.common import shape_verdict

    for text, what in need:
        if text not in src:
            return shape_verdict("ast-shape", [f"tokenize no longer has the receipt coupling `{what}`"], probe_receipts, len(need), {"runner": "props.C07:probe_receipts", "args": {}})
        facts.append(what)
    # between token creation and the receipt nothing rebinds line / column / value / normalized_from
    seg = src.split("token = Token(token_type, value, line, column, normalized_from, raw_lexeme)", 1)[1].split("if normalized_from:", 1)[0]
    if re.search(r"^\s*(line|column|value|normalized_from)\s*(=|\+=)", seg, re.M):
        return shape_verdict("ast-shape", ["line/column/value/normalized_from is rebound between the token and its receipt"], probe_receipts, len(need) + 1, {"runner": "props.C07:probe_receipts", "args": {}})
    # normalized_from is assigned only from matched_text, '\"\"\"' or None
    assigns = set(re.findall(r"normalized_from = (.+)", src))
    if not assigns <= {"None", "'\"\"\"'", "matched_text"}:
        return shape_verdict("ast-shape", [f"normalized_from assigned from {sorted(assigns)}"], probe_receipts, len(need) + 2, {"runner": "props.C07:probe_receipts", "args": {}})
    # the only other appends of type normalization: none
    n_norm = src.count("'type': 'normalization'")
    if n_norm != 2:
        return shape_verdict("ast-shape", [f"{n_norm} sites append a normalization receipt (expected the table branch and the '+' branch)"], probe_receipts, len(need) + 3, {"runner": "props.C07:probe_receipts", "args": {}})
    return Outcome.ok("ast-shape", count=len(need) + 3, facts=facts)


def ob_alias_lexemes(ctx: Ctx) -> Outcome:
    """C07.R1: a table token gets normalized_from iff its lexeme is a key of ASCII_ALIASES (or starts with
    '\"\"\"'); every documented alias key is the full lexeme of some table entry (so each alias occurrence
    gets its receipt) except '+', which the fall-back branch handles; no Unicode operator, '::', ':' or
    bracket is a key (canonical operators never get a receipt)."""
    from verif.reglang import tokmodel

    try:
        aliases = extract.const(LEXER, "ASCII_ALIASES")
        pats = tokmodel.token_patterns()
        fn_src = ast.unparse(extract.find_def(LEXER, "tokenize"))
    except extract.ExtractionError as e:
        return Outcome.undecided("ast-shape", str(e))
    wits = []
    n = 0
    for a in ["->", "<->", "~", "vs", "|", "&", "#"]:
        n += 1
        if a not in aliases:
            wits.append(Witness(what=f"documented alias {a!r} is not in ASCII_ALIASES: its occurrences get no receipt", key=a, input=a))
        elif not any(re.fullmatch(p, a) for p, _ in pats):
            wits.append(Witness(what=f"alias {a!r} is not the full lexeme of any table entry", key=a, input=a))
    for u in ["→", "⊕", "⧺", "⇌", "∧", "∨", "§", "::", ":", "[", "]", ",", "@"]:
        n += 1
        if u in aliases:
            wits.append(Witness(what=f"canonical lexeme {u!r} is a key of ASCII_ALIASES: canonical input would get a receipt", key=u, input=u))
    n += 1
    if "if matched_text in ASCII_ALIASES:\n                    normalized_from = matched_text" not in fn_src:
        wits.append(Witness(what="normalized_from is no longer set exactly when matched_text in ASCII_ALIASES", key="alias-test", input=""))
    # STRING / COMMENT / identifier lexemes are never alias keys
    n += 1
    for k in aliases:
        if k.startswith(('"', "//")):
            wits.append(Witness(what=f"alias key {k!r} overlaps a string/comment lexeme", key=k, input=k))
    if wits:
        return Outcome.refuted("table", wits, count=n)
    return Outcome.ok("table", count=n)


def ob_b1(ctx: Ctx):
    return docs_b.run(ctx, {"C07"}, 5000, 30000, 12, 48)


ob_b1.wants_all_cores = True


def obligations(ctx: Ctx):
    P = PROPERTY
    obs = [
        Ob(f"{P}.P1", "R", "lexer: normalization receipt iff token.normalized_from, with the token's own position", [LEXER + ":tokenize"], ob_receipt_coupling),
        Ob(f"{P}.P9", "P", "brace repair: the protected-range lookup answers 'inside some protected range' exactly (sorted starts; the sort dominates the uses)", [WRITE + ":WriteTool._repair_curly_brace_annotations"], ob_protected_lookup),
        Ob(f"{P}.P8", "P", "tokenize position bookkeeping: a token moves the line by the number of \\n it contains (nothing else is a line break), the column by its length / to after its last \\n", [LEXER + ":tokenize"], ob_position_update),
        Ob(f"{P}.R1", "R", "normalized_from iff the lexeme is a documented ASCII alias (or triple quote)", [LEXER + ":tokenize"], ob_alias_lexemes),
        Ob(f"{P}.R2.ident", "R", "canonical bare values re-lex without alias tokens (identifier class)", LX.FUNCS_EMIT + LX.FUNCS_LEX, lambda ctx: LX.ob_ident(ctx, oid=f"{P}.R2", which="ident")),
        Ob(f"{P}.R2.expr", "R", "canonical bare expressions re-lex to Unicode operator tokens only", LX.FUNCS_EMIT + LX.FUNCS_LEX, lambda ctx: LX.ob_expr(ctx, oid=f"{P}.R2")),
        contract_ob(f"{P}.P3", "parse_with_warnings returns lexer receipts ++ parser warnings", lambda: RC.PARSE_WITH_WARNINGS, "contracts.receipts:PARSE_WITH_WARNINGS"),
    ]
    for n in (0, 1, 2):
        obs.append(contract_ob(f"{P}.P5.map.n{n}", f"_map_parse_warnings_to_corrections: one correction per rewrite warning ({n} warnings)", (lambda n=n: RC.map_warnings_contract(n)), f"contracts.receipts:map_warnings_contract({n})"))
        obs.append(contract_ob(f"{P}.P5.track.n{n}", f"_track_corrections: W002 iff normalization record ({n} records)", (lambda n=n: RC.track_corrections_contract(n)), f"contracts.receipts:track_corrections_contract({n})"))
    try:
        from props import C07_b as _b

        obs.append(Ob(f"{P}.B3", "B", "brace-for-angle repair of octave_write(lenient): one receipt per live occurrence; strings, comments and literal zones untouched", ["octave_mcp.mcp.write:WriteTool._repair_curly_brace_annotations"], _b.ob_b3, timeout=1200))
    except ImportError:
        pass
    obs.append(Ob(f"{P}.B1", "B", "multiset of receipts == multiset of injected rewrites; canonical text yields none", ["octave_mcp.core.parser:parse_with_warnings"], ob_b1, timeout=3000))
    try:
        from props import C07_b

        obs.append(Ob(f"{P}.B2", "B", "octave_validate.repairs and octave_write.corrections surface the receipts (strict and lenient)", ["octave_mcp.mcp.validate:ValidateTool.execute", "octave_mcp.mcp.write:WriteTool.execute"], C07_b.ob_b2, timeout=3000))
    except ImportError:
        pass
    from props import lexical as _LX

    obs += _LX.parse_receipt_obs(P)
    obs.append(Ob(f"{P}.F4.frontmatter", "F", "frontmatter stripping cuts and glues on the same literal newline: receipt lines behind frontmatter count LF only", ["octave_mcp.core.parser:_strip_yaml_frontmatter"], _LX.ob_frontmatter_split_join))
    return obs
