"""C19 — tools cannot be steered outside the intended files."""
from __future__ import annotations

import ast
import re

from verif import extract
from verif.common import Ctx, Ob, Outcome, Witness
from verif.extract import ExtractionError
from verif.reglang import automata as A
from verif.reglang.alphabet import alphabet

PROPERTY = "C19"
LEVEL = "other"
LEVEL_TEXT = "each gate is under a contract decided on the real source: (R1) every string SCHEMA_NAME_PATTERN.match accepts is free of path separators, dots and NUL, so the joined file name is a direct child of a schema directory, and load_schema_by_name returns before any file access otherwise; the tools hand the schema argument only to get_builtin_schema / load_schema_by_name (F2); (R2) a frozen reference is accepted only by a fullmatch whose digest group is 64 hex digits, the cache file name is built from it alone, and `return cached_path` is dominated by the comparison of the streamed hash with the digest (F3); (F4) validate_source_uri returns only after resolved.relative_to(base_path) succeeded; (F1) the three path validators have the recognised guard structure: '..' component test, absolute-vs-resolved comparison with a per-component lstat walk that returns refusal for every symlink (dangling included), extension allow-list, and in the tools the validator's refusal returns E_PATH before any content read or mutation (effect order). What the guard structure means on a real file system (resolve(), lstat, races) is assumed; the bounded sweep builds directory trees with secrets outside a sandbox and audits every path opened"
LEVEL_NOTE = "the macOS exemption (a symlink at depth <= 2 resolving under /private/ is let through) is a known finding; time-of-check/time-of-use between validation and use is outside the model (single actor)"
TECHNIQUE = "regular-language emptiness for the name/digest gates; guard-dominance and call-site contracts decided on the real AST; bounded sweep over generated directory trees with an audit hook recording every path opened"
EXPLANATION = "C19: R1 schema names, R2 digests, F1 validator structure + refusal before access, F2 schema argument routes, F3 hash comparison dominates the return, F4 source URI containment, B1 path sweep, B2 schema-name / digest / source-URI sweeps."
ASSUMPTIONS = ["Path.resolve / lstat semantics of the host file system", "single actor: no change of the tree between validation and use", "str.lower() of an ASCII upper-case name introduces no separator (checked exhaustively for the accepted alphabet)"]
TRUSTED_BASE = ["verif.reglang", "verif.frames"]
WRITE, VALIDATE, FOPS, LOADER, HYD = "octave_mcp.mcp.write", "octave_mcp.mcp.validate", "octave_mcp.core.file_ops", "octave_mcp.schemas.loader", "octave_mcp.core.hydrator"
FUNCS = [f"{WRITE}:WriteTool._validate_path", f"{VALIDATE}:ValidateTool._validate_path", f"{FOPS}:validate_octave_path", f"{LOADER}:load_schema_by_name", f"{HYD}:resolve_hermetic_standard", f"{HYD}:validate_source_uri"]


def ob_schema_names(ctx: Ctx) -> Outcome:
    al = alphabet()
    try:
        rx = extract.const(LOADER, "SCHEMA_NAME_PATTERN")
        fn = extract.find_def(LOADER, "load_schema_by_name")
    except ExtractionError as e:
        return Outcome.undecided("ast-shape", str(e))
    wits = []
    acc = A.erase_mark(A.match_marked(rx.pattern, rx.flags, None, al)) & A.dfa_regex(r"(?s).*", 0, None, al)
    # .match: the pattern's own `$` decides the end; the accepted language must contain no separator / dot / NUL / backslash
    full = A.dfa_regex(rx.pattern, rx.flags, None, al)
    bad = full & A.concat(al, [A.sigma_star(al), al.chars("/\\.\x00:~"), A.sigma_star(al)])
    if not bad.is_empty():
        s = bad.witness_str()
        from props import C19_b

        failed, text = C19_b.replay_schema_name(s)
        wits.append(Witness(what=f"schema name {s!r} passes SCHEMA_NAME_PATTERN and contains a path character; {text}", key=s, input=s, replay={"runner": "props.C19_b:replay_schema_name", "args": {"name": s}}, confirmed=failed))
    body = [b for b in fn.body if not (isinstance(b, ast.Expr) and isinstance(b.value, ast.Constant))]
    first = ast.unparse(body[0]) if body else ""
    if first != "if not SCHEMA_NAME_PATTERN.match(schema_name):\n    return None":
        wits.append(Witness(what="load_schema_by_name no longer starts with the schema-name guard returning None", key="guard", input=first[:80]))
    src = ast.unparse(fn)
    if "patterns = [f'{schema_name.lower()}.oct.md', f'{schema_name}.oct.md']" not in src or "schema_file = search_path / pattern" not in src:
        wits.append(Witness(what="load_schema_by_name builds the file name from something other than the checked name + '.oct.md' joined to a search path", key="join", input=""))
    # lower() on the accepted alphabet introduces no separator
    for ch in "ABCDEFGHIJKLMNOPQRSTUVWXYZ0123456789_\n":
        if any(c in ch.lower() for c in "/\\."):
            wits.append(Witness(what=f"lower({ch!r}) contains a path character", key=f"lower:{ch}", input=ch))
    if wits:
        return Outcome.refuted("dfa+ast-shape", wits, count=4)
    return Outcome.ok("dfa+ast-shape", count=4, accepted_states=full.size())


def ob_schema_routes(ctx: Ctx) -> Outcome:
    """in the four tools, load_schema (arbitrary path) is never called with the `schema` argument; it flows to
    get_builtin_schema / load_schema_by_name only"""
    wits, n = [], 0
    for mod, qual in ((WRITE, "WriteTool.execute"), (VALIDATE, "ValidateTool.execute"), ("octave_mcp.mcp.eject", "EjectTool.execute"), ("octave_mcp.mcp.compile_grammar", "CompileGrammarTool.execute")):
        try:
            fn = extract.find_def(mod, qual)
        except ExtractionError as e:
            return Outcome.undecided("ast-shape", str(e))
        names = {"schema", "schema_name", "schema_name_param"}
        for c in ast.walk(fn):
            if isinstance(c, ast.Call):
                nm = ast.unparse(c.func)
                args = [ast.unparse(a) for a in c.args] + [ast.unparse(k.value) for k in c.keywords]
                if any(a in names for a in args):
                    n += 1
                    if nm.split(".")[-1] in ("load_schema", "open", "Path", "read_text", "load_schema_from_path") or nm.endswith(".open"):
                        wits.append(Witness(what=f"{qual} L{c.lineno}: the schema argument is passed to `{nm}` (an arbitrary path would be opened)", key=f"{qual}:{nm}", input=ast.unparse(c)[:100]))
    if n == 0:
        return Outcome.undecided("ast-shape", "no use of the schema argument found in the tools")
    if wits:
        # a path-like schema argument must still not open anything outside the schema directories
        from props import C19_b
        from verif.common import shape_verdict

        return shape_verdict("ast-shape", [w.what for w in wits], C19_b.probe_schema_argument, n, {"runner": "props.C19_b:probe_schema_argument", "args": {}})
    return Outcome.ok("ast-shape", count=n)


def ob_frozen(ctx: Ctx) -> Outcome:
    al = alphabet()
    try:
        fn = extract.find_def(HYD, "resolve_hermetic_standard")
    except ExtractionError as e:
        return Outcome.undecided("ast-shape", str(e))
    src = ast.unparse(fn)
    wits = []
    m = re.search(r"(\w+) = re\.fullmatch\('([^']*)', standard_ref\)", src)
    gate_var = None
    if m:
        gate_var, pat = m.group(1), m.group(2).encode().decode("unicode_escape")
    else:
        # the same gate with the pattern hoisted into a compiled module constant: `<var> = NAME.fullmatch(standard_ref)`
        m2 = re.search(r"(\w+) = (\w+)\.fullmatch\(standard_ref\)", src)
        rxc = extract.module_consts(HYD).get(m2.group(2)) if m2 else None
        if not (m2 and isinstance(rxc, extract.Rx) and rxc.flags == 0):
            return Outcome.undecided("ast-shape", "frozen reference is no longer gated by a fullmatch of a literal / compiled-constant pattern on standard_ref")
        gate_var, pat = m2.group(1), rxc.pattern
    try:
        lang = A.dfa_regex(pat, 0, None, al)
    except Exception as e:  # noqa: BLE001
        return Outcome.undecided("dfa", f"{type(e).__name__}: {e}")
    ref = A.dfa_regex(r"frozen@sha256:[0-9a-fA-F]{64}", 0, None, al)
    d = lang - ref
    if not d.is_empty():
        s = d.witness_str()
        from props import C19_b

        failed, text = C19_b.replay_frozen(s)
        wits.append(Witness(what=f"frozen reference {s!r} is accepted by the gate but is not 'frozen@sha256:' + 64 hex digits; {text}", key=s, input=s, replay={"runner": "props.C19_b:replay_frozen", "args": {"ref": s}}, confirmed=failed))
    need = [
        (f"digest = {gate_var}.group(1).lower()", "the digest is the matched group"),
        ("cached_path = cache_dir / f'{digest[:16]}.oct.md'", "the cache file name is built from the digest alone"),
        ("actual_hash = compute_vocabulary_hash(cached_path)", "the file's bytes are hashed"),
        ("expected_hash = f'sha256:{digest}'", "the expected hash is the full digest"),
    ]
    for text, why in need:
        if text not in src:
            wits.append(Witness(what=f"resolve_hermetic_standard: `{text[:60]}` not found ({why})", key=text[:30], input=text))
    for test, why in ((f"{gate_var} is None", "a reference that does not match raises"), ("actual_hash != expected_hash", "a different hash raises"), ("not cached_path.exists()", "a missing cache file raises")):
        if not any(isinstance(n, ast.If) and ast.unparse(n.test) == test and isinstance(n.body[-1], ast.Raise) and not n.orelse for n in ast.walk(fn)):
            wits.append(Witness(what=f"resolve_hermetic_standard: no `if {test}: raise ...` ({why})", key=test, input=test))
    # `return cached_path` comes after the hash comparison in the same block
    for n in ast.walk(fn):
        if isinstance(n, ast.If) and ast.unparse(n.test) == "standard_ref.startswith('frozen@sha256:')":
            kinds = [("cmp" if isinstance(s, ast.If) and ast.unparse(s.test) == "actual_hash != expected_hash" else "ret" if isinstance(s, ast.Return) else "") for s in n.body]
            if "cmp" not in kinds or "ret" not in kinds or kinds.index("cmp") > kinds.index("ret") or kinds.count("ret") != 1:
                wits.append(Witness(what="resolve_hermetic_standard: `return cached_path` is not dominated by the hash comparison", key="dominance", input=str(kinds)))
    if wits:
        from props import C19_b

        failed, text = C19_b.replay_frozen_probe()
        if not failed and not any(w.confirmed for w in wits):
            return Outcome.undecided("ast-shape", "; ".join(w.what[:90] for w in wits[:3]) + f"; probe: {text}")
        for w in wits:
            if not w.confirmed:
                w.confirmed, w.what = failed, w.what + f" — {text}"
                w.replay = {"runner": "props.C19_b:replay_frozen_probe", "args": {}}
        return Outcome.refuted("dfa+ast-shape", wits, count=len(need) + 2)
    return Outcome.ok("dfa+ast-shape", count=len(need) + 2)


def ob_source_uri(ctx: Ctx) -> Outcome:
    try:
        fn = extract.find_def(HYD, "validate_source_uri")
    except ExtractionError as e:
        return Outcome.undecided("ast-shape", str(e))
    body = [b for b in fn.body if not (isinstance(b, ast.Expr) and isinstance(b.value, ast.Constant))]
    rets = [n for n in ast.walk(fn) if isinstance(n, ast.Return)]
    probs = []
    if len(rets) != 1 or ast.unparse(rets[0].value) != "resolved" or body[-1] is not rets[0]:
        probs.append(f"validate_source_uri has returns {[ast.unparse(r)[:40] for r in rets]} (expected a single final `return resolved`)")
    prev = body[-2] if len(body) >= 2 else None
    ok_prev = isinstance(prev, ast.Try) and [ast.unparse(s) for s in prev.body] == ["resolved.relative_to(base_path)"] and len(prev.handlers) == 1 and ast.unparse(prev.handlers[0].type) == "ValueError" and isinstance(prev.handlers[0].body[-1], ast.Raise)
    if not ok_prev:
        probs.append("the statement before the return is not `try: resolved.relative_to(base_path) except ValueError: raise ...`")
    src = ast.unparse(fn)
    for text in ("base_path = base_path.resolve()", "candidate = base_path / source_uri", "resolved = candidate.resolve()"):
        if text not in src:
            probs.append(f"`{text}` not found")
    stores = [n for n in ast.walk(fn) if isinstance(n, ast.Name) and isinstance(n.ctx, ast.Store) and n.id in ("resolved", "base_path")]
    if len([s for s in stores if s.id == "resolved"]) != 1 or len([s for s in stores if s.id == "base_path"]) != 1:
        probs.append("`resolved` / `base_path` are assigned more than once")
    if probs:
        from props import C19_b

        failed, text = C19_b.replay_source_uri_probe()
        if not failed:
            return Outcome.undecided("ast-shape", "; ".join(probs[:3]) + f"; probe: {text}")
        return Outcome.refuted("ast-shape", [Witness(what=f"{p} — {text}", key=p[:40], input=p, replay={"runner": "props.C19_b:replay_source_uri_probe", "args": {}}, confirmed=True) for p in probs], count=5)
    return Outcome.ok("ast-shape", count=5)


def ob_staleness_containment(ctx: Ctx) -> Outcome:
    """hydrator._check_single_snapshot (check_staleness, `octave hydrate --check`): the source is hashed / probed for
    existence only after `source_path.relative_to(effective_root)` succeeded - a ValueError returns the ERROR result - with
    source_path = (base_path / source_uri).resolve() and effective_root = (allowed_root or base_path).resolve(); absolute
    URIs are refused first"""
    from props import C19_b
    from verif.common import shape_verdict

    try:
        fn = extract.find_def(HYD, "_check_single_snapshot")
    except ExtractionError as e:
        return Outcome.undecided("ast-shape", str(e))
    probs = []
    src = ast.unparse(fn)
    for text in ("candidate = base_path / source_uri", "source_path = candidate.resolve()", "effective_root = (allowed_root or base_path).resolve()"):
        if text not in src:
            probs.append(f"`{text}` not found")
    body = fn.body
    guard = [i for i, st in enumerate(body) if isinstance(st, ast.Try) and [ast.unparse(x) for x in st.body] == ["source_path.relative_to(effective_root)"] and len(st.handlers) == 1 and ast.unparse(st.handlers[0].type) == "ValueError" and isinstance(st.handlers[0].body[-1], ast.Return) and "'ERROR'" in ast.unparse(st.handlers[0].body[-1]) and not st.orelse and not st.finalbody]
    if len(guard) != 1:
        probs.append("no top-level `try: source_path.relative_to(effective_root) except ValueError: return <ERROR result>`")
    else:
        gi = guard[0]
        for i, st in enumerate(body):
            uses = any(isinstance(c, ast.Call) and (ast.unparse(c.func) in ("compute_vocabulary_hash", "open") or (isinstance(c.func, ast.Attribute) and c.func.attr in ("exists", "read_text", "read_bytes", "open", "stat", "is_file"))) and "source_path" in ast.unparse(c) for c in ast.walk(st))
            if uses and i < gi:
                probs.append(f"L{st.lineno}: the source path is accessed before the containment check")
        stores = [n for n in ast.walk(fn) if isinstance(n, ast.Name) and isinstance(n.ctx, ast.Store) and n.id in ("source_path", "effective_root")]
        if len([x for x in stores if x.id == "source_path"]) != 1 or len([x for x in stores if x.id == "effective_root"]) != 1:
            probs.append("source_path / effective_root are assigned more than once")
    if "source_uri.startswith('/')" not in src:
        probs.append("absolute SOURCE_URI paths are not refused first")
    if probs:
        return shape_verdict("ast-shape", probs, C19_b.replay_staleness_probe, 5, {"runner": "props.C19_b:replay_staleness_probe", "args": {}})
    return Outcome.ok("ast-shape", count=5)


VALIDATORS = [(WRITE, "WriteTool._validate_path", "self.ALLOWED_EXTENSIONS"), (VALIDATE, "ValidateTool._validate_path", "self.ALLOWED_EXTENSIONS"), (FOPS, "validate_octave_path", "ALLOWED_EXTENSIONS")]


def validator_structure(module: str, qualname: str, allowed: str) -> tuple[list[str], list[str], list[str]]:
    """(facts, problems, known deviations) of one path validator"""
    fn = extract.find_def(module, qualname)
    src = ast.unparse(fn)
    facts, probs, known = [], [], []
    # (a) '..' component refusal
    if "if any((part == '..' for part in path.parts)):\n" not in src:
        probs.append("no `if any(part == '..' for part in path.parts): return False, ...`")
    else:
        facts.append("a '..' component is refused")
    # (b) symlink walk
    walk = None
    for n in ast.walk(fn):
        if isinstance(n, ast.For) and ast.unparse(n.iter) == "absolute.parts[1:]" and ast.unparse(n.target) == "part":
            walk = n
    if walk is None:
        probs.append("no per-component walk `for part in absolute.parts[1:]`")
    else:
        b = list(walk.body)
        # guard-clause spelling: `if not current.is_symlink(): continue` followed by the handling statements
        if len(b) >= 3 and isinstance(b[1], ast.If) and ast.unparse(b[1].test) == "not current.is_symlink()" and [ast.unparse(x) for x in b[1].body] == ["continue"] and not b[1].orelse:
            b = [b[0], ast.If(test=ast.parse("current.is_symlink()", mode="eval").body, body=b[2:], orelse=[])]
        if not (len(b) == 2 and ast.unparse(b[0]) == "current = current / part" and isinstance(b[1], ast.If)):
            probs.append("the walk body is not `current = current / part; if <symlink test>: ...`")
        else:
            test = ast.unparse(b[1].test)
            if test == "current.is_symlink()":
                facts.append("every component is tested with lstat (is_symlink), dangling links included")
            elif test == "current.exists() and current.is_symlink()":
                probs.append("the symlink test is `exists() and is_symlink()`: a dangling link passes")
            else:
                probs.append(f"the symlink test is `{test}`")
            inner = b[1].body
            last = inner[-1]
            if not (isinstance(last, ast.Return) and ast.unparse(last.value).startswith("(False,")):
                probs.append("a detected symlink does not end in `return False, ...`")
            exempt = [s for s in inner if isinstance(s, ast.If) and isinstance(s.body[-1], ast.Continue)]
            if exempt:
                t = ast.unparse(exempt[0].test)
                if t == "symlink_depth <= 2 and str(resolved_target).startswith('/private/')":
                    known.append("private-exemption")
                else:
                    probs.append(f"a symlink is let through under `{t}`")
            if any(isinstance(s, (ast.Break,)) for s in ast.walk(b[1])):
                probs.append("the walk can stop early (break)")
        # the walk is entered whenever absolute != resolved
        guard = None
        for n in ast.walk(fn):
            if isinstance(n, ast.If) and ast.unparse(n.test) == "absolute != resolved" and walk in list(ast.walk(n)):
                guard = n
        if guard is None:
            probs.append("the walk is not guarded by `absolute != resolved` (or guarded by something else)")
        if "absolute = path.absolute()" not in src or "resolved = absolute.resolve(strict=False)" not in src:
            probs.append("absolute / resolved are not path.absolute() / absolute.resolve(strict=False)")
    # (d) the path that is CHECKED is the string that will be OPENED: `path` is bound exactly once, as Path(<the parameter>) -
    # no expanduser / expandvars / normpath / helper in between (a validator that checks a rewritten path checks another file)
    params = [a.arg for a in fn.args.args if a.arg != "self"]
    binds = [n for n in ast.walk(fn) if isinstance(n, (ast.Assign, ast.AnnAssign, ast.AugAssign, ast.NamedExpr)) and any(isinstance(t, ast.Name) and t.id == "path" for t in ast.walk(n.targets[0] if isinstance(n, ast.Assign) else n.target))]
    if len(binds) != 1 or not params or ast.unparse(binds[0].value) != f"Path({params[0]})":
        probs.append("`path` is not bound exactly once as Path(<the path parameter>): " + "; ".join(ast.unparse(b)[:60] for b in binds[:2]))
    elif any(isinstance(n, ast.Name) and n.id == params[0] and isinstance(n.ctx, ast.Store) for n in ast.walk(fn)):
        probs.append("the path parameter is re-bound inside the validator")
    else:
        facts.append("the checked Path is built directly from the parameter, once")
    # (c) extension allow-list: both suffix tests must fail before refusal, final return True only after them
    if f"if path.suffix not in {allowed}:" not in src or f"if compound_suffix not in {allowed}:" not in src:
        probs.append("extension allow-list test not found")
    else:
        facts.append("suffix (or two-part suffix) must be in the allow-list")
    body = [b for b in fn.body if not (isinstance(b, ast.Expr) and isinstance(b.value, ast.Constant))]
    if ast.unparse(body[-1]) != "return (True, None)":
        probs.append("the validator does not end with `return True, None`")
    trues = [n for n in ast.walk(fn) if isinstance(n, ast.Return) and ast.unparse(n.value).startswith("(True")]
    if len(trues) != 1:
        probs.append(f"{len(trues)} accepting returns")
    # exceptions during resolution refuse
    hs = [h for n in ast.walk(fn) if isinstance(n, ast.Try) for h in n.handlers]
    if not hs or not all(isinstance(h.body[-1], ast.Return) and ast.unparse(h.body[-1].value).startswith("(False") for h in hs):
        probs.append("an exception during path analysis does not refuse the path")
    else:
        facts.append("any exception during analysis (NUL, too long, loops) refuses the path")
    return facts, probs, known


def ob_validators(ctx: Ctx) -> Outcome:
    from props import C19_b

    wits, facts_all, n = [], [], 0
    for module, qual, allowed in VALIDATORS:
        try:
            facts, probs, known = validator_structure(module, qual, allowed)
        except ExtractionError as e:
            return Outcome.undecided("ast-shape", str(e))
        n += len(facts) + len(probs) + len(known)
        facts_all += [f"{qual}: {f}" for f in facts]
        for k in known:
            failed, text = C19_b.replay_private_exemption(qual)
            wits.append(Witness(what=f"{qual}: a symlink at depth <= 2 whose target lies under /private/ is let through (macOS system-link exemption, not tied to the platform); {text}", key="private-exemption", input=qual, replay={"runner": "props.C19_b:replay_private_exemption", "args": {"which": qual}}, confirmed=failed))
        if probs:
            failed, text = C19_b.replay_validator_probe(qual)
            for p in probs:
                wits.append(Witness(what=f"{qual}: {p} — {text}", key=f"{qual}:{p[:40]}", input=p, replay={"runner": "props.C19_b:replay_validator_probe", "args": {"which": qual}}, confirmed=failed))
    # refusal precedes any content access in the tools: E_PATH return right after the validator call, before the first read/mutation
    for module, qual in ((WRITE, "WriteTool.execute"), (VALIDATE, "ValidateTool.execute")):
        try:
            fn = extract.find_def(module, qual)
        except ExtractionError as e:
            return Outcome.undecided("ast-shape", str(e))
        calls = [c for c in ast.walk(fn) if isinstance(c, ast.Call) and ast.unparse(c.func) == "self._validate_path"]
        opens = [c.lineno for c in ast.walk(fn) if isinstance(c, ast.Call) and ast.unparse(c.func) in ("open", "tempfile.mkstemp", "os.replace") or (isinstance(c, ast.Call) and ast.unparse(c.func).endswith((".read_text", ".mkdir", ".exists")))]
        n += 1
        if not calls:
            wits.append(Witness(what=f"{qual}: _validate_path is not called", key=f"{qual}:nocall", input=""))
            continue
        first_call = min(c.lineno for c in calls)
        early = [ln for ln in opens if ln < first_call]
        if early:
            wits.append(Witness(what=f"{qual}: file access on L{early[0]} precedes the path validation on L{first_call}", key=f"{qual}:early-access", input=str(early)))
        # the statement following the call is `if not path_valid: return error`
        ok = False
        for node in ast.walk(fn):
            for field in ("body", "orelse"):
                blk = getattr(node, field, None)
                if isinstance(blk, list):
                    for i, st in enumerate(blk):
                        if any(c in list(ast.walk(st)) for c in calls) and i + 1 < len(blk):
                            nxt = blk[i + 1]
                            if isinstance(nxt, ast.If) and ast.unparse(nxt.test).startswith("not ") and isinstance(nxt.body[-1], ast.Return):
                                ok = True
        if not ok:
            wits.append(Witness(what=f"{qual}: the validator's verdict is not followed by `if not <valid>: return <error>`", key=f"{qual}:verdict", input=""))
    if not wits:
        return Outcome.ok("ast-shape", count=n, facts=facts_all)
    real = [w for w in wits if w.key != "private-exemption"]
    if real and not any(w.confirmed for w in real):
        return Outcome.undecided("ast-shape", "validator structure not recognised: " + "; ".join(w.what[:100] for w in real[:3]))
    return Outcome.refuted("ast-shape", wits, count=n)


CLI = "octave_mcp.cli.main"
CLICK_PATH_NEUTRAL = {"exists", "dir_okay", "file_okay", "readable", "writable", "allow_dash"}


def ob_cli_write_routes(ctx: Ctx) -> Outcome:
    """C19.F6 — `given to the CLI as a file to write`. For every command function of cli/main.py that calls
    atomic_write_octave(X, ...):
      (a) X is a parameter of the command and is never re-bound in it (the string that is validated and written is the
          string the user typed);
      (b) the click declaration bound to X is click.Path(...) with path-neutral keywords only (no resolve_path=True,
          no path_type / callback / custom type that could canonicalise the path before the validator sees it);
      (c) the call is dominated (earlier statement of its own or an enclosing block) by `<ok>, <err> = validate_octave_path(X)` immediately followed by
          `if not <ok>: ... raise SystemExit(1)`;
      (d) the module has no other way of writing (open(.., 'w'/'a'/'x'), write_text, write_bytes, os.replace, shutil).
    A shape this contract does not recognise is decided by the concrete CLI probe (probe fails => violation;
    passes => undecided)."""
    from props import C19_b
    from verif.common import shape_verdict

    try:
        tree = extract.module_ast(CLI)
    except (ExtractionError, AttributeError) as e:
        return Outcome.undecided("ast-shape", str(e))
    problems: list[str] = []
    n = 0
    routes = []
    for fn in [x for x in ast.walk(tree) if isinstance(x, ast.FunctionDef)]:
        sinks = [c for c in ast.walk(fn) if isinstance(c, ast.Call) and ast.unparse(c.func).split(".")[-1] == "atomic_write_octave"]
        for c in ast.walk(fn):
            if isinstance(c, ast.Call):
                f = ast.unparse(c.func)
                mode = ast.unparse(c.args[1]) if f == "open" and len(c.args) > 1 else next((ast.unparse(k.value) for k in c.keywords if k.arg == "mode"), "") if f == "open" else ""
                if (f == "open" and any(m in mode for m in "wax+")) or f.split(".")[-1] in ("write_text", "write_bytes", "replace", "rename", "mkstemp", "copy", "copyfile", "move", "unlink", "mkdir", "makedirs") and not f.startswith(("str", "text", "s.")) and f.split(".")[0] in ("os", "shutil", "tempfile", "Path", "pathlib") :
                    problems.append(f"{fn.name} L{c.lineno}: writes through `{f}(...)`, not through atomic_write_octave")
        if not sinks:
            continue
        params = {a.arg for a in fn.args.args + fn.args.kwonlyargs}
        for c in sinks:
            n += 1
            if not c.args or not isinstance(c.args[0], ast.Name) or c.args[0].id not in params:
                problems.append(f"{fn.name} L{c.lineno}: atomic_write_octave is called with `{ast.unparse(c.args[0]) if c.args else ''}`, not with a command parameter")
                continue
            x = c.args[0].id
            routes.append(f"{fn.name}({x})")
            rebinds = [t for t in ast.walk(fn) if isinstance(t, ast.Name) and t.id == x and isinstance(t.ctx, ast.Store)]
            if rebinds:
                problems.append(f"{fn.name}: the path parameter `{x}` is re-bound on L{rebinds[0].lineno} before it is validated / written")
            # (b) click declaration
            decl = None
            for d in fn.decorator_list:
                if isinstance(d, ast.Call) and ast.unparse(d.func) in ("click.option", "click.argument"):
                    names = [a.value for a in d.args if isinstance(a, ast.Constant) and isinstance(a.value, str)]
                    bound = [nm for nm in names if not nm.startswith("-")] or [nm.lstrip("-").replace("-", "_") for nm in names if nm.startswith("--")]
                    if x in bound:
                        decl = d
            if decl is None:
                problems.append(f"{fn.name}: no click.option / click.argument declaration found for `{x}`")
            else:
                for k in decl.keywords:
                    if k.arg == "type":
                        if not (isinstance(k.value, ast.Call) and ast.unparse(k.value.func) == "click.Path"):
                            problems.append(f"{fn.name}: `{x}` is declared with type `{ast.unparse(k.value)[:60]}` (expected click.Path(...))")
                        else:
                            for kk in k.value.keywords:
                                if kk.arg not in CLICK_PATH_NEUTRAL:
                                    problems.append(f"{fn.name}: `{x}` is declared click.Path({kk.arg}={ast.unparse(kk.value)}): click rewrites the path before validate_octave_path sees it")
                            if k.value.args:
                                problems.append(f"{fn.name}: `{x}` is declared click.Path with positional arguments {ast.unparse(k.value)[:60]}")
                    elif k.arg in ("callback", "envvar", "default", "flag_value", "is_eager"):
                        problems.append(f"{fn.name}: the declaration of `{x}` has {k.arg}=... (the path may not be the user's string)")
            # (c) validation immediately before, same block
            ok = False
            for node in ast.walk(fn):
                for field in ("body", "orelse", "finalbody"):
                    blk = getattr(node, field, None)
                    if not isinstance(blk, list):
                        continue
                    idx = next((i for i, st in enumerate(blk) if any(cc is c for cc in ast.walk(st))), None)
                    if idx is None:
                        continue  # (statements of an enclosing block that precede the one holding the sink dominate it)
                    for i in range(idx):
                        st = blk[i]
                        if isinstance(st, ast.Assign) and isinstance(st.value, ast.Call) and ast.unparse(st.value.func).split(".")[-1] == "validate_octave_path" and [ast.unparse(a) for a in st.value.args] == [x] and not st.value.keywords and isinstance(st.targets[0], ast.Tuple) and i + 1 < len(blk):
                            okname = ast.unparse(st.targets[0].elts[0])
                            nxt = blk[i + 1]
                            if isinstance(nxt, ast.If) and ast.unparse(nxt.test) == f"not {okname}" and isinstance(nxt.body[-1], ast.Raise) and ast.unparse(nxt.body[-1].exc).startswith(("SystemExit(1", "click.", "SystemExit(2")) and not nxt.orelse:
                                between = blk[i + 2 : idx]
                                if not any(isinstance(t, ast.Name) and t.id in (x, okname) and isinstance(t.ctx, ast.Store) for b in between for t in ast.walk(b)):
                                    ok = True
            if not ok:
                problems.append(f"{fn.name} L{c.lineno}: atomic_write_octave({x}, ...) is not dominated by `ok, err = validate_octave_path({x})` + `if not ok: ... raise SystemExit(1)`")
    if n == 0:
        problems.append("no atomic_write_octave call found in cli/main.py")
    if problems:
        return shape_verdict("ast-shape", problems, C19_b.replay_cli_probe, count=max(n, 1), replay={"runner": "props.C19_b:replay_cli_probe", "args": {}})
    return Outcome.ok("ast-shape", count=n * 4, routes=routes)


def obligations(ctx: Ctx):
    P = PROPERTY
    obs = [
        Ob(f"{P}.R1", "R", "accepted schema names contain no path character; the name is checked before any file access and joined as <dir>/<name>.oct.md", [f"{LOADER}:load_schema_by_name"], ob_schema_names),
        Ob(f"{P}.R2", "R", "a frozen reference is 'frozen@sha256:' + 64 hex digits; cache file from the digest alone; returned only when the streamed hash equals it", [f"{HYD}:resolve_hermetic_standard"], ob_frozen),
        Ob(f"{P}.F1", "F", "the three path validators: '..' refusal, per-component lstat walk refusing every symlink, extension allow-list, exceptions refuse; tools return E_PATH before any access", FUNCS[:3], ob_validators),
        Ob(f"{P}.F2", "F", "the tools pass the schema argument only to the name-based loaders", [f"{WRITE}:WriteTool.execute", f"{VALIDATE}:ValidateTool.execute"], ob_schema_routes),
        Ob(f"{P}.F6", "F", "CLI write routes (write FILE, normalize/seal/hydrate -o): the user's own path string — click.Path with path-neutral options only, never re-bound — is validated by validate_octave_path with a refusing exit right before atomic_write_octave; the module has no other writer", [f"{CLI}:write", f"{CLI}:normalize", f"{CLI}:seal", f"{CLI}:hydrate"], ob_cli_write_routes),
        Ob(f"{P}.F5", "F", "staleness check: the vocabulary source is touched only after resolved.relative_to(resolved allowed root) succeeded", [f"{HYD}:_check_single_snapshot"], ob_staleness_containment),
        Ob(f"{P}.F4", "F", "validate_source_uri returns only a path for which resolved.relative_to(resolved base) succeeded", [f"{HYD}:validate_source_uri"], ob_source_uri),
    ]
    try:
        from props import C19_b

        obs.append(Ob(f"{P}.B1", "B", "path strings over generated trees with secrets outside the sandbox: octave_write, octave_validate, atomic_write_octave; audit of every path opened", FUNCS[:3], C19_b.ob_paths, timeout=6000))
        obs.append(Ob(f"{P}.B3", "B", "the CLI as a writer: write FILE, normalize -o, seal -o, hydrate -o with bad output paths exit non-zero and leave the tree unchanged", [f"{CLI}:write", f"{CLI}:normalize", f"{CLI}:seal", f"{CLI}:hydrate"], C19_b.ob_cli, timeout=1200))
        obs.append(Ob(f"{P}.B2", "B", "schema-name strings up to length 6, frozen digests, source URIs", FUNCS[3:], C19_b.ob_names, timeout=6000))
    except ImportError:
        pass
    return obs
