"""C04.B1 — bounded stand-in: exhaustive short strings through the real emit + strict parse."""
from __future__ import annotations

import itertools
import random

from verif.bounded.roundtrip import POSITIONS, roundtrip
from verif.bounded.sweep import sweep
from verif.common import Ctx, Outcome, Witness

# one representative per lexer-significant class + the multi-character atoms of the property text
SINGLE = list("aZt9_.-/ \t\n\r\"\\:[],<>{}$#§→⊕⧺⇌∧∨@+~|&%=`;()e") + ["\x01", "̃", "é", "é", "\U0001F600", " "]
ATOMS = ["true", "false", "null", "vs", "//", "::", "->", "<->", "===", "---", "1", "0", "-1", "1.5", "1e5", "A<x>", "$V", "§1"]
ALPHABET = SINGLE + ATOMS
KEYS = ("K", "PATTERN", "REGEX")


def _one(item):
    value, position, key = item
    failed, text = roundtrip(value, position, key)
    nontrivial = True
    sig = (value, position, key)
    return failed, text, nontrivial, sig


def strings(maxlen: int):
    for L in range(0, maxlen + 1):
        for tup in itertools.product(ALPHABET, repeat=L):
            yield "".join(tup)


NUMBERS = [0, 1, -1, 7, 10, 42, -42, 2**31, -(2**31), 2**63, 2**64 + 1, 10**30, -(10**30), 10**100,
           0.0, -0.0, 1.0, -1.0, 0.5, 1.5, -1.5, 3.14, 1e5, 1e15, 1e16, 1e22, 1.5e300, 1e-5, 1e-7, 5e-324, 1.7976931348623157e308,
           -1.7976931348623157e308, 2.2250738585072014e-308, 0.1, 1 / 3, 123456789.125, 1e100, -1e-100]


def items(ctx: Ctx):
    seen = set()
    maxlen = 3 if not ctx.thorough else 3
    for s in strings(2):
        if s in seen:
            continue
        seen.add(s)
        for p in POSITIONS:
            for k in KEYS if p in ("assign", "map", "block") else ("K",):
                yield (s, p, k)
    # length 3: all positions in thorough; assign + list in quick, key K plus PATTERN on assign
    for tup in itertools.product(ALPHABET, repeat=3):
        s = "".join(tup)
        if s in seen:
            continue
        seen.add(s)
        if ctx.thorough:
            for p in POSITIONS:
                yield (s, p, "K")
            yield (s, "assign", "PATTERN")
        else:
            yield (s, "assign", "K")
            yield (s, "list", "K")
    if ctx.thorough:
        rnd = random.Random(ctx.seed)
        # length 4 sampled
        for _ in range(400000):
            s = "".join(rnd.choice(ALPHABET) for _ in range(4))
            if s not in seen:
                seen.add(s)
                yield (s, rnd.choice(POSITIONS), "K")
    for v in [True, False, None] + NUMBERS:
        for p in POSITIONS:
            yield (v, p, "K")
    rnd = random.Random(ctx.seed + 1)
    pool = ALPHABET + list("abcXYZ0123456789") + ["中", "Ж", "\U00010400"]
    for _ in range(20000 if ctx.thorough else 3000):
        n = rnd.randint(1, 60)
        s = "".join(rnd.choice(pool) for _ in range(n))
        yield (s, rnd.choice(POSITIONS), rnd.choice(KEYS))
    for _ in range(2000 if ctx.thorough else 300):
        yield (rnd.randint(-(10**40), 10**40), rnd.choice(POSITIONS), "K")
        f = rnd.choice([rnd.uniform(-1e6, 1e6), rnd.uniform(-1, 1) * 10 ** rnd.randint(-300, 300), float(rnd.randint(-10**17, 10**17))])
        yield (f, rnd.choice(POSITIONS), "K")


def replay_b1(value, position, key):
    return roundtrip(value, position, key)


def ob_b1(ctx: Ctx) -> Outcome:
    res = sweep(_one, items(ctx), ctx.cores, chunk=3000)
    wits = []
    for (value, position, key), text in res["failures"][:3000]:
        wits.append(
            Witness(
                what=text,
                input={"value": value, "position": position, "key": key},
                key=value if isinstance(value, str) else repr(value),
                replay={"runner": "props.C04_b:replay_b1", "args": {"value": value, "position": position, "key": key}},
                confirmed=True,
            )
        )
    extra = dict(
        bound=f"all strings of length <= {3} over a {len(ALPHABET)}-symbol alphabet (one representative per lexer-significant class + atoms true false null vs // :: -> <-> === ...) x positions {POSITIONS} x keys {KEYS} (length 3: assign+list only in quick); random strings <= 60; ints/floats incl. boundaries; seed {ctx.seed}",
        evaluations=res["evaluations"],
        distinct_nontrivial=res["distinct"],
        rule="a case is (value, position, key); every case runs the real emit + strict parse; distinct by the triple; all are non-trivial (the value reaches the emitter's scalar branch)",
        samples=[{"value": "a b", "position": "assign", "key": "K"}, {"value": "//", "position": "list", "key": "K"}, {"value": 1e22, "position": "meta", "key": "K"}],
    )
    if wits:
        return Outcome.refuted("real emit+parse", wits, detail=f"{len(res['failures'])} failing cases", **extra)
    return Outcome.ok("real emit+parse", **extra)


ob_b1.wants_all_cores = True
