"""C08.B — bounded stand-in: chains through the REAL ConstraintChain.parse(text).evaluate(value) and
schema documents through the REAL parser + schema extractor + Validator, against an INDEPENDENT
reference evaluator written from the property text (None = the text is silent: either verdict)."""
from __future__ import annotations

import itertools
import math
import random
import re
from datetime import date

from verif.bounded.sweep import sweep
from verif.common import Ctx, Outcome, Witness

MEMBERS = [
    ("REQ", ("REQ",)), ("OPT", ("OPT",)),
    ("CONST[ACTIVE]", ("CONST", "ACTIVE")), ("CONST[5]", ("CONST", 5)), ("CONST[true]", ("CONST", True)), ('CONST["a b"]', ("CONST", "a b")),
    ("ENUM[A,B]", ("ENUM", ["A", "B"])), ("ENUM[ACTIVE,ACTIVATING,DONE]", ("ENUM", ["ACTIVE", "ACTIVATING", "DONE"])), ("ENUM[5,6]", ("ENUM", ["5", "6"])), ("ENUM[INF,WARN,ERR]", ("ENUM", ["INF", "WARN", "ERR"])), ("ENUM[nan,inf,x]", ("ENUM", ["nan", "inf", "x"])), ("CONST[NAN]", ("CONST", "NAN")), ("CONST[Infinity]", ("CONST", "Infinity")),
    ("TYPE[STRING]", ("TYPE", "STRING")), ("TYPE[NUMBER]", ("TYPE", "NUMBER")), ("TYPE[BOOLEAN]", ("TYPE", "BOOLEAN")), ("TYPE[LIST]", ("TYPE", "LIST")),
    ('REGEX["^[a-z]+$"]', ("REGEX", "^[a-z]+$")), ('REGEX["^[A-Z]{2,6}$"]', ("REGEX", "^[A-Z]{2,6}$")),
    ("RANGE[1,10]", ("RANGE", 1, 10)), ("RANGE[0.5,2.5]", ("RANGE", 0.5, 2.5)), ("RANGE[-5,5]", ("RANGE", -5, 5)), ("RANGE[0,9007199254740992]", ("RANGE", 0, 2**53)),
    ("MAX_LENGTH[3]", ("MAXLEN", 3)), ("MIN_LENGTH[2]", ("MINLEN", 2)), ("MAX_LENGTH[0]", ("MAXLEN", 0)),
    ("DATE", ("DATE",)), ("ISO8601", ("ISO",)), ("DIR", ("DIR",)), ("APPEND_ONLY", ("APPEND",)),
]


def values():
    from octave_mcp.core.ast_nodes import LiteralZoneValue

    return [
        None, "", "A", "B", "C", "INF", "IN", "NAN", "nan", "inf", "Infinity", "WARN", "ACT", "ACTIV", "ACTIVE", "ACTIVATING", "active", "x", "abc", "abcd", "ab", "AB", "a b", "5", "6", "50", "nan", "inf", "1e3", " 5 ", "2.5", "0x10",
        0, 1, 5, 10, 11, -5, -6, 2**53, 2**53 + 1, 10**400, -(10**400), 2.5, 0.5, 0.49, 2.51, 1e3, float("nan"), float("inf"), True, False,
        [], ["a"], ["a", "b"], ["a", "b", "c"], ["a", "b", "c", "d"], {"k": 1},
        "2024-01-15", "2024-02-29", "2023-02-29", "2024-02-30", "2024-13-01", "2024-00-10", "0000-01-01", "2024-1-5", "20240115", "2024-01-15T10:00:00Z", "2024-01-15T10:00:00+02:00",
        "2024-01-15T25:00:00", "2024-01-15\n", "x\x00y", "/tmp/dir", LiteralZoneValue(content="raw"),
        # literal zones whose CONTENT would satisfy a string-shaped member: a zone is an opaque block, not that string
        LiteralZoneValue(content="2024-01-15"), LiteralZoneValue(content="ACT"), LiteralZoneValue(content="ACTIVE"), LiteralZoneValue(content="abc"), LiteralZoneValue(content="AB"), LiteralZoneValue(content="2024-01-15T10:00:00Z"), LiteralZoneValue(content="5"), LiteralZoneValue(content=""),
    ]


def _is_num(v):
    return isinstance(v, (int, float)) and not isinstance(v, bool)


def ref_member(m: tuple, v) -> bool | None:
    """True accept / False reject / None free, from the property text."""
    k = m[0]
    if type(v).__name__ == "LiteralZoneValue" and k in ("ENUM", "REGEX", "DATE", "ISO", "CONST", "RANGE"):
        return False  # the documented meanings are about strings / numbers: a fenced block is neither, whatever it contains
    scalar = isinstance(v, (str, int, float, bool)) or v is None
    if k == "REQ":
        if v is None or v == "":
            return False
        if isinstance(v, str) or _is_num(v) or isinstance(v, bool) or (isinstance(v, list) and v):
            return True
        return None
    if k == "OPT":
        return True
    if k == "CONST":
        if not scalar:
            return False if isinstance(v, (list, dict)) else None
        if isinstance(v, float) and math.isnan(v):
            return False
        if isinstance(v, bool) != isinstance(m[1], bool):
            return None  # CONST[1] against true: silent
        return v == m[1]
    if k == "ENUM":
        if not isinstance(v, str):
            return None
        allowed = m[1]
        if v in allowed:
            return True
        n = sum(1 for a in allowed if a.startswith(v))
        return n == 1
    if k == "TYPE":
        t = m[1]
        if t == "STRING":
            return isinstance(v, str)
        if t == "NUMBER":
            return _is_num(v)
        if t == "BOOLEAN":
            return isinstance(v, bool)
        if t == "LIST":
            return isinstance(v, list)
    if k == "REGEX":
        if not isinstance(v, str):
            return None
        if v.endswith("\n"):
            return None  # `$` before a trailing newline: the text says "anchored at both ends", silent on this
        return re.fullmatch(m[1].lstrip("^").rstrip("$"), v) is not None
    if k == "RANGE":
        lo, hi = m[1], m[2]
        if isinstance(v, bool):
            return None
        if _is_num(v):
            return (not (isinstance(v, float) and math.isnan(v))) and lo <= v <= hi
        if isinstance(v, str):
            try:
                x = float(v)
            except ValueError:
                return False
            if math.isnan(x) or not (lo <= x <= hi):
                return False
            return None  # numeric text inside the bounds: accepted or not, both allowed by the text
        return False
    if k in ("MAXLEN", "MINLEN"):
        if isinstance(v, (str, list)):
            return len(v) <= m[1] if k == "MAXLEN" else len(v) >= m[1]
        return False
    if k == "DATE":
        if not isinstance(v, str):
            return False if v is None or isinstance(v, (list, dict, bool)) else None
        mm = re.fullmatch(r"(\d{4})-(\d{2})-(\d{2})", v)
        if not mm or not v.isascii():
            return False
        y, mo, d = int(mm.group(1)), int(mm.group(2)), int(mm.group(3))
        if y == 0:
            return None
        try:
            date(y, mo, d)
            return True
        except ValueError:
            return False
    if k == "ISO":
        if not isinstance(v, str):
            return False if v is None or isinstance(v, (list, dict, bool)) else None
        mm = re.fullmatch(r"(\d{4})-(\d{2})-(\d{2})(?:T(\d{2}):(\d{2}):(\d{2})(Z|[+-]\d{2}:\d{2})?)?", v)
        if not mm or not v.isascii():
            return None if re.match(r"\d{4}-?\d{2}", v) else False
        try:
            date(int(mm.group(1)), int(mm.group(2)), int(mm.group(3)))
        except ValueError:
            return False
        if mm.group(4) is not None and not (int(mm.group(4)) < 24 and int(mm.group(5)) < 60 and int(mm.group(6)) < 60):
            return False
        return True if int(mm.group(1)) > 0 else None
    if k in ("DIR", "APPEND"):
        return None
    return None


def ref_conflict(ms: list[tuple]) -> bool:
    kinds = [m[0] for m in ms]
    if "REQ" in kinds and "OPT" in kinds:
        return True
    consts = [m[1] for m in ms if m[0] == "CONST"]
    for a, b in itertools.combinations(consts, 2):
        if a != b or isinstance(a, bool) != isinstance(b, bool):
            if a != b:
                return True
    for e in [m for m in ms if m[0] == "ENUM"]:
        for c in consts:
            s = {True: "true", False: "false"}.get(c, str(c)) if isinstance(c, bool) else str(c)
            if str(c) not in e[1]:
                return True
    return False


def ref_chain(ms: list[tuple], v) -> bool | None:
    if ref_conflict(ms):
        return False
    verdicts = [ref_member(m, v) for m in ms]
    if any(x is False for x in verdicts):
        return False
    if all(x is True for x in verdicts):
        return True
    return None


_VALUES = None


def _one_chain(item):
    global _VALUES
    from octave_mcp.core.constraints import ConstraintChain

    if _VALUES is None:
        _VALUES = values()
    idxs = item
    texts = [MEMBERS[i][0] for i in idxs]
    specs = [MEMBERS[i][1] for i in idxs]
    text = "∧".join(texts)
    try:
        chain = ConstraintChain.parse(text)
    except Exception as e:  # noqa: BLE001
        return True, f"chain text {text!r} does not parse: {type(e).__name__}: {e}", True, ("parse", text)
    fails = []
    n_decided = 0
    for vi, v in enumerate(_VALUES):
        want = ref_chain(specs, v)
        try:
            got = chain.evaluate(v, "F").valid
        except Exception as e:  # noqa: BLE001
            fails.append(f"{text} on {v!r}: evaluate raised {type(e).__name__}: {e}")
            continue
        if want is not None:
            n_decided += 1
            if got != want:
                fails.append(f"chain {text} on value {v!r}: real verdict valid={got}, property text says {'accept' if want else 'reject'}")
    # order invariance on the reversed chain (permutations are covered by enumerating all index tuples)
    if fails:
        return True, fails[0] + (f" (+{len(fails) - 1} more values)" if len(fails) > 1 else ""), True, ("chain", text)
    return False, "", n_decided > 0, ("chain", text)


def chain_items(ctx: Ctx):
    n = len(MEMBERS)
    for i in range(n):
        yield (i,)
    for t in itertools.product(range(n), repeat=2):
        yield t
    if ctx.thorough:
        for t in itertools.product(range(n), repeat=3):
            yield t
        rnd = random.Random(ctx.seed)
        for _ in range(20000):
            yield tuple(rnd.randrange(n) for _ in range(4))
    else:
        rnd = random.Random(ctx.seed)
        for _ in range(3000):
            yield tuple(rnd.randrange(n) for _ in range(3))
        for _ in range(500):
            yield tuple(rnd.randrange(n) for _ in range(4))


def replay_chain(text: str, value_index: int | None = None):
    from octave_mcp.core.constraints import ConstraintChain

    idxs = []
    for part in text.split("∧"):
        idxs.append([m[0] for m in MEMBERS].index(part))
    failed, msg, _, _ = _one_chain(tuple(idxs))
    return failed, msg or f"chain {text} agrees with the reference on all values"


def ob_chains(ctx: Ctx) -> Outcome:
    res = sweep(_one_chain, chain_items(ctx), ctx.cores, chunk=200)
    wits = []
    for item, text in res["failures"][:200]:
        ct = "∧".join(MEMBERS[i][0] for i in item)
        wits.append(Witness(what=text, input={"chain": ct}, key=ct, replay={"runner": "props.C08_b:replay_chain", "args": {"text": ct}}, confirmed=True))
    nvals = len(values())
    extra = dict(
        bound=f"all chains of <= 2 members (quick; <= 3 thorough, plus sampled 3/4-member chains, seed {ctx.seed}) from {len(MEMBERS)} member texts over the thirteen kinds x {nvals} values of every kind incl. boundaries; every member order is a separate chain",
        evaluations=res["evaluations"] * nvals,
        distinct_nontrivial=res["distinct"],
        rule="a case is a chain text (all its values evaluated through the real ConstraintChain.parse(text).evaluate); distinct by text; non-trivial: at least one value on which the property text decides the verdict",
        samples=["REQ∧ENUM[A,B]", "RANGE[1,10]∧TYPE[NUMBER]", "CONST[5]∧CONST[ACTIVE]"],
    )
    if wits:
        return Outcome.refuted("real parse+evaluate vs reference", wits, **extra)
    return Outcome.ok("real parse+evaluate vs reference", **extra)


ob_chains.wants_all_cores = True

# ---- document level ------------------------------------------------------------------------------------------------

DOC_FIELDS = [
    ("NAME", '["n"∧REQ]', [("NAME::alpha", True), ('NAME::""', False), ("NAME::null", False), (None, False)]),
    ("STATUS", '["ACTIVE"∧REQ∧ENUM[DRAFT,ACTIVE,DEPRECATED]]', [("STATUS::ACTIVE", True), ("STATUS::DR", True), ("STATUS::D", False), ("STATUS::NOPE", False), ("STATUS::null", False), (None, False)]),
    ("COUNT", '[5∧OPT∧TYPE[NUMBER]∧RANGE[1,10]]', [("COUNT::5", True), ("COUNT::11", False), ('COUNT::"5"', False), ("COUNT::true", False), (None, True)]),
    ("WHEN", '["2024-01-15"∧OPT∧DATE]', [('WHEN::"2024-01-15"', True), ('WHEN::"2024-02-30"', False), (None, True)]),
]


def schema_text(policy: str | None) -> str:
    pol = f"POLICY:\n  VERSION::\"1.0\"\n  UNKNOWN_FIELDS::{policy}\n" if policy else ""
    fields = "".join(f"  {n}::{pat}\n" for n, pat, _ in DOC_FIELDS)
    return f'===SCH===\nMETA:\n  TYPE::PROTOCOL_DEFINITION\n  VERSION::"1.0"\n{pol}FIELDS:\n{fields}===END===\n'


def _one_doc(item):
    from octave_mcp.core.parser import parse
    from octave_mcp.core.schema_extractor import extract_schema_from_document
    from octave_mcp.core.validator import Validator

    policy, choice, extras, dup = item
    sch = extract_schema_from_document(parse(schema_text(policy)))
    lines = []
    expect_errors = set()
    for (name, _, variants), ci in zip(DOC_FIELDS, choice):
        line, ok = variants[ci]
        if line is not None:
            lines.append("  " + line)
        if not ok:
            expect_errors.add(name)
    # an unknown field is written NAME or NAME=value text (default 1): falsy and empty values are fields too
    extra_values = dict((e.split("=", 1) + ["1"])[:2] for e in extras)
    extras = tuple(extra_values)
    for e, val in extra_values.items():
        lines.append(f"  {e}::{val}")
    if dup and lines:
        lines.append(lines[0])
    text = "===INST===\nSCH:\n" + "\n".join(lines) + "\n===END===\n" if lines else "===INST===\nSCH:\n  ZZ_PLACEHOLDER::1\n===END===\n"
    if not lines:
        extras = ("ZZ_PLACEHOLDER",)
    doc = parse(text)
    v = Validator(schema=None)
    errs = v.validate(doc, strict=False, section_schemas={sch.name: sch})
    blocking = [e for e in errs if getattr(e, "severity", "error") != "warning"]
    warns = [e for e in errs if getattr(e, "severity", "error") == "warning"]
    named = {e.field_path.split(".")[-1] for e in blocking}
    problems = []
    for f in expect_errors:
        if f not in named:
            problems.append(f"field {f} is missing/invalid but no error names it (errors: {[(e.code, e.field_path) for e in errs]})")
    for f in named - expect_errors - set(extras):
        problems.append(f"error names field {f} which is present and valid (errors: {[(e.code, e.field_path) for e in blocking]})")
    eff = policy if policy in ("REJECT", "WARN", "IGNORE") else "REJECT"
    for e in extras:
        has_err = e in named
        has_warn = any(w.field_path.split(".")[-1] == e for w in warns)
        if eff == "REJECT" and not has_err:
            problems.append(f"unknown field {e} under REJECT produced no error naming it")
        if eff == "WARN" and (has_err or not has_warn):
            problems.append(f"unknown field {e} under WARN: error={has_err} warning={has_warn} (must be only a warning)")
        if eff == "IGNORE" and (has_err or has_warn):
            problems.append(f"unknown field {e} under IGNORE produced a report")
    if problems:
        return True, f"policy {policy}, instance {text!r}: {problems[0]}", True, (policy, choice, extras, dup)
    return False, "", True, (policy, choice, extras, dup)


def doc_items(ctx: Ctx):
    for policy in ("REJECT", "WARN", "IGNORE", None, "BOGUS"):
        for choice in itertools.product(*[range(len(v)) for _, _, v in DOC_FIELDS]):
            for extras in ((), ("EXTRA",), ("ZEXTRA", "AEXTRA"), ("NULLX=null",), ('EMPTYX=""', "FALSEX=false"), ("ZEROX=0", "LISTX=[]")):
                for dup in (False, True):
                    yield (policy, choice, extras, dup)


def replay_doc(item):
    item = (item[0], tuple(item[1]), tuple(item[2]), item[3])
    failed, text, _, _ = _one_doc(item)
    return failed, text or "document-level verdicts agree with the property text"


def ob_docs(ctx: Ctx) -> Outcome:
    res = sweep(_one_doc, doc_items(ctx), ctx.cores, chunk=100)
    wits = [Witness(what=text, input=list(item), key=f"{item[0]}|{item[2]}|{item[3]}", replay={"runner": "props.C08_b:replay_doc", "args": {"item": list(item)}}, confirmed=True) for item, text in res["failures"][:100]]
    extra = dict(
        bound="schema documents with 4 fields (REQ, REQ∧ENUM, OPT∧TYPE∧RANGE, OPT∧DATE) x UNKNOWN_FIELDS in {REJECT, WARN, IGNORE, absent, invalid} x every combination of per-field instance variants (valid, each invalid way, omitted) x {no, one, two unknown fields} x duplicated first field; through the real parser, schema extractor and Validator",
        evaluations=res["evaluations"],
        distinct_nontrivial=res["distinct"],
        rule="a case is (policy, per-field variant choice, unknown fields, duplicate); distinct by that tuple; all non-trivial (the validator runs on a Block with a matching schema)",
        samples=[["REJECT", [0, 0, 0, 0], ["EXTRA"], False]],
    )
    if wits:
        return Outcome.refuted("real parser+validator vs reference", wits, **extra)
    return Outcome.ok("real parser+validator vs reference", **extra)


ob_docs.wants_all_cores = True
