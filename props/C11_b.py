"""C11.B1 — bounded stand-in: perturbed instances through repair(), octave_validate(fix=true) and
octave_write(lenient=true, schema=...). Oracle from the property text, independent of the code."""
from __future__ import annotations

import asyncio
import copy
import itertools
import math
import os
import random
import re
import shutil
import tempfile
from decimal import Decimal, InvalidOperation

from verif.bounded.sweep import sweep
from verif.common import Ctx, Outcome, Witness

SCHEMA = """===RPR===
META:
  TYPE::PROTOCOL_DEFINITION
  VERSION::"1.0"
POLICY:
  VERSION::"1.0"
  UNKNOWN_FIELDS::IGNORE
FIELDS:
  STATUS::["ACTIVE"∧REQ∧ENUM[DRAFT,ACTIVE,DEPRECATED]]
  MODE::["alpha"∧OPT∧ENUM[alpha,Alpha,BETA]]
  COUNT::[5∧OPT∧TYPE[NUMBER]]
  NAME::["n"∧REQ]
===END===
"""
ENUMS = {"STATUS": ["DRAFT", "ACTIVE", "DEPRECATED"], "MODE": ["alpha", "Alpha", "BETA"]}
NUMBER_FIELDS = {"COUNT"}

STATUS_V = ["ACTIVE", "active", "Active", "aCtIvE", "ACT", "act", "D", "d", "NOPE", '""', "5", "true", None]
MODE_V = ["alpha", "ALPHA", "beta", "Beta", "BETA", "al", None]
COUNT_V = ['"42"', '"9007199254740993"', '"-12345678901234567890"', '"1e22"', '"123456789012345678901.5"', '"4.0"', '"1e3"', '"1E-2"', '"+7"', '"007"', '"1_000"', '"١٢٣"', '"0x10"', '"1e309"', '"1e-400"', '"nan"', '"inf"', '" 42 "', '"abc"', '""', '"-0.0"', '"1e-5"', "5", "true", "[1]", '"-"', None]
NAME_V = ["x", None]


def instance_text(status, mode, count, name, nested, extra, zone):
    lines = []
    for k, v in (("STATUS", status), ("MODE", mode), ("COUNT", count), ("NAME", name)):
        if v is not None:
            lines.append(f"  {k}::{v}")
    if nested:
        lines.append("  INNER:")
        lines.append("    STATUS::active")
        lines.append('    COUNT::"9"')
    if extra:
        lines.append("  EXTRA::keep")
    if zone:
        lines.append("  CODE::")
        lines.append("```")
        lines.append("STATUS::active é\t")
        lines.append("```")
    if not lines:
        lines.append("  EXTRA::keep")
    return "===INST===\nRPR:\n" + "\n".join(lines) + "\n===END===\n"


def structure(doc):
    """keys, nesting, order and non-Assignment content; values replaced by slots"""
    from octave_mcp.core.ast_nodes import Assignment, Block, Section

    def walk(nodes, path):
        out = []
        for i, n in enumerate(nodes):
            if isinstance(n, Assignment):
                out.append(("A", n.key))
            elif isinstance(n, Block):
                out.append(("B", n.key, n.target, walk(n.children, path + (i,))))
            elif isinstance(n, Section):
                out.append(("S", n.section_id, n.key, walk(n.children, path + (i,))))
            else:
                out.append((type(n).__name__, getattr(n, "text", None)))
        return out

    return (doc.name, dict(doc.meta), walk(doc.sections, ()))


def leaves(doc):
    from octave_mcp.core.ast_nodes import Assignment, Block, Section

    out = []

    def walk(nodes, path):
        for i, n in enumerate(nodes):
            if isinstance(n, Assignment):
                out.append((path + (i,), n.key, n.value))
            elif isinstance(n, (Block, Section)):
                walk(n.children, path + (i,))

    walk(doc.sections, ())
    return out


PLAIN_NUMERAL = re.compile(r"[+-]?(?:\d+\.?\d*|\.\d+)(?:[eE][+-]?\d+)?")


def lossless(text: str, number) -> bool | None:
    """True/False when `text` is a plain decimal numeral; None (free) for the other spellings CPython accepts."""
    t = text.strip()
    if not PLAIN_NUMERAL.fullmatch(t) or not t.isascii():
        return None
    if isinstance(number, bool) or not isinstance(number, (int, float)):
        return False
    if isinstance(number, float) and not math.isfinite(number):
        return False
    try:
        d = Decimal(t)
    except InvalidOperation:
        return None
    if number == 0 and d != 0:
        return False  # underflow
    if isinstance(number, int):
        return Decimal(number) == d
    return float(t) == number  # same rounding as CPython's own conversion (A-float)


def check_repair(before_doc, after_doc, log_entries, sch) -> list[str]:
    """log_entries: list of (rule_id, before, after, tier)"""
    from octave_mcp.core.ast_nodes import LiteralZoneValue

    problems = []
    if structure(before_doc) != structure(after_doc):
        problems.append("keys / nesting / order changed")
        return problems
    changes = []
    for (p0, k0, v0), (p1, k1, v1) in zip(leaves(before_doc), leaves(after_doc)):
        same = (type(v0) is type(v1)) and (v0 == v1 or (isinstance(v0, LiteralZoneValue) and v0.content == v1.content))
        if isinstance(v0, LiteralZoneValue) and not (isinstance(v1, LiteralZoneValue) and v0.content == v1.content and v0.info_tag == v1.info_tag and v0.fence_marker == v1.fence_marker):
            problems.append(f"literal zone under {k0} was touched")
        if not same:
            changes.append((k0, v0, v1))
    remaining = list(log_entries)
    for k, v0, v1 in changes:
        if k in ENUMS and isinstance(v0, str) and isinstance(v1, str):
            ci = [a for a in ENUMS[k] if a.lower() == v0.lower()]
            if not (v1 in ENUMS[k] and v1.lower() == v0.lower() and len(ci) == 1 and v0 not in ENUMS[k]):
                problems.append(f"{k}: {v0!r} -> {v1!r} is not a change of letter case to the single case-insensitive ENUM match")
            want = ("ENUM_CASEFOLD", v0, v1, "REPAIR")
        elif k in NUMBER_FIELDS and isinstance(v0, str) and isinstance(v1, (int, float)) and not isinstance(v1, bool):
            ll = lossless(v0, v1)
            if ll is False:
                problems.append(f"{k}: text {v0!r} -> {v1!r} is not a lossless text-to-number conversion")
            want = ("TYPE_COERCION", v0, str(v1), "REPAIR")
        else:
            problems.append(f"{k}: value changed {v0!r} -> {v1!r} (not an ENUM casefold / NUMBER coercion)")
            continue
        if want in remaining:
            remaining.remove(want)
        else:
            problems.append(f"{k}: change {v0!r} -> {v1!r} is not logged exactly (log: {log_entries})")
    for e in remaining:
        problems.append(f"log entry without a corresponding change: {e}")
    return problems


_SCH = None


def _schema():
    global _SCH
    if _SCH is None:
        from octave_mcp.core.parser import parse
        from octave_mcp.core.schema_extractor import extract_schema_from_document

        _SCH = extract_schema_from_document(parse(SCHEMA))
    return _SCH


_TOOLDIR = None


def _tool_cwd():
    """a cwd whose specs/schemas holds the generated schema (project schema directory)"""
    global _TOOLDIR
    if _TOOLDIR is None:
        _TOOLDIR = tempfile.mkdtemp(prefix="vf-c11-")
        os.makedirs(os.path.join(_TOOLDIR, "specs", "schemas"))
        with open(os.path.join(_TOOLDIR, "specs", "schemas", "rpr.oct.md"), "w", encoding="utf-8") as f:
            f.write(SCHEMA)
        os.chdir(_TOOLDIR)
        import atexit

        atexit.register(shutil.rmtree, _TOOLDIR, True)
    return _TOOLDIR


def _one(item):
    from octave_mcp.core.parser import parse
    from octave_mcp.core.repair import repair
    from octave_mcp.core.validator import Validator

    route, fields = item
    text = instance_text(*fields)
    sch = _schema()
    try:
        doc = parse(text)
    except Exception:  # noqa: BLE001
        return None
    before = copy.deepcopy(doc)
    problems: list[str] = []
    if route == "api_off":
        d2, log = repair(doc, [], fix=False, schema=sch)
        if structure(before) != structure(d2) or [(k, repr(v)) for _, k, v in leaves(before)] != [(k, repr(v)) for _, k, v in leaves(d2)] or log.repairs:
            problems.append("fix off changed the document or logged something")
    elif route == "api":
        v = Validator(schema=None)
        errs = v.validate(doc, strict=False, section_schemas={sch.name: sch})
        d2, log = repair(doc, errs, fix=True, schema=sch)
        entries = [(e.rule_id, e.before, e.after, e.tier.value) for e in log.repairs]
        problems += check_repair(before, d2, entries, sch)
        snapshot = copy.deepcopy(d2)
        d3, log2 = repair(d2, [], fix=True, schema=sch)
        if log2.repairs or [(k, repr(v)) for _, k, v in leaves(snapshot)] != [(k, repr(v)) for _, k, v in leaves(d3)]:
            problems.append(f"repairing a repaired document changed something further: {[(e.rule_id, e.before, e.after) for e in log2.repairs]}")
        # new values satisfy the motivating constraint
        for (_, k, v0), (_, k1, v1) in zip(leaves(before), leaves(d2)):
            if repr(v0) != repr(v1) and k in sch.fields and sch.fields[k].pattern and sch.fields[k].pattern.constraints:
                for c in sch.fields[k].pattern.constraints.constraints:
                    if type(c).__name__ in ("EnumConstraint", "TypeConstraint") and not c.evaluate(v1, k).valid:
                        problems.append(f"{k}: repaired value {v1!r} does not satisfy {c.to_string()}")
    elif route in ("validate", "write"):
        _tool_cwd()
        from octave_mcp.mcp.validate import ValidateTool
        from octave_mcp.mcp.write import WriteTool

        if route == "validate":
            res = asyncio.run(ValidateTool().execute(content=text, schema="RPR", fix=True))
            canon = res.get("canonical")
            entries = [(e.get("rule_id"), e.get("before"), e.get("after"), e.get("tier")) for e in res.get("repairs", []) if isinstance(e, dict) and e.get("rule_id")]
        else:
            p = os.path.join(_tool_cwd(), f"w{os.getpid()}.oct.md")
            res = asyncio.run(WriteTool().execute(target_path=p, content=text, schema="RPR", lenient=True, corrections_only=True))
            canon = None
            entries = [(e.get("code"), e.get("before"), e.get("after"), e.get("tier")) for e in res.get("corrections", []) if isinstance(e, dict) and e.get("tier") == "REPAIR"]
            # dry run returns no canonical text: re-run the API pipeline to obtain the repaired document
            v = Validator(schema=None)
            errs = v.validate(doc, strict=False, section_schemas={sch.name: sch})
            d2, _ = repair(doc, errs, fix=True, schema=sch) if errs else (doc, None)
            canon = "__api__"
        if res.get("status") != "success":
            problems.append(f"tool returned {res.get('status')}: {res.get('errors')}")
        else:
            after = parse(canon) if canon != "__api__" else d2
            problems += check_repair(before, after, entries, sch)
    if problems:
        return True, f"[{route}] instance {text!r}: {problems[0]}", True, (route, fields)
    return False, "", True, (route, fields)


def items(ctx: Ctx):
    base = ("ACTIVE", None, None, "x", False, False, False)
    seen = set()

    def emit(route, f):
        if (route, f) not in seen:
            seen.add((route, f))
            return True
        return False

    routes = ("api", "api_off", "validate", "write")
    # every perturbation of one field, every route
    singles = []
    for s in STATUS_V:
        singles.append((s, None, None, "x", False, False, False))
    for m in MODE_V:
        singles.append(("ACTIVE", m, None, "x", False, False, False))
    for c in COUNT_V:
        singles.append(("ACTIVE", None, c, "x", False, False, False))
    for nm in NAME_V:
        for nested in (False, True):
            for extra in (False, True):
                for zone in (False, True):
                    singles.append(("active", "ALPHA", '"42"', nm, nested, extra, zone))
    for f in singles:
        for r in routes:
            if emit(r, f):
                yield (r, f)
    # pairs of perturbations through the API (all) and the tools (sampled)
    rnd = random.Random(ctx.seed)
    for s, m, c in itertools.product(STATUS_V, MODE_V, COUNT_V):
        f = (s, m, c, "x", False, False, False)
        if emit("api", f):
            yield ("api", f)
        if ctx.thorough or rnd.random() < 0.08:
            r = rnd.choice(("validate", "write"))
            if emit(r, f):
                yield (r, f)


def replay(route, fields):
    r = _one((route, tuple(fields)))
    if r is None:
        return False, "instance does not parse"
    return r[0], r[1] or "repair behaves as the property text says"


def ob_b1(ctx: Ctx) -> Outcome:
    res = sweep(_one, items(ctx), ctx.cores, chunk=60)
    wits = [Witness(what=text, input={"route": item[0], "fields": list(item[1])}, key=f"{item[0]}|{item[1]}", replay={"runner": "props.C11_b:replay", "args": {"route": item[0], "fields": list(item[1])}}, confirmed=True) for item, text in res["failures"][:200]]
    extra = dict(
        bound=f"schema with REQ∧ENUM, OPT∧ENUM (case-ambiguous), OPT∧TYPE[NUMBER], REQ x instance values: {len(STATUS_V)} STATUS x {len(MODE_V)} MODE x {len(COUNT_V)} COUNT spellings (case variants, unique/ambiguous prefixes, numeric text in all notations incl. integers beyond 2**53, overflow/underflow/nan/underscore/non-ASCII digits, wrong kinds, missing) + nested re-use of field names, extra field, literal zone; routes repair(fix on/off), octave_validate(fix=true), octave_write(lenient, schema, dry run); tools sampled with seed {ctx.seed} in quick",
        evaluations=res["evaluations"],
        distinct_nontrivial=res["distinct"],
        rule="a case is (route, instance fields); distinct by that tuple; non-trivial: the instance parses and reaches repair",
        samples=[["api", ["active", "ALPHA", '"1e-400"', "x", False, False, False]]],
    )
    if wits:
        return Outcome.refuted("real repair/tools vs oracle", wits, **extra)
    return Outcome.ok("real repair/tools vs oracle", **extra)


ob_b1.wants_all_cores = True
