"""Protocol / effect-order obligations on the real write paths (shared by C16, C17): decided on the AST.

The write block of WriteTool.execute and of atomic_write_octave is structured code; the obligations below
are typestate-style facts about it that hold for every execution of that structure:
  * every file-system mutation lies in the final write block, after the dry-run return (dominance by statement
    order in one statement list) and in no callee;
  * the temp-file protocol: mkstemp in the target's directory; the try that follows cleans the temp file up on
    every exception and re-raises; inside it: [fchmod(original mode)], write+flush+fsync, [re-read, compare,
    unlink+return on mismatch], os.replace(temp, target) last; nothing else writes the target;
  * the CAS guards: each mode compares the hash of what it read with base_hash before anything else happens.
Any deviation from the recognised structure is 'undecided' unless a concrete probe through the fault harness
shows a real failure.
"""
from __future__ import annotations

import ast

from verif import extract
from verif.common import Ctx, Outcome, Witness
from verif.extract import ExtractionError

WRITE = "octave_mcp.mcp.write"
FOPS = "octave_mcp.core.file_ops"
MUTATORS = ("mkdir", "mkstemp", "fchmod", "fdopen", "fsync", "replace", "unlink", "rmdir", "rename", "remove", "write_text", "write_bytes", "chmod", "touch", "makedirs", "rmtree", "truncate", "symlink", "link")


def _calls(node):
    for n in ast.walk(node):
        if isinstance(n, ast.Call):
            yield n


def _callname(c: ast.Call) -> str:
    return ast.unparse(c.func)


def mutating_calls(fn) -> list[tuple[int, str]]:
    out = []
    for c in _calls(fn):
        nm = _callname(c)
        last = nm.split(".")[-1]
        if last in MUTATORS and not nm.startswith(("self._", "result.", "corrections.", "lines.", "errors.")):
            # str.replace on text is not a file operation: require an os./Path-like receiver or bare tempfile call
            if last == "replace" and not nm.startswith("os."):
                continue
            if last in ("remove", "link", "touch", "truncate") and not nm.startswith(("os.", "path_obj.", "Path(")):
                continue
            out.append((c.lineno, nm))
        if nm == "open" and len(c.args) >= 2 and isinstance(c.args[1], ast.Constant) and any(ch in str(c.args[1].value) for ch in "wax+"):
            out.append((c.lineno, f"open(..., {c.args[1].value!r})"))
        for kw in c.keywords:
            if nm == "open" and kw.arg == "mode" and isinstance(kw.value, ast.Constant) and any(ch in str(kw.value.value) for ch in "wax+"):
                out.append((c.lineno, f"open(mode={kw.value.value!r})"))
    return sorted(set(out))


def _top_index(fn, lineno: int) -> int | None:
    for i, st in enumerate(fn.body):
        end = getattr(st, "end_lineno", st.lineno)
        if st.lineno <= lineno <= end:
            return i
    return None


def ob_mutations_after_dry_return(ctx: Ctx) -> Outcome:
    """WriteTool.execute: `if corrections_only: return result` is a top-level statement and every mutating call of
    the function lies in a later top-level statement; helper methods called by execute contain no mutating call.
    Consequence: a corrections_only call, and every error returned before the write block, touches nothing."""
    try:
        fn = extract.find_def(WRITE, "WriteTool.execute")
        cls = extract.find_def(WRITE, "WriteTool")
    except ExtractionError as e:
        return Outcome.undecided("ast-shape", str(e))
    dry = [i for i, st in enumerate(fn.body) if isinstance(st, ast.If) and ast.unparse(st.test) == "corrections_only" and len(st.body) >= 1 and isinstance(st.body[-1], ast.Return) and not st.orelse]
    if len(dry) != 1:
        return Outcome.undecided("ast-shape", f"{len(dry)} top-level `if corrections_only: return` statements in execute")
    di = dry[0]
    muts = mutating_calls(fn)
    if not muts:
        return Outcome.undecided("ast-shape", "no mutating call found in execute: contract no longer matches the source")
    wits = []
    for ln, nm in muts:
        ti = _top_index(fn, ln)
        if ti is None or ti <= di:
            failed, text = probe_dry_run()
            wits.append(Witness(what=f"WriteTool.execute L{ln}: `{nm}` can run before the corrections_only return (top-level statement {ti} <= {di}); {text}", key=f"early:{nm}", input=nm, replay={"runner": "props.fsproto:probe_dry_run", "args": {}}, confirmed=failed))
    # callees: methods of WriteTool and module functions reachable by name from execute
    n_helpers = 0
    called = {_callname(c) for c in _calls(fn)}
    for item in cls.body:
        if isinstance(item, (ast.FunctionDef, ast.AsyncFunctionDef)) and item.name != "execute" and f"self.{item.name}" in called:
            n_helpers += 1
            for ln, nm in mutating_calls(item):
                failed, text = probe_dry_run()
                wits.append(Witness(what=f"WriteTool.{item.name} L{ln}: helper of execute performs `{nm}`; {text}", key=f"helper:{item.name}:{nm}", input=nm, replay={"runner": "props.fsproto:probe_dry_run", "args": {}}, confirmed=failed))
    # the frames engine's closure: no fs_write effect anywhere in the closure outside execute itself and file_ops helpers used in the block
    try:
        from props.framesobs import package

        p = package()
        ent = f"{WRITE}:WriteTool.execute"
        for k, e in p.closure_effects(ent):
            if e.kind == "fs_write" and k != ent and not k.startswith(f"{FOPS}:remove_created_dirs") and not k.startswith(f"{FOPS}:missing_parent_dirs"):
                wits.append(Witness(what=f"fs_write effect in a callee of execute: {k}@L{e.lineno}: {e.detail}", key=f"callee:{k}", input=k))
    except Exception as e:  # noqa: BLE001
        return Outcome.undecided("frames", f"effect closure unavailable: {type(e).__name__}: {e}")
    n = len(muts) + n_helpers + 1
    if wits:
        if not any(w.confirmed for w in wits):
            return Outcome.undecided("ast-shape", "mutation placement not recognised: " + "; ".join(w.what[:100] for w in wits[:3]))
        return Outcome.refuted("ast-shape+frames", [w for w in wits if w.confirmed] or wits, count=n)
    return Outcome.ok("ast-shape+frames", count=n, mutating_calls=[f"L{ln} {nm}" for ln, nm in muts], dry_return_statement=di)


def probe_dry_run():
    """corrections_only and error-returning calls through the real tool: snapshot of the directory before/after"""
    import asyncio
    import os
    import shutil
    import tempfile

    from octave_mcp.mcp.write import WriteTool
    from verif.bounded.fsharness import NEW, OLD, snapshot

    bad = []
    root = tempfile.mkdtemp(prefix="vf-fs-probe-")
    try:
        t = os.path.join(root, "x.oct.md")
        with open(t, "w") as f:
            f.write(OLD)
        for call in (dict(content=NEW, corrections_only=True), dict(changes={"A": 1}, corrections_only=True), dict(corrections_only=True), dict(content=NEW, base_hash="0" * 64), dict(content="===BROKEN", lenient=False), dict(content=NEW, changes={"A": 1})):
            for tp in (t, os.path.join(root, "new", "dir", "y.oct.md")):
                before = snapshot(root)
                r = asyncio.run(WriteTool().execute(target_path=tp, **call))
                after = snapshot(root)
                if (call.get("corrections_only") or r.get("status") == "error") and before != after:
                    bad.append(f"call {call} on {os.path.relpath(tp, root)} returned {r.get('status')} and changed the directory: {sorted(set(after) ^ set(before)) or 'content'}")
    finally:
        shutil.rmtree(root, ignore_errors=True)
    return bool(bad), "; ".join(bad[:2]) or "probe: dry and failing calls leave the directory untouched"


# ---- temp-file protocol ------------------------------------------------------------------------------------------------


def _find_write_block(fn):
    """(mkstemp assignment, the try after it, enclosing statement list) of the atomic write"""
    for n in ast.walk(fn):
        for field in ("body", "orelse", "finalbody"):
            blk = getattr(n, field, None)
            if not isinstance(blk, list):
                continue
            for i, st in enumerate(blk):
                if isinstance(st, ast.Assign) and isinstance(st.value, ast.Call) and _callname(st.value) == "tempfile.mkstemp":
                    nxt = blk[i + 1] if i + 1 < len(blk) else None
                    return st, nxt, blk
    return None, None, None


def check_protocol(module: str, qualname: str, target_expr: str, content_name: str) -> tuple[list[str], list[str]]:
    """(facts, problems) for one write site"""
    fn = extract.find_def(module, qualname)
    facts, probs = [], []
    mk, tr, blk = _find_write_block(fn)
    if mk is None:
        return facts, ["no `fd, temp_path = tempfile.mkstemp(...)` found"]
    tgt = ast.unparse(mk.targets[0])
    if tgt != "(fd, temp_path)":
        probs.append(f"mkstemp result bound to {tgt}")
    kws = {k.arg: ast.unparse(k.value) for k in mk.value.keywords}
    if kws.get("dir") != "path_obj.parent":
        probs.append(f"temp file is not created in the target's directory (dir={kws.get('dir')}): os.replace would not be atomic across file systems")
    else:
        facts.append("temp file created by mkstemp(dir=path_obj.parent): same directory, same file system as the target")
    if not isinstance(tr, ast.Try):
        return facts, probs + ["the statement after mkstemp is not the guarded try block"]
    # handler: except Exception: if os.path.exists(temp_path): os.unlink(temp_path); raise
    hs = tr.handlers
    if not (len(hs) == 1 and hs[0].type is not None and ast.unparse(hs[0].type) in ("Exception", "BaseException")):
        probs.append("the try after mkstemp does not catch Exception for cleanup")
    else:
        hb = [ast.unparse(s) for s in hs[0].body]
        if hb != ["if os.path.exists(temp_path):\n    os.unlink(temp_path)", "raise"]:
            probs.append(f"cleanup handler is not `if os.path.exists(temp_path): os.unlink(temp_path)` + `raise`: {hb}")
        else:
            facts.append("every exception between mkstemp and replace unlinks the temp file and is re-raised")
    if tr.finalbody or tr.orelse:
        probs.append("try after mkstemp has else/finally clauses outside the recognised protocol")
    body = tr.body
    order = []
    for st in body:
        u = ast.unparse(st)
        if isinstance(st, ast.If) and ast.unparse(st.test) == "original_mode is not None" and [ast.unparse(x) for x in st.body] == ["os.fchmod(fd, original_mode)"]:
            order.append("fchmod")
        elif isinstance(st, ast.With) and len(st.items) == 1 and ast.unparse(st.items[0].context_expr).startswith("os.fdopen(fd, 'w'") :
            inner = [ast.unparse(x) for x in st.body]
            fv = ast.unparse(st.items[0].optional_vars) if st.items[0].optional_vars is not None else "f"
            if inner == [f"{fv}.write({content_name})", f"{fv}.flush()", f"os.fsync({fv}.fileno())"]:
                order.append("write+flush+fsync")
            else:
                probs.append(f"write block body is {inner}")
                order.append("write?")
        elif isinstance(st, ast.If) and "base_hash" in ast.unparse(st.test):
            # verify block: with open(target) as verify_f: read; hash; if != base_hash: unlink temp; return error
            inner = st.body
            ok = (
                len(inner) == 3
                and isinstance(inner[0], ast.With)
                and ast.unparse(inner[0].items[0].context_expr).startswith(f"open({target_expr}, encoding='utf-8')")
                and isinstance(inner[2], ast.If)
                and isinstance(inner[1], ast.Assign)
                and len(inner[1].targets) == 1
                and ast.unparse(inner[2].test) == f"{ast.unparse(inner[1].targets[0])} != base_hash"
                and isinstance(inner[1].value, ast.Call)
                and ast.unparse(inner[1].value.func) in ("self._compute_hash", "compute_hash")
                and len(inner[0].body) == 1
                and isinstance(inner[0].body[0], ast.Assign)
                and ast.unparse(inner[1].value.args[0]) == ast.unparse(inner[0].body[0].targets[0])
                and inner[0].items[0].optional_vars is not None
                and ast.unparse(inner[0].body[0].value) == f"{ast.unparse(inner[0].items[0].optional_vars)}.read()"
                and ast.unparse(inner[2].body[0]) == "os.unlink(temp_path)"
                and isinstance(inner[2].body[-1], ast.Return)
                and len(inner[2].body) == 2
                and not inner[2].orelse
            )
            if ok and ast.unparse(st.test) not in ("base_hash and file_exists", "base_hash and path_obj.exists()"):
                probs.append(f"the pre-replace verification runs only under `{ast.unparse(st.test)}` (expected: whenever base_hash is given and the target existed)")
                order.append("verify")
            elif ok:
                order.append("verify")
                facts.append(f"re-read + compare before replace under `{ast.unparse(st.test)}`; a mismatch unlinks the temp file and returns an error")
            else:
                probs.append("the pre-replace verification block does not have the shape read / hash / compare / unlink+return")
                order.append("verify?")
        elif u == f"os.replace(temp_path, {target_expr})":
            order.append("replace")
        else:
            probs.append(f"statement outside the protocol between mkstemp and replace: {u[:70]}")
    want = ["fchmod", "write+flush+fsync", "verify", "replace"]
    if order != want:
        probs.append(f"protocol order is {order}, expected {want}")
    else:
        facts.append("order: fchmod(original mode) -> write, flush, fsync -> verify -> os.replace(temp, target) as the last step")
    # nothing else writes the target; original_mode from os.stat(target) & 0o777 under exists()
    src = ast.unparse(fn)
    mode_ok = f"original_stat = os.stat({target_expr})" in src and "original_mode = original_stat.st_mode & 511" in src
    if not mode_ok:
        # one level of helper: original_mode = helper(...) whose returns are `None` and `os.stat(<param>).st_mode & 0o777`
        mm = [n for n in ast.walk(fn) if isinstance(n, ast.Assign) and ast.unparse(n.targets[0]) == "original_mode" and isinstance(n.value, ast.Call)]
        if len(mm) == 1:
            try:
                h = extract.find_def(module, ast.unparse(mm[0].value.func).replace("self.", qualname.split(".")[0] + "." if "." in qualname else ""))
                rs = sorted(ast.unparse(r.value) if r.value is not None else "None" for r in ast.walk(h) if isinstance(r, ast.Return))
                params = [a.arg for a in h.args.args]
                mode_ok = len(rs) == 2 and rs[0] == "None" and any(rs[1] == f"os.stat({p}).st_mode & 511" for p in params)
            except ExtractionError:
                mode_ok = False
    if not mode_ok:
        probs.append("original_mode is not os.stat(target).st_mode & 0o777")
    else:
        facts.append("permission bits of an existing target are copied to the temp file before the replace")
    others = [(ln, nm) for ln, nm in mutating_calls(fn) if nm in ("os.replace", "os.rename") or nm.startswith("open(")]
    if [nm for _, nm in others] != ["os.replace"]:
        probs.append(f"other calls that can write the target: {others}")
    else:
        facts.append("os.replace(temp, target) is the only call that writes the target path")
    return facts, probs


def ob_protocol(module: str, qualname: str, target_expr: str, content_name: str, probe_scn: str):
    def fn(ctx: Ctx) -> Outcome:
        try:
            facts, probs = check_protocol(module, qualname, target_expr, content_name)
        except ExtractionError as e:
            return Outcome.undecided("ast-shape", str(e))
        if not probs:
            return Outcome.ok("ast-shape", count=len(facts), facts=facts)
        failed, text = probe_faults(probe_scn)
        if not failed:
            # the verification step is part of the protocol: the CAS probe (stale digests, a target that is not text) as well
            failed, text2 = probe_cas()
            if failed:
                return Outcome.refuted("ast-shape", [Witness(what=f"{qualname}: {p} — {text2}", key=p[:60], input=p, replay={"runner": "props.fsproto:probe_cas", "args": {}}, confirmed=True) for p in probs], count=len(facts) + len(probs))
            text = f"{text}; {text2}"
        if not failed:
            return Outcome.undecided("ast-shape", f"{qualname}: write block has a shape this contract does not recognise ({'; '.join(probs[:3])}); fault probe: {text}")
        return Outcome.refuted("ast-shape", [Witness(what=f"{qualname}: {p} — {text}", key=p[:60], input=p, replay={"runner": "props.fsproto:probe_faults", "args": {"scenario": probe_scn}}, confirmed=True) for p in probs], count=len(facts) + len(probs))

    return fn


def probe_faults(scenario: str = "wt_overwrite_nohash"):
    """single-fault, fault-pair (second fault at every call the run makes after the first) and kill sweep of one scenario
    through the real code (the bounded harness), atomicity oracles only"""
    from verif.bounded import fsharness as F

    scn = next(s for s in F.scenarios() if s["name"] == scenario)
    r = F.sweep(scn, pairs=True, cores=1)  # probes run inside pool workers: no nested pools
    bad = [v for v in r["violations"] if v["what"].split(":", 1)[0] not in ("exception_escaped", "spurious_hash_mismatch", "cas_absent_target_written")]
    if bad:
        return True, f"{len(bad)} failing fault points, e.g. {bad[0]['mode']} at {bad[0]['at']} ({bad[0]['errno']}): {bad[0]['what'][:160]}"
    # an external change at every call boundary: an error must still leave no temp file, a success must keep the mode bits
    tr = F.run_trace(scn)
    if scn["pre"]:
        for k in range(len(tr["calls"])):
            rr = F.run_act(scn, k, {"kind": "external", "text": "===DOC===\nW::other\n===END===\n"})
            env = rr.get("envelope") or {}
            new_entries = [e for e in rr["after"] if e not in rr["before"]]
            if env.get("status") == "error" and new_entries:
                return True, f"external change before call #{k}:{tr['calls'][k][1]}: status=error but {new_entries} left beside the target"
    if scn["pre"] and scn["call"].get("base_hash"):
        # a rewrite that keeps length and timestamps, at every point up to the completion of the temp file: the
        # writer's final comparison comes later, so it must notice (E_HASH)
        names = [c[1] for c in tr["calls"]]
        rep = len(names) - 1 - names[::-1].index("os.replace") if "os.replace" in names else len(names)
        closes = [i for i, c in enumerate(tr["calls"][:rep]) if c[1] == "file.close" and str(c[2]).endswith(".tmp")]
        done = closes[-1] if closes else rep - 1
        first_read = next((i for i, n in enumerate(names) if n in ("file.read", "Path.read_text")), 0)
        for k in range(first_read + 2, done + 1):
            rr = F.run_act(scn, k, {"kind": "external_keepstat", "text": "===DOC===\nA::new\nC::4\n===END===\n"})
            env = rr.get("envelope") or {}
            if env.get("status") == "success":
                return True, f"the target was rewritten (same length, same timestamps) before call #{k}:{names[k]}, i.e. before the writer's temp file was complete, yet the writer holding the old base_hash succeeded"
    # failures that are not OSErrors (text that cannot be encoded): the cleanup must not depend on the exception class
    for s2 in F.scenarios():
        if "unencodable" in s2["name"] and s2["tool"] == scn["tool"]:
            r2 = F.sweep(s2, pairs=False, cores=1)
            bad2 = [v for v in r2["violations"] if v["what"].split(":", 1)[0] not in ("exception_escaped", "spurious_hash_mismatch", "cas_absent_target_written")]
            if bad2:
                return True, f"{s2['name']}: {bad2[0]['mode']} at {bad2[0]['at']}: {bad2[0]['what'][:160]}"
    return False, f"{r['evaluations']} fault/kill points and {len(tr['calls'])} external-change points of {scenario}: target always old-or-new, no temp file left after an error"


# ---- CAS guards -----------------------------------------------------------------------------------------------------------


def ob_cas_guards(ctx: Ctx) -> Outcome:
    """Each mode of execute (normalize, changes, content) and atomic_write_octave compares hash(read text) with
    base_hash and returns the hash error before any other effect; the guard conditions are recorded (a guard that
    also requires the file to exist is the documented behaviour and a known finding of C17)."""
    try:
        fn = extract.find_def(WRITE, "WriteTool.execute")
        fa = extract.find_def(FOPS, "atomic_write_octave")
    except ExtractionError as e:
        return Outcome.undecided("ast-shape", str(e))
    guards = []
    for f, hashfn in ((fn, "self._compute_hash"), (fa, "compute_hash")):
        for n in ast.walk(f):
            if isinstance(n, ast.If) and ast.unparse(n.test) in ("current_hash != base_hash",) and isinstance(n.body[-1], ast.Return):
                ret = ast.unparse(n.body[-1])
                guards.append((f.name, n.lineno, "E_HASH" in ret or "Hash mismatch" in ret))
    facts = []
    wits = []
    per = {"execute": 3, "atomic_write_octave": 1}
    for name, want in per.items():
        got = [g for g in guards if g[0] == name]
        if len(got) != want or not all(g[2] for g in got):
            wits.append(f"{name}: {len(got)} entry `current_hash != base_hash` guards returning the hash error (expected {want})")
        else:
            facts.append(f"{name}: {want} entry guard(s) compare hash(read text) with base_hash and return the hash error")
    # the guards precede the write block: line order
    mk, _, _ = _find_write_block(fn)
    if mk is not None and any(g[1] > mk.lineno for g in guards if g[0] == "execute"):
        wits.append("execute: an entry CAS guard lies after the temp file creation")
    if wits:
        failed, text = probe_cas()
        if not failed:
            return Outcome.undecided("ast-shape", "; ".join(wits) + f"; probe: {text}")
        return Outcome.refuted("ast-shape", [Witness(what=f"{w} — {text}", key=w[:50], input=w, replay={"runner": "props.fsproto:probe_cas", "args": {}}, confirmed=True) for w in wits], count=4)
    return Outcome.ok("ast-shape", count=4, facts=facts)


def probe_cas():
    import asyncio
    import os
    import shutil
    import tempfile

    from octave_mcp.core.file_ops import atomic_write_octave
    from octave_mcp.mcp.write import WriteTool
    from verif.bounded.fsharness import LENIENT, NEW, OLD

    bad = []
    root = tempfile.mkdtemp(prefix="vf-fs-probe-")
    try:
        t = os.path.join(root, "x.oct.md")
        for label, call, pre in (("content", dict(content=NEW), OLD), ("changes", dict(changes={"A": 9}), OLD), ("normalize", dict(), LENIENT)):
            with open(t, "w") as f:
                f.write(pre)
            r = asyncio.run(WriteTool().execute(target_path=t, base_hash="0" * 64, **call))
            now = open(t).read()
            if r.get("status") != "error" or now != pre or not any(e.get("code") == "E_HASH" for e in r.get("errors", [])):
                bad.append(f"{label} mode with a stale base_hash: status {r.get('status')}, file {'changed' if now != pre else 'unchanged'}")
        # a target whose bytes are not text at all: whatever base_hash the caller holds - the digest of the empty text
        # included (what a reader that swallows the decoding error would compute) - the content does not hash to it
        import hashlib

        blob = b"\xff\xfe\x00binary \x80\x81 not utf-8\n"
        for label, bh in (("sha256('')", hashlib.sha256(b"").hexdigest()), ("stale digest", "0" * 64)):
            for mode, call in (("content", dict(content=NEW)), ("changes", dict(changes={"A": 9}))):
                with open(t, "wb") as f:
                    f.write(blob)
                r = asyncio.run(WriteTool().execute(target_path=t, base_hash=bh, **call))
                now = open(t, "rb").read()
                if r.get("status") != "error" or now != blob:
                    bad.append(f"{mode} mode on a target holding non-UTF-8 bytes with base_hash = {label}: status {r.get('status')}, bytes {'replaced' if now != blob else 'kept'}")
        with open(t, "w") as f:
            f.write(OLD)
        r = atomic_write_octave(t, NEW, base_hash="0" * 64)
        if r.get("status") != "error" or open(t).read() != OLD:
            bad.append(f"atomic_write_octave with a stale base_hash: {r.get('status')}")
    finally:
        shutil.rmtree(root, ignore_errors=True)
    return bool(bad), "; ".join(bad[:2]) or "probe: a stale base_hash is refused with the hash error in all modes, file unchanged"


def ob_no_await(ctx: Ctx) -> Outcome:
    """WriteTool.execute contains no await / async for / async with: one event loop serves calls one after another"""
    try:
        fn = extract.find_def(WRITE, "WriteTool.execute")
    except ExtractionError as e:
        return Outcome.undecided("ast-shape", str(e))
    aw = [n for n in ast.walk(fn) if isinstance(n, (ast.Await, ast.AsyncFor, ast.AsyncWith))]
    if aw:
        return Outcome.refuted("ast-shape", [Witness(what=f"WriteTool.execute L{n.lineno}: {type(n).__name__}: another call can run between the CAS check and the replace on the same loop", key=f"await:{n.lineno}", input=ast.unparse(n)[:80]) for n in aw], count=1)
    return Outcome.ok("ast-shape", count=1)


def ob_hash_of_written(ctx: Ctx) -> Outcome:
    """the envelope's canonical_hash is the hash of exactly the text handed to f.write"""
    try:
        fn = extract.find_def(WRITE, "WriteTool.execute")
    except ExtractionError as e:
        return Outcome.undecided("ast-shape", str(e))
    src = ast.unparse(fn)
    stores = [n for n in ast.walk(fn) if isinstance(n, ast.Assign) and any(isinstance(t, ast.Name) and t.id == "canonical_content" for t in n.targets)]
    last_store = max((n.lineno for n in stores), default=0)
    hash_sites = [n.lineno for n in ast.walk(fn) if isinstance(n, ast.Call) and ast.unparse(n) == "self._compute_hash(canonical_content)"]
    write_sites = [n.lineno for n in ast.walk(fn) if isinstance(n, ast.Call) and ast.unparse(n) == "f.write(canonical_content)"]
    probs = []
    if not hash_sites or not write_sites:
        probs.append("canonical_hash is not computed from `canonical_content` or the file is not written from it")
    elif last_store > min(hash_sites) or last_store > min(write_sites):
        probs.append(f"canonical_content is re-assigned (L{last_store}) after its hash was taken (L{min(hash_sites)}) or before the write (L{min(write_sites)})")
    if probs:
        from props.fsproto import probe_success_hash

        failed, text = probe_success_hash()
        if not failed:
            return Outcome.undecided("ast-shape", probs[0] + f"; probe: {text}")
        return Outcome.refuted("ast-shape", [Witness(what=f"{probs[0]} — {text}", key="hash-of-written", input=probs[0], replay={"runner": "props.fsproto:probe_success_hash", "args": {}}, confirmed=True)], count=2)
    return Outcome.ok("ast-shape", count=2, hash_site=min(hash_sites), write_site=min(write_sites), last_assignment=last_store)


def probe_success_hash():
    import asyncio
    import hashlib
    import os
    import shutil
    import tempfile

    from octave_mcp.mcp.write import WriteTool
    from verif.bounded.fsharness import LENIENT, NEW, OLD

    bad = []
    root = tempfile.mkdtemp(prefix="vf-fs-probe-")
    try:
        t = os.path.join(root, "x.oct.md")
        for label, pre, call in (("new", None, dict(content=NEW)), ("overwrite", OLD, dict(content=LENIENT, lenient=True)), ("changes", OLD, dict(changes={"A": 5})), ("normalize", LENIENT, dict())):
            if pre is None:
                if os.path.exists(t):
                    os.unlink(t)
            else:
                with open(t, "w") as f:
                    f.write(pre)
            r = asyncio.run(WriteTool().execute(target_path=t, **call))
            if r.get("status") == "success":
                h = hashlib.sha256(open(t, "rb").read()).hexdigest()
                if h != r.get("canonical_hash"):
                    bad.append(f"{label}: file hashes to {h[:12]}, envelope says {str(r.get('canonical_hash'))[:12]}")
    finally:
        shutil.rmtree(root, ignore_errors=True)
    return bool(bad), "; ".join(bad[:2]) or "probe: canonical_hash equals the hash of the written bytes in all four modes"


# ---- success is only reported after the replace ----------------------------------------------------------------------------------
def probe_same_content() -> tuple[bool, str]:
    """writes whose new text equals what a text-mode read of the target gives (same bytes, CRLF, lone CR): on success the
    file's bytes hash to canonical_hash"""
    from verif.bounded import fsharness as F

    bad = []
    for scn in F.scenarios():
        if not ("same" in scn["name"] or "crlf" in scn["name"]):
            continue
        r = F.sweep(scn, pairs=False, cores=1)
        for v in r["violations"]:
            if v["what"].split(":", 1)[0] in ("exception_escaped", "spurious_hash_mismatch", "cas_absent_target_written"):
                continue
            bad.append(f"{scn['name']} {v['mode']} at {v['at']}: {v['what'][:140]}")
    return bool(bad), "; ".join(bad[:3]) or "same-content and CRLF targets: the file's bytes hash to canonical_hash after every successful call"


def ob_success_after_replace(ctx: Ctx) -> Outcome:
    """WriteTool.execute returns a non-error envelope at exactly two places: under the top-level `if corrections_only:`
    (dry run) and as the function's last statement, after the write block. No other path can report success without
    having gone through the temp-file protocol - so `status=success` implies the bytes on disk are the bytes hashed."""
    from verif.common import shape_verdict

    try:
        fn = extract.find_def(WRITE, "WriteTool.execute")
    except ExtractionError as e:
        return Outcome.undecided("ast-shape", str(e))
    problems = []
    rets = [n for n in ast.walk(fn) if isinstance(n, ast.Return)]
    nested = {id(r) for f in ast.walk(fn) if isinstance(f, (ast.FunctionDef, ast.AsyncFunctionDef, ast.Lambda)) and f is not fn for r in ast.walk(f) if isinstance(r, ast.Return)}
    plain = [r for r in rets if id(r) not in nested and not (isinstance(r.value, ast.Call) and ast.unparse(r.value.func) in ("self._error_envelope",))]
    last = fn.body[-1]
    dry = [st for st in fn.body if isinstance(st, ast.If) and ast.unparse(st.test) == "corrections_only" and not st.orelse]
    for r in plain:
        if r is last:
            continue
        if any(r in list(ast.walk(d)) for d in dry):
            continue
        problems.append(f"L{r.lineno}: `{ast.unparse(r)[:60]}` returns a non-error envelope outside the dry-run branch and before the end of the write block")
    if not (isinstance(last, ast.Return) and plain and last in plain):
        problems.append("the function does not end with the success return")
    if not dry:
        problems.append("no top-level `if corrections_only:` branch")
    if problems:
        return shape_verdict("ast-frame", problems, probe_same_content, len(plain) or 1, {"runner": "props.fsproto:probe_same_content", "args": {}})
    return Outcome.ok("ast-frame", count=len(plain), returns=[r.lineno for r in plain])


# ---- a failed call leaves the tree as it was: the cleanup touches only what the call created --------------------------------------
NOOP_SCENARIOS = ("wt_missing_parent", "wt_missing_parent_under_empty_dir", "at_missing_parent", "at_missing_parent_under_empty_dir", "wt_readonly", "wt_overwrite_hashbad")


def probe_failed_calls_noop(cores: int = 1) -> tuple[bool, str]:
    from verif.bounded import fsharness as F

    bad, n = [], 0
    for scn in F.scenarios():
        if scn["name"] not in NOOP_SCENARIOS:
            continue
        r = F.sweep(scn, pairs=False, cores=cores)
        n += r["evaluations"]
        for v in r["violations"]:
            lab = v["what"].split(":", 1)[0]
            if lab.startswith(("noop_", "leftover_")) or lab in ("error_target_changed", "tmp_left"):
                bad.append(f"{scn['name']} {v['mode']} at {v['at']} ({v['errno']}): {v['what'][:140]}")
    return bool(bad), "; ".join(bad[:3]) or f"{n} fault / kill points over {len(NOOP_SCENARIOS)} scenarios: every call that returned an error left the tree as it was"


def ob_cleanup_frame(ctx: Ctx) -> Outcome:
    """file_ops.remove_created_dirs - the undo of a failed write's mkdir - calls nothing but `rmdir` on the elements of the
    list it was given (the directories this call created, as computed by missing_parent_dirs before the mkdir): no
    recursive or upward-pruning removal (os.removedirs, shutil.rmtree), no unlink. Both write paths pass it exactly the list
    returned by missing_parent_dirs."""
    from verif.common import shape_verdict

    try:
        fn = extract.find_def(FOPS, "remove_created_dirs")
        mp = extract.find_def(FOPS, "missing_parent_dirs")
    except ExtractionError as e:
        return shape_verdict("ast-frame", [str(e)], probe_failed_calls_noop, 1, {"runner": "props.fsproto:probe_failed_calls_noop", "args": {}})
    problems = []
    param = fn.args.args[0].arg if fn.args.args else None
    loops = [n for n in ast.walk(fn) if isinstance(n, ast.For)]
    loopvars = {n.target.id for n in loops if isinstance(n.target, ast.Name) and ast.unparse(n.iter) in (f"reversed({param})", param)}
    n_calls = 0
    for c in ast.walk(fn):
        if not isinstance(c, ast.Call):
            continue
        n_calls += 1
        f = ast.unparse(c.func)
        ok = f == "reversed" or (isinstance(c.func, ast.Attribute) and c.func.attr == "rmdir" and isinstance(c.func.value, ast.Name) and c.func.value.id in loopvars and not c.args) or (f == "os.rmdir" and len(c.args) == 1 and isinstance(c.args[0], ast.Name) and c.args[0].id in loopvars)
        if not ok:
            problems.append(f"remove_created_dirs calls `{ast.unparse(c)[:60]}` (only rmdir of the listed directories is part of the contract)")
    if not loopvars:
        problems.append("remove_created_dirs does not iterate over the list it is given")
    # missing_parent_dirs: collects `parent` while it does not exist - nothing else is appended
    apps = [c for c in ast.walk(mp) if isinstance(c, ast.Call) and isinstance(c.func, ast.Attribute) and c.func.attr == "append"]
    wh = [n for n in ast.walk(mp) if isinstance(n, ast.While)]
    if len(apps) != 1 or len(wh) != 1 or "not parent.exists()" not in ast.unparse(wh[0].test) or ast.unparse(apps[0].args[0]) != "parent":
        problems.append("missing_parent_dirs does not collect exactly the ancestors that do not exist")
    if problems:
        return shape_verdict("ast-frame", problems, probe_failed_calls_noop, max(1, n_calls), {"runner": "props.fsproto:probe_failed_calls_noop", "args": {}})
    return Outcome.ok("ast-frame", count=max(1, n_calls))
