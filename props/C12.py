"""C12 — every compiled grammar is well-formed GBNF."""
from __future__ import annotations

import ast
import itertools
import re

from verif import extract, gbnf
from verif.common import Ctx, Ob, Outcome, Witness
from verif.extract import ExtractionError
from verif.reglang import automata as A
from verif.reglang import transducer as TR
from verif.reglang.alphabet import alphabet

PROPERTY = "C12"
LEVEL = "other"
LEVEL_TEXT = "well-formedness is decomposed into obligations on the real compiler source, each decided for all inputs: (R1) quote + _escape_literal is read back by a GBNF literal reader as exactly the original string, for every string (transducer identity); (R2) every string the REGEX fall-back filter _GBNF_SAFE_FRAGMENT lets through is a reference-free, balanced, non-empty GBNF fragment (regular-language inclusion, witnesses replayed through an independent GBNF reader); (F1) in compile_schema every dynamic text between double quotes passes through _escape_literal and every constant fragment is well-formed; (F2) every rule the compiler itself defines is in _STRUCTURAL_RULE_NAMES, field rule names leave the numbering loop only when unused and are recorded, and every rule referenced is defined; (F3) _sanitize_rule_name appends only ASCII alphanumerics/underscore or _u<hex>_ and never returns the empty string; (F4) every tool route returns a grammar produced by compile_schema / compile_gbnf_from_meta. Composition of these into 'the whole text parses' is the stated argument, cross-checked by reading every grammar of a bounded schema sweep with the independent reader"
LEVEL_NOTE = "unbounded per obligation; the argument that the obligations imply well-formedness of the whole text is by inspection of compile_schema's line templates (checked syntactically), not a machine-checked proof; per-constraint fragments other than REGEX are constants or escaped literals (F1 checks them); llama.cpp's stricter rule-name alphabet (no underscore) is a known finding, pinned by the repository's own tests"
TECHNIQUE = "contracts on the real compiler decided by transducer identity (escape), regular-language inclusion (regex filter), AST dataflow/shape inference (quoting, rule-name allocation, routes); bounded schema sweep read by an independent GBNF reference reader"
EXPLANATION = "C12: R1 escape inverse, R2 regex filter language, F1 quoting dataflow, F2 rule-name allocation, F3 sanitiser alphabet, F4 routes, B1 schema sweep through all routes, B2 packaged schemas and grammar hints."
ASSUMPTIONS = [
    "the GBNF syntax is the reference reader's (verif/gbnf.py, written from llama.cpp's grammar parser; deviations only on the rejecting side), with '_' tolerated in rule names",
    "str.replace chains and CPython's re semantics as modelled by verif.reglang (differentially tested)",
    "composition of the per-template obligations into whole-text well-formedness is argued, not machine-checked",
]
TRUSTED_BASE = ["verif.reglang", "verif.gbnf", "verif.frames"]
GB = "octave_mcp.core.gbnf_compiler"
FUNCS = [f"{GB}:GBNFCompiler.compile_schema", f"{GB}:GBNFCompiler._escape_literal", f"{GB}:GBNFCompiler._sanitize_rule_name", f"{GB}:GBNFCompiler._compile_regex", f"{GB}:compile_gbnf_from_meta"]


# ---- R1: escape inverse ---------------------------------------------------------------------------------------------------


def escape_chain() -> list[tuple[str, str]]:
    """the replace chain of _escape_literal: assignments `result = <value|result>.replace(a, b)[.replace...]` then `return result`"""
    fn = extract.find_def(GB, "GBNFCompiler._escape_literal")
    chain: list[tuple[str, str]] = []
    cur = fn.args.args[1].arg  # value
    body = [st for st in fn.body if not (isinstance(st, ast.Expr) and isinstance(st.value, ast.Constant))]
    for st in body[:-1]:
        if not (isinstance(st, ast.Assign) and len(st.targets) == 1 and isinstance(st.targets[0], ast.Name)):
            raise ExtractionError(f"_escape_literal: statement outside the replace-chain shape: {ast.unparse(st)[:60]}")
        node = st.value
        part: list[tuple[str, str]] = []
        while True:
            if isinstance(node, ast.Name) and node.id == cur:
                break
            if isinstance(node, ast.Call) and isinstance(node.func, ast.Attribute) and node.func.attr == "replace" and len(node.args) == 2 and all(isinstance(a, ast.Constant) and isinstance(a.value, str) for a in node.args):
                part.append((node.args[0].value, node.args[1].value))
                node = node.func.value
                continue
            raise ExtractionError(f"_escape_literal: not a literal replace chain on `{cur}`: {ast.unparse(st.value)[:80]}")
        part.reverse()
        chain += part
        cur = st.targets[0].id
    last = body[-1]
    if not (isinstance(last, ast.Return) and isinstance(last.value, ast.Name) and last.value.id == cur):
        raise ExtractionError("_escape_literal: does not return the end of the chain")
    return chain


BAD = -1  # output symbol that no input contains: the literal ended early or the reader refused an escape


def gbnf_literal_reader(al) -> TR.SeqT:
    """llama.cpp parse_char inside "...": backslash escapes n r t \\ " [ ] ; an unescaped quote ends the literal;
    any other escape is an error; a raw line break is refused (rejecting side, see verif/gbnf.py)."""
    bs, q, nl, cr = al.cls("\\"), al.cls('"'), al.cls("\n"), al.cls("\r")
    table = {al.cls("n"): (nl,), al.cls("r"): (cr,), al.cls("t"): (al.cls("\t"),), bs: (bs,), q: (q,), al.cls("["): (al.cls("["),), al.cls("]"): (al.cls("]"),)}

    def step(s, c):
        if s == 2:
            return (2, ())
        if s == 0:
            if c == bs:
                return (1, ())
            if c in (q, nl, cr):
                return (2, (BAD,))
            return (0, (c,))
        return (0, table[c]) if c in table else (2, (BAD,))

    mentioned = {bs, q, nl, cr} | set(table) | {x for v in table.values() for x in v}
    return TR.SeqT(0, step, lambda s: (BAD,) if s == 1 else (), mentioned)


def replay_literal(value: str):
    """quote+escape `value` with the real compiler, read it with the independent GBNF reader"""
    from octave_mcp.core.gbnf_compiler import GBNFCompiler

    lit = '"' + GBNFCompiler()._escape_literal(value) + '"'
    text = "root ::= " + lit
    try:
        g = gbnf.parse_gbnf(text)
    except gbnf.GBNFError as e:
        return True, f"value {value!r}: literal {lit!r} is refused by the GBNF reader: {e}"
    body = g.rules["root"]
    got = _only_literal(body)
    return got != value, f"value {value!r}: literal {lit!r} reads back as {got!r}"


def _only_literal(node):
    while True:
        if isinstance(node, gbnf.Lit):
            return node.text
        kids = getattr(node, "items", None) or getattr(node, "alts", None)
        if kids and len(kids) == 1:
            node = kids[0]
            continue
        if isinstance(node, gbnf.Seq) and not node.items:
            return ""
        return None


def ob_escape(ctx: Ctx) -> Outcome:
    al = alphabet()
    try:
        chain = escape_chain()
    except ExtractionError as e:
        return Outcome.undecided("ast-shape", str(e))
    esc_t = TR.chain_t(al, chain)
    rd = gbnf_literal_reader(al)
    t = TR.compose([esc_t, rd])
    # cross-check both transducers against the real function / the reference reader on all short strings
    from octave_mcp.core.gbnf_compiler import GBNFCompiler

    real = GBNFCompiler()._escape_literal
    chars = ["a", "n", "r", "t", "\\", '"', "\n", "\r", "[", "]"]
    for L in range(0, 5):
        for tup in itertools.product(chars, repeat=L):
            s = "".join(tup)
            if al.decode(esc_t.apply(al.encode(s))) != real(s):
                return Outcome("crashed", "transducer", [], f"escape transducer disagrees with the real _escape_literal on {s!r}")
    cex = TR.identity_counterexample(al, t)
    if cex is None:
        return Outcome.ok("transducer", count=1, escape=chain)
    s = al.decode(cex)
    failed, text = replay_literal(s)
    return Outcome.refuted("transducer", [Witness(what=f"a quoted, escaped value is not read back as itself: {text}", input=s, key=s, replay={"runner": "props.C12:replay_literal", "args": {"value": s}}, confirmed=failed, verifier_output=f"escape chain {chain}; shortest counterexample {s!r}")], count=1, discharged=0)


# ---- R2: the regex fall-back filter ------------------------------------------------------------------------------------


def replay_fragment(fragment: str):
    text = "root ::= " + fragment
    ps = gbnf.check_wellformed(text)
    return bool(ps), f"fragment {fragment!r}: {ps[:2] or 'well-formed, no references'}"


def ob_regex_filter(ctx: Ctx) -> Outcome:
    """L(_GBNF_SAFE_FRAGMENT) ⊆ reference-free well-formed fragments, stated as regular necessary-and-sufficient
    conditions for fragments of nesting depth <= 1 (deeper nesting is outside what the filter may accept):
      items    I = class rep?            class = '[' '^'? (plain | escape)+ ']' , escape = '\\' one of \\ ] [ t n r "
      group    G = '(' sp? S ('|' sp? S)* ')' rep?      S = (I sp?)+      fragment = ((I | G) sp?)+
    and the use site: _compile_regex returns the candidate only under `_GBNF_SAFE_FRAGMENT.fullmatch(result)`."""
    try:
        consts = extract.module_consts(GB)
        rx = consts.get("_GBNF_SAFE_FRAGMENT")
        if not isinstance(rx, extract.Rx):
            raise ExtractionError("gbnf_compiler._GBNF_SAFE_FRAGMENT is not an extractable compiled regex")
        fn = extract.find_def(GB, "GBNFCompiler._compile_regex")
    except ExtractionError as e:
        return Outcome.undecided("ast-shape", str(e))
    # use-site: every returned value is (a) a constant fragment (directly or through a name / module constant bound once
    # to a string literal), (b) a name returned after `if not _GBNF_SAFE_FRAGMENT.fullmatch(name): return <constant>` in
    # the same block, or (c) a conditional expression `name if FILTER.fullmatch(name) else <constant>` (either polarity).
    rets = [n for n in ast.walk(fn) if isinstance(n, ast.Return)]
    guards = [n for n in ast.walk(fn) if isinstance(n, ast.If) and "_GBNF_SAFE_FRAGMENT.fullmatch" in ast.unparse(n.test)]
    consts_mod = consts

    def const_text(e):
        if isinstance(e, ast.Constant) and isinstance(e.value, str):
            return e.value
        if isinstance(e, ast.Name):
            if isinstance(consts_mod.get(e.id), str):
                return consts_mod[e.id]
            asg = [n for n in ast.walk(fn) if isinstance(n, ast.Assign) and any(isinstance(t, ast.Name) and t.id == e.id for t in n.targets)]
            if len(asg) == 1 and isinstance(asg[0].value, ast.Constant) and isinstance(asg[0].value.value, str):
                return asg[0].value.value
        return None

    def filtered_name(e, r):
        if not isinstance(e, ast.Name):
            return False
        for g in guards:
            t = ast.unparse(g.test)
            if t == f"not _GBNF_SAFE_FRAGMENT.fullmatch({e.id})" and isinstance(g.body[-1], ast.Return) and const_text(g.body[-1].value) is not None and g.lineno < r.lineno and _same_block(fn, g, r) and not _assigned_between(fn, e.id, g.lineno, r.lineno):
                return True
        return False

    wits = []
    shape_problems = []
    fragments_to_check: list[tuple[int, str]] = []
    for r in rets:
        v = r.value
        ct = const_text(v)
        if ct is not None:
            fragments_to_check.append((r.lineno, ct))
            continue
        if filtered_name(v, r):
            continue
        if isinstance(v, ast.IfExp):
            t = ast.unparse(v.test)
            pos = isinstance(v.body, ast.Name) and t == f"_GBNF_SAFE_FRAGMENT.fullmatch({v.body.id})" and const_text(v.orelse) is not None
            neg = isinstance(v.orelse, ast.Name) and t == f"not _GBNF_SAFE_FRAGMENT.fullmatch({v.orelse.id})" and const_text(v.body) is not None
            if pos or neg:
                fragments_to_check.append((r.lineno, const_text(v.orelse if pos else v.body)))
                continue
        shape_problems.append(f"_compile_regex L{r.lineno}: returns `{ast.unparse(v)[:60]}` and this contract cannot see that it passed the _GBNF_SAFE_FRAGMENT filter")
    for ln, frag in fragments_to_check:
        failed, text = replay_fragment(frag)
        if failed:
            wits.append(Witness(what=f"_compile_regex L{ln}: constant fall-back is not a well-formed fragment: {text}", key="constant-fallback", input=frag, replay={"runner": "props.C12:replay_fragment", "args": {"fragment": frag}}, confirmed=True))
    if shape_problems and not wits:
        from verif.common import shape_verdict

        return shape_verdict("ast-shape", shape_problems, replay_regex_route, 3, {"runner": "props.C12:replay_regex_route", "args": {}})
    al = alphabet()
    try:
        got = A.dfa_regex(rx.pattern, rx.flags, None, al)
        rep = r"(?:[*+?]|\{[0-9]+(?:,[0-9]*)?\})?"
        klass = r"\[\^?(?:[^\]\\\n\r]|\\[\\\]\[tnr\"])+\]" + rep
        seq = rf"(?:{klass} ?)+"
        group = rf"\( ?{seq}(?:\| ?{seq})*\)" + rep
        ref = A.dfa_regex(rf"(?:(?:{klass}|{group}) ?)+", 0, None, al)
    except Exception as e:  # noqa: BLE001
        return Outcome.undecided("dfa", f"{type(e).__name__}: {e}")
    bad = got - ref
    n = 3
    if not bad.is_empty():
        # members of the difference are replayed through the independent reader: only real ill-formedness is reported
        cur = bad
        shown = 0
        undecided_members = []
        for _ in range(12):
            w = cur.witness()
            if w is None:
                break
            s = al.decode(w)
            failed, text = replay_fragment(s)
            if failed:
                wits.append(Witness(what=f"the regex filter lets an ill-formed fragment through: {text}", key=f"filter:{s}", input=s, replay={"runner": "props.C12:replay_fragment", "args": {"fragment": s}}, confirmed=True, verifier_output=f"L(_GBNF_SAFE_FRAGMENT) - L(reference) has {bad.size()} DFA states"))
                shown += 1
                if shown >= 3:
                    break
            else:
                undecided_members.append(s)
            cur = cur - A.concat(al, [frozenset({c}) for c in w])  # the whole class-word: one representative per word is replayed
        if not shown and not wits:
            return Outcome.undecided("dfa", f"the filter accepts strings outside the reference fragment language (e.g. {undecided_members[:3]}) that the GBNF reader nevertheless accepts: reference description needs review")
    if wits:
        return Outcome.refuted("dfa+ast-shape", wits, count=n)
    return Outcome.ok("dfa+ast-shape", count=n, filter_states=got.size())


def _same_block(fn, a, b) -> bool:
    for n in ast.walk(fn):
        for f in ("body", "orelse", "finalbody"):
            blk = getattr(n, f, None)
            if isinstance(blk, list) and a in blk and b in blk:
                return True
    return False


def _assigned_between(fn, name: str, lo: int, hi: int) -> bool:
    for n in ast.walk(fn):
        if isinstance(n, ast.Name) and n.id == name and isinstance(n.ctx, ast.Store) and lo < n.lineno < hi:
            return True
    return False


def replay_regex_route():
    from octave_mcp.core.constraints import RegexConstraint
    from octave_mcp.core.gbnf_compiler import GBNFCompiler

    bad = []
    for p in ("^abc$", "a\\.c", "(a|b)+", "()", 'a"b', "[a-z\\-]+", "a|b", "[a.b]+x", "x{2}"):
        try:
            frag = GBNFCompiler()._compile_regex(RegexConstraint(pattern=p))
        except Exception:  # noqa: BLE001
            continue
        f, t = replay_fragment(frag)
        if f:
            bad.append(f"{p!r} -> {t}")
    return bool(bad), "; ".join(bad[:3]) or "all probe patterns compile to well-formed fragments"


# ---- F1: quoting dataflow and constant templates in compile_schema / per-kind compilers ------------------------------------


def _fragments_of_joined(js: ast.JoinedStr):
    """yield ('const', text) / ('dyn', expr) pieces"""
    for v in js.values:
        if isinstance(v, ast.Constant):
            yield "const", v.value
        else:
            yield "dyn", v.value


def ob_quoting(ctx: Ctx) -> Outcome:
    """Every f-string / concatenation that builds grammar text in GBNFCompiler: a dynamic piece that sits inside
    double quotes must be `self._escape_literal(...)`, a name bound only to such calls, or an element of a
    comprehension over them; dynamic pieces outside quotes must be rule names (from the allocation loop / the
    sanitiser), the result of compile_chain/compile_constraint, or a numeric/repeat text known to be safe."""
    try:
        cls_fns = [extract.find_def(GB, f"GBNFCompiler.{n}") for n in ("compile_schema", "_compile_enum", "_compile_const", "_compile_type", "_compile_regex", "_compile_iso8601", "_compile_date", "_compile_range", "_compile_max_length", "_compile_min_length", "_compile_dir", "_compile_list", "_compile_required", "_compile_optional")]
    except ExtractionError as e:
        return Outcome.undecided("ast-shape", str(e))
    wits = []
    n = 0
    for fn in cls_fns:
        escaped_names: set[str] = set()
        safe_names: set[str] = set()
        for node in ast.walk(fn):
            if isinstance(node, ast.Assign) and len(node.targets) == 1 and isinstance(node.targets[0], ast.Name):
                t = node.targets[0].id
                src = ast.unparse(node.value)
                if re.fullmatch(r"self\._escape_literal\(.*\)", src) or re.fullmatch(r"\[self\._escape_literal\(.*\) for \w+ in .*\]", src):
                    escaped_names.add(t)
                elif re.fullmatch(r"\[f'\"\{(\w+)\}\"' for \1 in (\w+)\]", src) and re.fullmatch(r"\[f'\"\{(\w+)\}\"' for \1 in (\w+)\]", src).group(2) in escaped_names:
                    safe_names.add(t)  # list of quoted, escaped literals
                elif src in ("self.compile_chain(field_def.pattern.constraints)", "'[^\\\\n]*'") or src.startswith("self._sanitize_rule_name(") or src.startswith("f'{base_rule_name}_{suffix}'") or src == "base_rule_name":
                    safe_names.add(t)
        # only f-strings that become grammar text: arguments of rules.append, returned values, and
        # comprehension elements bound to a name that is later joined into a returned value
        grammar_js: list[ast.JoinedStr] = []
        for node in ast.walk(fn):
            if isinstance(node, ast.Call) and isinstance(node.func, ast.Attribute) and node.func.attr == "append" and ast.unparse(node.func.value) == "rules":
                grammar_js += [x for a in node.args for x in ast.walk(a) if isinstance(x, ast.JoinedStr)]
            elif isinstance(node, ast.Return) and node.value is not None:
                grammar_js += [x for x in ast.walk(node.value) if isinstance(x, ast.JoinedStr)]
            elif isinstance(node, ast.Assign) and isinstance(node.value, ast.ListComp) and isinstance(node.value.elt, ast.JoinedStr):
                grammar_js.append(node.value.elt)
        for node in grammar_js:
            in_quote = False
            for kind, piece in _fragments_of_joined(node):
                if kind == "const":
                    for ch in _unescaped_quotes(piece):
                        in_quote = not in_quote
                    continue
                n += 1
                src = ast.unparse(piece)
                if in_quote:
                    ok = src.startswith("self._escape_literal(") or src in escaped_names or (isinstance(piece, ast.Name) and piece.id in escaped_names)
                    if not ok and isinstance(piece, ast.Name):
                        # comprehension variable ranging over an escaped list
                        ok = _comp_var_over(fn, piece.id, escaped_names)
                    if not ok:
                        wits.append(Witness(what=f"{fn.name} L{node.lineno}: `{src}` is placed between double quotes without _escape_literal", key=f"{fn.name}:{src}", input=ast.unparse(node)[:120], replay={"runner": "props.C12:replay_unescaped_names", "args": {}}, confirmed=replay_unescaped_names()[0]))
                else:
                    ok = src in safe_names or (ast.unparse(node) == "f'{base_rule_name}_{suffix}'" and src in ("base_rule_name", "suffix")) or src in ("rule_name", "pattern", "field_refs", "date", "time", "tz", "quantifier", "char_class", "' | '.join(quoted)") or src.startswith("' | '.join(")
                    if not ok:
                        wits.append(Witness(what=f"{fn.name} L{node.lineno}: dynamic text `{src}` is spliced into a rule outside a literal and is not a known-safe fragment", key=f"{fn.name}:unquoted:{src}", input=ast.unparse(node)[:120]))
            if in_quote:
                wits.append(Witness(what=f"{fn.name} L{node.lineno}: template with an odd number of double quotes: {ast.unparse(node)[:100]}", key=f"{fn.name}:odd-quotes", input=ast.unparse(node)[:120]))
    # constant rule lines and constant fragments returned by the per-kind compilers are read by the reference reader
    consts_checked = 0
    for fn in cls_fns:
        for node in ast.walk(fn):
            if isinstance(node, ast.Return) and isinstance(node.value, ast.Constant) and isinstance(node.value.value, str):
                consts_checked += 1
                failed, text = replay_fragment(node.value.value)
                if failed:
                    wits.append(Witness(what=f"{fn.name} L{node.lineno}: constant fragment is not well-formed on its own: {text}", key=f"{fn.name}:const", input=node.value.value, replay={"runner": "props.C12:replay_fragment", "args": {"fragment": node.value.value}}, confirmed=True))
            if isinstance(node, ast.Dict) and fn.name == "_compile_type":
                for v in node.values:
                    if isinstance(v, ast.Constant) and isinstance(v.value, str):
                        consts_checked += 1
                        failed, text = replay_fragment(v.value)
                        if failed:
                            wits.append(Witness(what=f"_compile_type: constant fragment is not well-formed: {text}", key="type:const", input=v.value, replay={"runner": "props.C12:replay_fragment", "args": {"fragment": v.value}}, confirmed=True))
    if n == 0:
        return Outcome.undecided("ast-shape", "no f-string found in the compiler: the contract no longer matches the source")
    if wits:
        return Outcome.refuted("ast-dataflow", wits, count=n + consts_checked)
    return Outcome.ok("ast-dataflow", count=n + consts_checked, dynamic_pieces=n, constant_fragments=consts_checked)


def _unescaped_quotes(piece: str):
    out = []
    i = 0
    while i < len(piece):
        if piece[i] == "\\":
            i += 2
            continue
        if piece[i] == '"':
            out.append(i)
        i += 1
    return out


def _comp_var_over(fn, var: str, names: set[str]) -> bool:
    for node in ast.walk(fn):
        if isinstance(node, (ast.ListComp, ast.GeneratorExp)):
            for g in node.generators:
                if isinstance(g.target, ast.Name) and g.target.id == var and isinstance(g.iter, ast.Name) and g.iter.id in names:
                    return True
    return False


def replay_unescaped_names():
    from octave_mcp.core.gbnf_compiler import GBNFCompiler
    from octave_mcp.core.schema_extractor import FieldDefinition, SchemaDefinition

    bad = []
    for nm in ('q"uote', "back\\slash", "two\nlines"):
        s = SchemaDefinition(name=nm, version="1.0")
        s.fields[nm] = FieldDefinition(name=nm, pattern=None, raw_value="")
        g = GBNFCompiler().compile_schema(s, include_envelope=True)
        ps = gbnf.check_wellformed(g)
        if ps:
            bad.append(f"name {nm!r}: {ps[0]}")
    return bool(bad), "; ".join(bad[:2]) or "names with quotes / backslash / line break compile to well-formed grammars"


# ---- F2: rule-name allocation -----------------------------------------------------------------------------------------


def ob_rule_names(ctx: Ctx) -> Outcome:
    try:
        fn = extract.find_def(GB, "GBNFCompiler.compile_schema")
        consts = extract.module_consts(GB)
    except ExtractionError as e:
        return Outcome.undecided("ast-shape", str(e))
    reserved = consts.get("_STRUCTURAL_RULE_NAMES")
    if not isinstance(reserved, (set, frozenset)):
        return Outcome.refuted("ast-shape", [Witness(what="compile_schema has no reserved set of structural rule names (_STRUCTURAL_RULE_NAMES)", key="no-reserved-set", input="", replay={"runner": "props.C12:replay_collisions", "args": {}}, confirmed=replay_collisions()[0])], count=4)
    wits = []
    # (a) every rule line appended with a constant head `name ::=` defines a reserved name, once per branch
    defined_const: list[tuple[str, int]] = []
    referenced: set[str] = set()
    for node in ast.walk(fn):
        if isinstance(node, ast.Call) and isinstance(node.func, ast.Attribute) and node.func.attr == "append" and ast.unparse(node.func.value) == "rules" and node.args:
            a = node.args[0]
            head = None
            if isinstance(a, ast.Constant) and isinstance(a.value, str):
                head = a.value
            elif isinstance(a, ast.JoinedStr) and a.values and isinstance(a.values[0], ast.Constant):
                head = a.values[0].value
            elif isinstance(a, ast.JoinedStr):
                head = None
            if head is not None:
                m = re.match(r"^([A-Za-z0-9_-]+) ::= ", head)
                if m:
                    defined_const.append((m.group(1), node.lineno))
                    text = a.value if isinstance(a, ast.Constant) else "".join(v.value if isinstance(v, ast.Constant) else '""' for v in a.values)
                    try:
                        g = gbnf.parse_gbnf(text + "\n")
                        for rname, _, _ in g.refs:
                            referenced.add(rname)
                    except gbnf.GBNFError as e:
                        wits.append(Witness(what=f"compile_schema L{node.lineno}: rule template does not parse: {e}", key=f"template:{m.group(1)}", input=text))
    names = [n for n, _ in defined_const]
    for nm, ln in defined_const:
        if nm not in reserved:
            wits.append(Witness(what=f"compile_schema L{ln}: defines rule `{nm}` which is not in _STRUCTURAL_RULE_NAMES: a field sanitising to `{nm}` would redefine it", key=f"unreserved:{nm}", input=nm, replay={"runner": "props.C12:replay_collisions", "args": {}}, confirmed=replay_collisions()[0]))
    # duplicates among constants are only allowed in exclusive branches (if/else): check by enclosing branch
    for nm in set(names):
        lines = [ln for n, ln in defined_const if n == nm]
        if len(lines) > 1 and not _exclusive(fn, lines):
            wits.append(Witness(what=f"compile_schema defines `{nm}` on lines {lines} that are not mutually exclusive", key=f"twice:{nm}", input=nm))
    for r in referenced:
        if r not in names and r not in ("field",) and r not in reserved:
            wits.append(Witness(what=f"compile_schema references rule `{r}` that it never defines", key=f"undefined:{r}", input=r))
    # (b) the field rule name: allocated by the numbering loop against the used set, recorded, then used as the rule head
    src = ast.unparse(fn)
    need = [
        ("used_rule_names = set(_STRUCTURAL_RULE_NAMES)", "the used set starts from the structural names"),
        ("while rule_name in used_rule_names:", "the name leaves the loop only when unused"),
        ("used_rule_names.add(rule_name)", "the allocated name is recorded"),
    ]
    for text, why in need:
        if text not in src:
            wits.append(Witness(what=f"compile_schema: `{text}` not found ({why})", key=f"alloc:{text[:30]}", input=text, replay={"runner": "props.C12:replay_collisions", "args": {}}, confirmed=replay_collisions()[0]))
    if not wits:
        # order: loop, add, append of the field rule, all in the same for-body; no other store to rule_name after the loop
        loop = next((n for n in ast.walk(fn) if isinstance(n, ast.For) and "schema.fields.items()" in ast.unparse(n.iter)), None)
        if loop is None:
            return Outcome.undecided("ast-shape", "field loop not found")
        kinds = []
        for st in loop.body:
            u = ast.unparse(st)
            if isinstance(st, ast.While) and u.startswith("while rule_name in used_rule_names"):
                kinds.append("loop")
            elif u == "used_rule_names.add(rule_name)":
                kinds.append("add")
            elif u.startswith("rules.append(f'{rule_name} ::= "):
                kinds.append("emit")
            elif isinstance(st, (ast.Assign, ast.AugAssign)) and "rule_name" in {n.id for n in ast.walk(st) if isinstance(n, ast.Name) and isinstance(n.ctx, ast.Store)}:
                kinds.append("store")
        try:
            i_loop, i_add, i_emit = kinds.index("loop"), kinds.index("add"), kinds.index("emit")
        except ValueError:
            return Outcome.undecided("ast-shape", f"field loop body shape changed: {kinds}")
        if not (i_loop < i_add < i_emit) or "store" in kinds[i_loop + 1:]:
            wits.append(Witness(what=f"compile_schema: rule name is modified after the uniqueness loop or emitted before it is recorded (order {kinds})", key="alloc:order", input=str(kinds), replay={"runner": "props.C12:replay_collisions", "args": {}}, confirmed=replay_collisions()[0]))
        # `field ::= (refs)` is built from the allocated names only
        if "field_rule_names.append(rule_name)" not in src or "' | '.join(field_rule_names)" not in src:
            wits.append(Witness(what="compile_schema: the `field` rule is not built from the allocated rule names", key="alloc:field-refs", input=""))
    n = len(defined_const) + len(need) + 2
    if wits:
        failed, text = replay_collisions()
        if not failed:
            # the allocation code no longer has the shape this contract is keyed to, but every collision probe
            # (including numbered fall-back names) compiles without duplicates: not decided here, B1 decides
            return Outcome.undecided("ast-shape", "rule-name allocation has a shape this contract does not recognise (" + "; ".join(w.what[:80] for w in wits[:3]) + f"); probes: {text}")
        for w in wits:
            w.confirmed = True
            w.what += f" — {text}"
            w.replay = {"runner": "props.C12:replay_collisions", "args": {}}
        return Outcome.refuted("ast-shape", wits, count=n)
    return Outcome.ok("ast-shape", count=n, structural=sorted(set(names)), reserved=sorted(reserved))


def _exclusive(fn, lines: list[int]) -> bool:
    """True when the lines lie in different arms of one if/else"""
    for node in ast.walk(fn):
        if isinstance(node, ast.If):
            body_lines = {n.lineno for st in node.body for n in ast.walk(st) if hasattr(n, "lineno")}
            else_lines = {n.lineno for st in node.orelse for n in ast.walk(st) if hasattr(n, "lineno")}
            if any(ln in body_lines for ln in lines) and any(ln in else_lines for ln in lines) and all(ln in body_lines | else_lines for ln in lines):
                inb = [ln for ln in lines if ln in body_lines]
                ine = [ln for ln in lines if ln in else_lines]
                if len(inb) == 1 and len(ine) == 1:
                    return True
    return False


def replay_collisions():
    from octave_mcp.core.gbnf_compiler import GBNFCompiler
    from octave_mcp.core.schema_extractor import FieldDefinition, SchemaDefinition

    bad = []
    for names in (["ROOT_"], ["_content"], ["ws-"], ["Document!"], ["FIELD_"], ["_ROOT_"], ["root."], ["WS"], ["CONTENT"], ["FIELD"], ["ROOT"], ["DOCUMENT"], ["A.B", "a_dot_b"], ["Name", "NAME"], ["x_2", "X", "x"], ["STATUS", "status", "STATUS_2"], ["STATUS_2", "STATUS", "status"], ["CONTENT", "content_2"], ["content_2", "CONTENT"], ["A.B", "a_dot_b", "A.B-2"], ["X", "x", "x_2", "X_2", "x_3"], ["WS", "ws_2", "WS_2"]):
        s = SchemaDefinition(name="S", version="1.0")
        for nm in names:
            s.fields[nm] = FieldDefinition(name=nm, pattern=None, raw_value="")
        for env in (False, True):
            ps = gbnf.check_wellformed(GBNFCompiler().compile_schema(s, include_envelope=env))
            if ps:
                bad.append(f"fields {names}: {ps[0]}")
    return bool(bad), "; ".join(bad[:2]) or "colliding field names compile to grammars without duplicate rules"


# ---- F3: the sanitiser's output alphabet ---------------------------------------------------------------------------------


def ob_sanitiser(ctx: Ctx) -> Outcome:
    """_sanitize_rule_name: every `sanitized.append(x)` appends either `char` under the guard
    `char.isascii() and (char.isalnum() or char == '_')` or the f-string `_u{ord(char):x}_`; later steps only add
    the constant prefix 'r_', replace '__' by '_', strip '_' and fall back to a constant: the result is non-empty and
    over [A-Za-z0-9_] (lower-cased first). Exhaustive cross-check over every single code point and a pair pool."""
    try:
        fn = extract.find_def(GB, "GBNFCompiler._sanitize_rule_name")
    except ExtractionError as e:
        return Outcome.undecided("ast-shape", str(e))
    wits = []
    appends = [n for n in ast.walk(fn) if isinstance(n, ast.Call) and isinstance(n.func, ast.Attribute) and n.func.attr == "append" and ast.unparse(n.func.value) == "sanitized"]
    if not appends:
        return Outcome.undecided("ast-shape", "no `sanitized.append` in _sanitize_rule_name: shape changed")
    for a in appends:
        src = ast.unparse(a.args[0])
        if src == "char":
            guard = _enclosing_test(fn, a)
            if guard != "char.isascii() and (char.isalnum() or char == '_')":
                wits.append(Witness(what=f"_sanitize_rule_name L{a.lineno}: `char` appended under guard `{guard}`", key="append-char-guard", input=guard or ""))
        elif src != "f'_u{ord(char):x}_'":
            wits.append(Witness(what=f"_sanitize_rule_name L{a.lineno}: appends `{src}`", key=f"append:{src}", input=src))
    rets = [ast.unparse(n.value) for n in ast.walk(fn) if isinstance(n, ast.Return)]
    if rets != ["result or 'unnamed_field'"]:
        wits.append(Witness(what=f"_sanitize_rule_name returns {rets}: emptiness fall-back changed", key="return", input=str(rets)))
    # exhaustive single code points + pairs from a pool, on the real function
    from octave_mcp.core.gbnf_compiler import GBNFCompiler

    f = GBNFCompiler()._sanitize_rule_name
    ok_re = re.compile(r"[a-z0-9_]+\Z")
    n = 0
    bad = None
    for cp in itertools.chain(range(0, 0xD800), range(0xE000, 0x110000)):
        n += 1
        r = f(chr(cp))
        if not ok_re.match(r):
            bad = (chr(cp), r)
            break
    if bad is None:
        pool = ["A", "z", "0", "_", "-", ".", "/", "É", "İ", "日", " ", '"', "\\", "\n", "\U0001f600", "9", "ß", "ﬁ"]
        for tup in itertools.product(pool, repeat=3):
            n += 1
            r = f("".join(tup))
            if not ok_re.match(r):
                bad = ("".join(tup), r)
                break
    if bad is not None:
        wits.append(Witness(what=f"_sanitize_rule_name({bad[0]!r}) = {bad[1]!r} is not a rule name over [a-z0-9_]", key=f"value:{bad[0]!r}", input=bad[0], confirmed=True))
    if wits:
        return Outcome.refuted("ast-shape+exhaustive", wits, count=len(appends) + 2)
    return Outcome.ok("ast-shape+exhaustive", count=len(appends) + 2, evaluated_inputs=n)


def _enclosing_test(fn, node) -> str | None:
    for n in ast.walk(fn):
        if isinstance(n, ast.If):
            if any(node in list(ast.walk(st)) for st in n.body):
                inner = _enclosing_test_in(n.body, node)
                return inner if inner is not None else ast.unparse(n.test)
    return None


def _enclosing_test_in(stmts, node) -> str | None:
    for st in stmts:
        for n in ast.walk(st):
            if isinstance(n, ast.If) and any(node in list(ast.walk(x)) for x in n.body):
                inner = _enclosing_test_in(n.body, node)
                return inner if inner is not None else ast.unparse(n.test)
    return None


# ---- F4: routes ---------------------------------------------------------------------------------------------------------


def ob_routes(ctx: Ctx) -> Outcome:
    """Every place in the MCP tools that stores a grammar string (`grammar`, `output` under format gbnf,
    grammar_hint.grammar) obtains it from GBNFCompiler.compile_schema or compile_gbnf_from_meta."""
    sites = []
    wits = []
    for mod, qual in (("octave_mcp.mcp.compile_grammar", "CompileGrammarTool.execute"), ("octave_mcp.mcp.eject", "EjectTool.execute"), ("octave_mcp.mcp.validate", "ValidateTool.execute"), ("octave_mcp.mcp.write", "WriteTool.execute"), ("octave_mcp.core.grammar", None)):
        try:
            tree = extract.find_def(mod, qual) if qual else extract.module_ast(mod)
        except (ExtractionError, AttributeError) as e:
            if qual is None:
                continue
            return Outcome.undecided("ast-shape", str(e))
        producers: dict[str, str] = {}
        for n in ast.walk(tree):
            if isinstance(n, ast.Assign) and len(n.targets) == 1 and isinstance(n.targets[0], ast.Name):
                src = ast.unparse(n.value)
                if "compile_schema(" in src or "compile_gbnf_from_meta(" in src:
                    producers[n.targets[0].id] = src
        for n in ast.walk(tree):
            if isinstance(n, ast.Dict):
                for k, v in zip(n.keys, n.values):
                    if isinstance(k, ast.Constant) and k.value == "grammar":
                        src = ast.unparse(v)
                        sites.append(f"{mod}:{qual or ''}@L{n.lineno}: {src[:60]}")
                        ok = (isinstance(v, ast.Name) and v.id in producers) or "compile_schema(" in src or "compile_gbnf_from_meta(" in src or src in ("grammar", "grammar_str", "gbnf_grammar", "json_schema_str", "gbnf")
                        if not ok:
                            wits.append(Witness(what=f"{mod} L{n.lineno}: `grammar` is filled from `{src[:80]}`, not from the compiler", key=f"{mod}:{src[:40]}", input=src))
    if not sites:
        return Outcome.undecided("ast-shape", "no grammar-returning site found")
    if wits:
        from props import C12_b
        from verif.common import shape_verdict

        def probe():
            o = C12_b.ob_b2(ctx)
            return o.status == "refuted", (o.witnesses[0].what if o.witnesses else "packaged schemas and grammar hints are well-formed")

        return shape_verdict("ast-shape", [w.what for w in wits], probe, len(sites))
    return Outcome.ok("ast-shape", count=len(sites), sites=sites)


def obligations(ctx: Ctx):
    P = PROPERTY
    obs = [
        Ob(f"{P}.R1", "R", "quote + _escape_literal is one GBNF literal denoting exactly the original string, for every string", [f"{GB}:GBNFCompiler._escape_literal"], ob_escape),
        Ob(f"{P}.R2", "R", "REGEX translation is returned only through the _GBNF_SAFE_FRAGMENT filter, whose whole language is well-formed reference-free GBNF", [f"{GB}:GBNFCompiler._compile_regex"], ob_regex_filter),
        Ob(f"{P}.F1", "F", "text between double quotes passes through _escape_literal; constant fragments are well-formed", FUNCS, ob_quoting),
        Ob(f"{P}.F2", "F", "rule names: structural names reserved, field names allocated by the uniqueness loop, every referenced rule defined", [f"{GB}:GBNFCompiler.compile_schema"], ob_rule_names),
        Ob(f"{P}.F3", "F", "_sanitize_rule_name yields a non-empty name over [a-z0-9_]", [f"{GB}:GBNFCompiler._sanitize_rule_name"], ob_sanitiser),
        Ob(f"{P}.F4", "F", "every tool route returns what compile_schema / compile_gbnf_from_meta produced", ["octave_mcp.mcp.compile_grammar:CompileGrammarTool.execute", "octave_mcp.mcp.eject:EjectTool.execute", "octave_mcp.mcp.validate:ValidateTool.execute", "octave_mcp.mcp.write:WriteTool.execute"], ob_routes),
    ]
    try:
        from props import C12_b

        obs.append(Ob(f"{P}.B1", "B", "schemas from the sanitisation / constraint pools through every route, read by the independent GBNF reader", FUNCS, C12_b.ob_b1, timeout=3000))
        obs.append(Ob(f"{P}.B2", "B", "packaged schemas and grammar_hint of INVALID responses", FUNCS, C12_b.ob_b2, timeout=3000))
        obs.append(Ob(f"{P}.B3", "B", "the same grammars under llama.cpp's own rule-name alphabet (no underscore)", FUNCS, C12_b.ob_b3, timeout=600))
    except ImportError:
        pass
    return obs
