"""C10.B1 — bounded product on the four real tools."""
from __future__ import annotations

import asyncio
import itertools
import os
import shutil
import tempfile

from verif.bounded.sweep import sweep
from verif.common import Ctx, Outcome, Witness

RPR = """===RPR===
META:
  TYPE::PROTOCOL_DEFINITION
  VERSION::"1.0"
POLICY:
  VERSION::"1.0"
  UNKNOWN_FIELDS::WARN
FIELDS:
  STATUS::["ACTIVE"∧REQ∧ENUM[DRAFT,ACTIVE]]
  NAME::["n"∧REQ]
===END===
"""
CONTENTS = {
    "valid": '===DOC===\nMETA:\n  TYPE::SESSION_LOG\n  VERSION::"1.0"\n  STATUS::ACTIVE\nRPR:\n  STATUS::ACTIVE\n  NAME::x\n===END===\n',
    "lenient_valid": "===DOC===\nMETA:\n  TYPE::X\n  VERSION::\"1\"\nRPR:\n  STATUS :: ACTIVE\n  NAME::a -> b\n",
    "missing_req": '===DOC===\nMETA:\n  TYPE::SESSION_LOG\nRPR:\n  STATUS::ACTIVE\n===END===\n',
    "bad_enum": '===DOC===\nMETA:\n  TYPE::T\n  VERSION::"1"\n  STATUS::NOPE\nRPR:\n  STATUS::NOPE\n  NAME::x\n===END===\n',
    "casefold": '===DOC===\nMETA:\n  TYPE::T\n  VERSION::"1"\nRPR:\n  STATUS::active\n  NAME::x\n===END===\n',
    "unknown_field": '===DOC===\nMETA:\n  TYPE::T\n  VERSION::"1"\nRPR:\n  STATUS::ACTIVE\n  NAME::x\n  EXTRA::1\n===END===\n',
    "meta_unknown": '===DOC===\nMETA:\n  TYPE::SESSION_LOG\n  VERSION::"1.0"\n  OWNER::"x"\nRPR:\n  STATUS::ACTIVE\n  NAME::x\n===END===\n',
    "null_req": '===DOC===\nMETA:\n  TYPE::T\n  VERSION::"1"\nRPR:\n  STATUS::ACTIVE\n  NAME::null\n===END===\n',
    "empty_req": '===DOC===\nMETA:\n  TYPE::T\n  VERSION::"1"\nRPR:\n  STATUS::ACTIVE\n  NAME::""\n===END===\n',
    "null_enum": '===DOC===\nMETA:\n  TYPE::T\n  VERSION::"1"\nRPR:\n  STATUS::null\n  NAME::x\n===END===\n',
    "unparseable": "===DOC===\nK::[1,2\n===END===\n",
    "tab": "===DOC===\n\tK::1\n===END===\n",
    "empty": "",
    "zone": "===DOC===\nMETA:\n  TYPE::T\n  VERSION::\"1\"\nC::\n```\nx\n```\n===END===\n",
}
SCHEMAS = ["META", "RPR", "NOPE", "../secret", "meta", "rpr", "frozen@sha256:" + "a" * 64, "frozen@sha256:zz", "latest", "META\n", "RPR/..", "", "DEBATE_TRANSCRIPT"]
FOUND = {"META", "RPR", "DEBATE_TRANSCRIPT", "META\n"}
STATUS = {"VALIDATED", "UNVALIDATED", "INVALID"}
_DIR = None


def _cwd():
    global _DIR
    if _DIR is None:
        _DIR = tempfile.mkdtemp(prefix="vf-c10-")
        os.makedirs(os.path.join(_DIR, "specs", "schemas"))
        with open(os.path.join(_DIR, "specs", "schemas", "rpr.oct.md"), "w", encoding="utf-8") as f:
            f.write(RPR)
        os.chdir(_DIR)
        import atexit

        atexit.register(shutil.rmtree, _DIR, True)
    return _DIR


RPR_FIELDS = (("STATUS", "REQ∧ENUM[DRAFT,ACTIVE]"), ("NAME", "REQ"))


def _rpr_blocking(text: str) -> list[str]:
    """independent of Validator._validate_section: the RPR block of the document against the RPR schema's own chains,
    evaluated member by member with the real ConstraintChain (under the C08 contracts). A field written `KEY::null` is
    PRESENT with value None. -> the blocking problems (empty = VALIDATED is backed)"""
    from octave_mcp.core.ast_nodes import Assignment, Block
    from octave_mcp.core.constraints import ConstraintChain
    from octave_mcp.core.parser import parse_with_warnings

    doc, _ = parse_with_warnings(text)
    blk = next((s for s in doc.sections if isinstance(s, Block) and s.key == "RPR"), None)
    if blk is None:
        return []
    fields = {}
    for c in blk.children:
        if isinstance(c, Assignment) and c.key not in fields:
            fields[c.key] = c.value
    out = []
    for name, chain in RPR_FIELDS:
        if name not in fields:
            out.append(f"{name} is required and missing")
            continue
        r = ConstraintChain.parse(chain).evaluate(fields[name], f"RPR.{name}")
        if not r.valid:
            out.append(f"{name}={fields[name]!r} is refused by its own chain {chain} ({[e.code for e in r.errors]})")
    return out


def _check_common(res, tool, problems):
    if not isinstance(res, dict):
        problems.append(f"{tool}: result is {type(res).__name__}")
        return None
    st = res.get("validation_status")
    if st not in STATUS:
        problems.append(f"{tool}: validation_status={st!r}")
    return st


def _one(item):
    from octave_mcp.mcp.compile_grammar import CompileGrammarTool
    from octave_mcp.mcp.eject import EjectTool
    from octave_mcp.mcp.validate import ValidateTool
    from octave_mcp.mcp.write import WriteTool

    _cwd()
    tool, cname, schema, flags = item
    content = CONTENTS[cname]
    problems: list[str] = []
    try:
        if tool == "validate":
            profile, fix, diff_only, compact, dbg, hint = flags
            kw = dict(content=content, schema=schema, fix=fix, diff_only=diff_only, compact=compact, debug_grammar=dbg, grammar_hint=hint)
            if profile is not None:
                kw["profile"] = profile
            res = asyncio.run(ValidateTool().execute(**kw))
            st = _check_common(res, tool, problems)
            if res.get("valid") is not (st == "VALIDATED"):
                problems.append(f"valid={res.get('valid')!r} but validation_status={st}")
            if st == "VALIDATED" and schema not in FOUND:
                problems.append(f"VALIDATED for schema argument {schema!r} that names no schema")
            if st in ("VALIDATED", "INVALID") and cname in ("unparseable", "tab"):
                problems.append(f"{st} although the content does not parse")
            if res.get("status") == "error" and st != "UNVALIDATED":
                problems.append(f"status=error with validation_status={st}")
            if st == "INVALID":
                if (profile or "STANDARD").upper() not in ("STRICT", "STANDARD"):
                    problems.append(f"INVALID under profile {profile}")
                n = len(res.get("validation_errors") or []) or (res.get("validation_error_count", 0) if compact else 0)
                if n < 1:
                    problems.append("INVALID without a validation error")
                if not res.get("schema_name") or not res.get("schema_version"):
                    problems.append("INVALID without schema_name/schema_version")
            if st == "VALIDATED" and schema == "RPR" and (profile or "STANDARD").upper() in ("STRICT", "STANDARD"):
                blocking = _rpr_blocking(res["canonical"] if isinstance(res.get("canonical"), str) and not diff_only else content)
                if blocking and not (diff_only and fix):
                    problems.append(f"VALIDATED although the schema's own chains refuse the document: {blocking}")
            if st == "VALIDATED" and not diff_only and isinstance(res.get("canonical"), str):
                # the text returned as VALIDATED (repaired or not) is valid under the same schema and profile
                kw2 = dict(kw)
                kw2["content"] = res["canonical"]
                kw2["fix"] = False
                r2 = asyncio.run(ValidateTool().execute(**kw2))
                if r2.get("validation_status") != "VALIDATED":
                    problems.append(f"canonical text returned as VALIDATED re-validates as {r2.get('validation_status')}")
        elif tool == "write":
            lenient, dry, dbg, hint = flags
            p = os.path.join(_cwd(), f"w{os.getpid()}.oct.md")
            res = asyncio.run(WriteTool().execute(target_path=p, content=content, schema=schema or None, lenient=lenient, corrections_only=dry, debug_grammar=dbg, grammar_hint=hint))
            st = _check_common(res, tool, problems)
            if st == "VALIDATED" and schema not in FOUND:
                problems.append(f"VALIDATED for schema argument {schema!r} that names no schema")
            if res.get("status") == "error" and st != "UNVALIDATED":
                problems.append(f"status=error with validation_status={st}")
            if st == "INVALID" and (not res.get("validation_errors") or not res.get("schema_name") or not res.get("schema_version")):
                problems.append("INVALID without validation_errors / schema name / version")
            if st == "VALIDATED" and schema == "RPR" and not lenient:
                blocking = _rpr_blocking(content)
                if blocking:
                    problems.append(f"VALIDATED although the schema's own chains refuse the document: {blocking}")
            if os.path.exists(p):
                os.unlink(p)
        elif tool == "eject":
            mode, fmt = flags
            try:
                res = asyncio.run(EjectTool().execute(content=content if cname != "empty" else None, schema=schema, mode=mode, format=fmt))
                st = _check_common(res, tool, problems)
                if st != "UNVALIDATED":
                    problems.append(f"eject returned {st}")
            except TypeError:
                pass  # serialisation defects are C20's concern
        else:
            (fmt,) = flags
            res = asyncio.run(CompileGrammarTool().execute(schema=schema, format=fmt) if cname == "empty" else CompileGrammarTool().execute(content=content, format=fmt))
            st = _check_common(res, tool, problems)
            if st != "UNVALIDATED":
                problems.append(f"compile_grammar returned {st}")
    except Exception as e:  # noqa: BLE001
        return None  # raising is C20's concern
    if problems:
        return True, f"{tool}(content={cname}, schema={schema!r}, flags={flags}): {problems[0]}", True, item
    return False, "", True, item


def items(ctx: Ctx):
    B = (False, True)
    for cname in CONTENTS:
        for schema in SCHEMAS:
            for profile in (None, "STRICT", "STANDARD", "LENIENT", "ULTRA", "lenient", "BOGUS"):
                flagsets = itertools.product(B, B, B, B, B) if (ctx.thorough or (profile in (None, "STRICT", "LENIENT") and schema in ("META", "RPR", "NOPE", "meta"))) else [(False, False, False, False, False), (True, True, True, True, True)]
                for f in flagsets:
                    yield ("validate", cname, schema, (profile,) + tuple(f))
            for f in itertools.product(B, B, B, B):
                yield ("write", cname, schema, f)
        for mode in ("canonical", "authoring", "executive", "developer"):
            for fmt in ("octave", "json", "yaml", "markdown", "gbnf"):
                yield ("eject", cname, "META", (mode, fmt))
        for fmt in ("gbnf", "json_schema", "bogus"):
            yield ("grammar", cname, "META", (fmt,))
    for schema in SCHEMAS:
        for fmt in ("gbnf", "json_schema"):
            yield ("grammar", "empty", schema, (fmt,))


def replay(item):
    item = (item[0], item[1], item[2], tuple(item[3]))
    r = _one(item)
    if r is None:
        return False, "tool raised (C20)"
    return r[0], r[1] or "envelope satisfies the C10 postconditions"


def ob_b1(ctx: Ctx) -> Outcome:
    res = sweep(_one, items(ctx), ctx.cores, chunk=80)
    wits = []
    seen = set()
    for item, text in res["failures"][:2000]:
        key = f"{item[0]}|{item[1]}|{item[2]}|{text.split(': ', 1)[1][:60] if ': ' in text else text[:60]}"
        if key in seen:
            continue
        seen.add(key)
        wits.append(Witness(what=text, input=list(item), key=key, replay={"runner": "props.C10_b:replay", "args": {"item": [item[0], item[1], item[2], list(item[3])]}}, confirmed=True))
    extra = dict(bound=f"{len(CONTENTS)} contents (valid, lenient, each kind of invalid, unparseable, tab, empty, zone) x {len(SCHEMAS)} schema arguments (packaged, generated on the search path, unknown, path-like, lower-case, frozen@ good/bad shape, latest, trailing newline) x 7 profile arguments x boolean flag combinations (all 2^5 for the main combinations in quick, everywhere in thorough) for validate; x 2^4 for write; 4 modes x 5 formats for eject; 3 formats for compile_grammar",
                 evaluations=res["evaluations"], distinct_nontrivial=res["distinct"], rule="a case is (tool, content, schema argument, flags); distinct by tuple; non-trivial: the tool returned an envelope", samples=[["validate", "missing_req", "RPR", ["STRICT", False, False, True, False, True]]])
    if wits:
        return Outcome.refuted("real tools", wits[:60], **extra)
    return Outcome.ok("real tools", **extra)


ob_b1.wants_all_cores = True


# ---- B2: the CLI's `octave validate` agrees with the tool whenever it claims VALIDATED --------------------------------------------
CLI_SCHEMAS = ["META", "SKILL", "DEBATE_TRANSCRIPT", "RPR", "NOPE", "meta", "../x"]
CLI_DOCS = {
    "plain": '===D===\nMETA:\n  TYPE::T\n  VERSION::"1"\nK::1\n===END===\n',
    "rpr_valid": CONTENTS["valid"],
    "rpr_bad": CONTENTS["bad_enum"],
    "casefold": CONTENTS["casefold"],
    "frontmatter": '---\nname: demo\ndescription: d\n---\n\n===S===\nMETA:\n  TYPE::SKILL\n  VERSION::"1.0"\nBODY::x\n===END===\n',
    "unparseable": CONTENTS["unparseable"],
}


def _cli_one(item):
    import re as _re

    from click.testing import CliRunner

    from octave_mcp.cli.main import cli
    from octave_mcp.mcp.validate import ValidateTool

    dname, schema, fix = item
    d = _cwd()
    p = os.path.join(d, f"cli{os.getpid()}.oct.md")
    with open(p, "w", encoding="utf-8") as f:
        f.write(CLI_DOCS[dname])
    args = ["validate", p, "--schema", schema] + (["--fix"] if fix else [])
    res = CliRunner().invoke(cli, args, catch_exceptions=True)
    out = res.output or ""
    problems = []
    if res.exception is not None and not isinstance(res.exception, SystemExit):
        problems.append(f"raised {type(res.exception).__name__}: {res.exception}")
    m = _re.search(r"^validation_status: (\w+)$", out, _re.M)
    st = m.group(1) if m else None
    if st is not None and st not in STATUS:
        problems.append(f"validation_status {st!r}")
    if st == "VALIDATED":
        tool = asyncio.run(ValidateTool().execute(content=CLI_DOCS[dname], schema=schema, fix=fix))
        if tool.get("validation_status") != "VALIDATED":
            problems.append(f"the CLI prints VALIDATED, octave_validate with the same content / schema / fix says {tool.get('validation_status')} {[e.get('code') for e in tool.get('validation_errors', [])]}")
        if schema not in FOUND:
            problems.append(f"VALIDATED for schema argument {schema!r} that names no schema")
        canon = out[: m.start()].rstrip("\n") + "\n"
        t2 = asyncio.run(ValidateTool().execute(content=canon, schema=schema))
        if t2.get("status") == "success" and t2.get("validation_status") != "VALIDATED":
            problems.append(f"the canonical text the CLI printed as VALIDATED re-validates as {t2.get('validation_status')}")
    if st == "INVALID" and res.exit_code == 0:
        problems.append("INVALID with exit code 0")
    if problems:
        return True, f"octave validate --schema {schema}{' --fix' if fix else ''} on {dname}: {problems[0]}", True, item
    return False, "", True, item


def replay_cli(item):
    r = _cli_one(tuple(item))
    return r[0], r[1] or "CLI and tool agree"


def ob_b2(ctx: Ctx) -> Outcome:
    items_ = [(d, s, f) for d in CLI_DOCS for s in CLI_SCHEMAS for f in (False, True)]
    res = sweep(_cli_one, items_, 1, chunk=8)
    wits = [Witness(what=text, input=list(item), key=f"cli|{item[1]}|{item[2]}", replay={"runner": "props.C10_b:replay_cli", "args": {"item": list(item)}}, confirmed=True) for item, text in res["failures"][:12]]
    extra = dict(bound=f"`octave validate FILE --schema S [--fix]` for {len(CLI_DOCS)} documents x {len(CLI_SCHEMAS)} schema arguments x fix on/off through click's runner: status line well-formed; a VALIDATED claim is backed by octave_validate on the same input and on the printed canonical text; INVALID exits non-zero", evaluations=res["evaluations"], distinct_nontrivial=res["distinct"], rule="a case is one CLI invocation")
    if wits:
        return Outcome.refuted("real CLI", wits, **extra)
    return Outcome.ok("real CLI", **extra)
