"""C13.B — bounded: derivations of the compiled field rules, through the real reader and the real chain."""
from __future__ import annotations

import asyncio
import itertools
import random
import re

from props import C12_b
from verif import gbnf
from verif.bounded.sweep import sweep
from verif.common import Ctx, Outcome, Witness

DECIDING = [
    "CONST[ACTIVE]", "CONST[5]", "CONST[-3]", "CONST[1.5]", "CONST[true]", "CONST[false]", "CONST[null]", 'CONST["a b"]', 'CONST["q\\"uote"]', 'CONST["back\\\\slash"]', 'CONST["é"]', 'CONST[""]',
    'CONST["vs"]', 'CONST["#tag"]', 'CONST["a,b"]', 'CONST["[x]"]', 'CONST["x//y"]', 'CONST["007"]', 'CONST["true"]', 'CONST["A->B"]', 'CONST["line\\nbreak"]', 'CONST["tab\\there"]', "CONST[A-B]", "CONST[a.b]", "CONST[NAME<q>]",
    "ENUM[A,B]", "ENUM[ACTIVE,ACTIVATING,DONE]", "ENUM[DRAFT,DRAFT_REVIEW,DONE]", "ENUM[A,AB,ABC]", "ENUM[GET,GETALL,PUT]", "ENUM[A,A]", "ENUM[1,10,100]", "ENUM[5,6]", 'ENUM["a b",c]', 'ENUM["q\\"x",B]', "ENUM[A]", "ENUM[é,日本]", "ENUM[true,false]", "ENUM[null,x]", "ENUM[vs,x]", 'ENUM["#t",z]', 'ENUM["x//y",z]', "ENUM[A-B,c]", 'ENUM["1.0",x]', 'ENUM["",x]', "ENUM[a.b,c/d]", 'ENUM["A→B",x]',
    "TYPE[BOOLEAN]", "TYPE[NUMBER]", "DATE", "ISO8601",
]
WRAP = [[], ["REQ"], ["OPT"]]
NAMES = ["F", "STATUS", "my_field", "A.B", "x-y", "é", "WS", "CONTENT", "a/b"]  # names the OCTAVE reader accepts as keys

NUMBER_SAMPLES = ["0", "5", "-5", "007", "-0", "0.5", "-0.5", "00.00", "1.0", "123456789012345678901234567890", "0.000000000000000000000000000001", "9" * 310, "9" * 310 + ".9", "1" * 4300, "-" + "1" * 4299, "3.14159", "10", "-10.01", "1.", ".5", "1e5", "+5", "--5", "5-", "1.2.3", "", " 5", "5 "]
DATE_SAMPLES = ["2024-01-15", "2024-02-29", "2023-02-28", "2000-02-29", "1999-12-31", "0001-01-01", "9999-12-31", "2024-12-01", "2024-1-5", "20240115", "2024-01-15 ", "2024-01-15T10:00:00"]
BAD_DATES = ["2023-02-29", "1900-02-29", "2024-02-30", "2024-04-31", "2024-13-01", "2024-00-10", "2024-01-00", "2024-01-32", "0000-01-01", "9999-99-99"]
ISO_SAMPLES = ["2024-01-15T10:00:00", "2024-01-15T10:00:00Z", "2024-01-15T23:59:59+02:00", "2024-01-15T00:00:00-11:30", "2024-02-29T12:00:00Z", "2024-01-15T10:00", "2024-01-15T10:00:00.5Z", "2024-01-15t10:00:00Z", "2024-01-15T10:00:00+0200"]
BAD_ISO = ["2024-01-15T24:00:00", "2024-01-15T10:60:00", "2024-01-15T10:00:60", "2024-01-15T99:99:99Z", "2024-01-15T10:00:00+24:00", "2024-01-15T10:00:00+02:60", "2023-02-29T10:00:00Z"]


def cases(seed: int, thorough: bool):
    rng = random.Random(seed)
    out = []
    for d in DECIDING:
        for w in WRAP:
            out.append(("api", "F", w + [d]))
        out.append(("contract", "F", ["REQ", d]))
        out.append(("fields", "F", ["REQ", d]))
    for n in NAMES:
        for d in ("ENUM[A,B]", "TYPE[NUMBER]", "CONST[true]", "DATE"):
            out.append(("api", n, ["REQ", d]))
            out.append(("contract", n, ["REQ", d]))
    # the deciding member is not first (REQ / OPT after it)
    for d in DECIDING:
        if rng.random() < (1.0 if thorough else 0.3):
            out.append(("api", "F", [d, rng.choice(["REQ", "OPT"])]))
    return out


def field_rule_name(g: gbnf.Grammar) -> str | None:
    """the (only) field rule: referenced from `field`"""
    fld = g.rules.get("field")
    if fld is None:
        return None
    names = []

    def walk(n):
        if isinstance(n, gbnf.Ref):
            names.append(n.name)
        for attr in ("items", "options"):
            for x in getattr(n, attr, []) or []:
                walk(x)
        if isinstance(n, gbnf.Repeat):
            walk(n.item)

    walk(fld)
    return names[0] if len(names) == 1 else None


def derivations(g: gbnf.Grammar, rule: str, field: str, chain: list[str], rng: random.Random, thorough: bool) -> tuple[list[str], bool]:
    """lines derivable from the field rule: exhaustive when the rule is finite and small, else candidate lines
    filtered by grammar membership (boundary sampling); second component: exhaustive?"""
    deciding = next(c for c in chain if c not in ("REQ", "OPT"))
    seps = ["", " ", "   "]
    if deciding.startswith(("CONST", "ENUM", "TYPE[BOOLEAN]")):
        try:
            ds = list(gbnf.derive(g, rule, max_len=200, max_count=400))
        except Exception:  # noqa: BLE001
            ds = []
        if ds and len(ds) < 400:
            return ds, True
        return ds, False
    if deciding == "TYPE[NUMBER]":
        cand = NUMBER_SAMPLES + [str(rng.randint(-10**k, 10**k)) for k in (1, 3, 9, 18, 40)] + [f"{rng.randint(0, 10**6)}.{rng.randint(0, 10**6):06d}" for _ in range(6)]
    elif deciding == "DATE":
        cand = ['"' + x + '"' for x in DATE_SAMPLES + BAD_DATES] + DATE_SAMPLES[:3]
        for _ in range(40 if thorough else 10):
            cand.append('"%04d-%02d-%02d"' % (rng.randint(0, 9999), rng.randint(0, 13), rng.randint(0, 32)))
    else:
        cand = ['"' + x + '"' for x in DATE_SAMPLES + BAD_DATES + ISO_SAMPLES + BAD_ISO] + ISO_SAMPLES[:2]
        for _ in range(40 if thorough else 10):
            cand.append('"%04d-%02d-%02dT%02d:%02d:%02d%s"' % (rng.randint(1, 9999), rng.randint(1, 12), rng.randint(1, 28), rng.randint(0, 25), rng.randint(0, 61), rng.randint(0, 61), rng.choice(["", "Z", "+05:30", "-00:00", "+25:00"])))
    lines = []
    for c in cand:
        for s in seps:
            line = f"{field}::{s}{c}"
            if gbnf.matches(g, rule, line):
                lines.append(line)
    return lines, False


_CASES: list = []
_THOROUGH = False


def route_chain(route: str, field: str, chain: list[str]):
    """the chain object the compiler was given on this route (the schema reader's own reading of the chain text)"""
    from octave_mcp.core.constraints import ConstraintChain
    from octave_mcp.core.parser import parse

    if route == "fields":
        from octave_mcp.core.schema_extractor import extract_schema_from_document

        sch = extract_schema_from_document(parse(C12_b.fields_doc("SCH", [(field, chain)])))
        fd = sch.fields.get(field)
        return fd.pattern.constraints if fd is not None and fd.pattern is not None else None
    if route == "contract":
        from octave_mcp.core.gbnf_compiler import _extract_contract_field_specs, parse_contract_field

        doc = parse(C12_b.contract_doc("T", [(field, chain)]))
        for spec in _extract_contract_field_specs(doc.meta.get("CONTRACT")):
            try:
                name, ch = parse_contract_field(spec)
            except ValueError:
                continue
            if name == field:
                return ch
        return None
    return ConstraintChain.parse("∧".join(chain))


def check_line(line: str, field: str, chain_text):
    from octave_mcp.core.constraints import ConstraintChain
    from octave_mcp.core.parser import parse

    text = "===D===\n" + line + "\n===END===\n"
    try:
        d = parse(text)
    except Exception as e:  # noqa: BLE001
        return f"refused by the reader: {type(e).__name__}: {str(e)[:100]}"
    secs = list(d.sections)
    if len(secs) != 1 or getattr(secs[0], "key", None) != field or not hasattr(secs[0], "value"):
        return f"read as {[(getattr(n, 'key', None), getattr(n, 'value', None)) for n in secs]!r}"[:200]
    ch = ConstraintChain.parse(chain_text) if isinstance(chain_text, str) else chain_text
    r = ch.evaluate(secs[0].value, field)
    if not r.valid:
        return f"read as {secs[0].value!r} ({type(secs[0].value).__name__}) and rejected by the chain: {r.errors[0].message[:100] if r.errors else ''}"
    return None


def classify(line: str, chain: list[str], problem: str) -> str:
    d = next(c for c in chain if c not in ("REQ", "OPT"))
    if d == "DATE" or d == "ISO8601":
        inner = line.split("::", 1)[1].strip().strip('"')
        date_ok = bool(re.fullmatch(r"\d{4}-\d{2}-\d{2}.*", inner))
        if date_ok and "rejected by the chain" in problem:
            return f"{d}|derived-text-is-not-a-valid-{'date' if d == 'DATE' else 'datetime'}"
    if "REQ" in chain and ("is required but got" in problem):
        return "REQ|deciding-value-is-empty-or-null"
    if d == "TYPE[NUMBER]" and "too large" in problem:
        return "TYPE[NUMBER]|int-digit-limit"
    if "NAME<" in d and ("Unexpected character" in problem):
        return "CONST|annotation-qualifier"
    return f"{d.split('[')[0]}|other"


def _one(idx: int):
    route, field, chain = _CASES[idx]
    rng = random.Random(idx * 7919 + 13)
    chain_text = "∧".join(chain)
    try:
        gs = C12_b.grammars_for(route, "S" if route == "api" else ("SCH" if route == "fields" else "T"), [(field, chain)])
    except Exception as e:  # noqa: BLE001
        return True, f"exception|compiler raised {type(e).__name__}: {str(e)[:120]} | {route} {field} {chain}", True, idx
    if not gs:
        return False, "", False, idx
    try:
        chain_obj = route_chain(route, field, chain)
    except Exception:  # noqa: BLE001
        chain_obj = None
    if chain_obj is None:
        return False, "", False, idx  # the schema reader did not take the field definition
    n = 0
    for where, gtext in gs[:1] if not _THOROUGH else gs:
        try:
            g = gbnf.parse_gbnf(gtext)
        except gbnf.GBNFError as e:
            return True, f"illformed|{where}: {e} | {route} {field} {chain}", True, idx
        rule = field_rule_name(g)
        if rule is None:
            if "field" not in g.rules:
                continue  # the schema reader did not take the field definition (not in the domain of the property)
            return True, f"shape|{where}: cannot identify the field rule | {gtext[:200]!r}", True, idx
        lines, exhaustive = derivations(g, rule, field, chain, rng, _THOROUGH)
        if not lines:
            return True, f"no-derivation|{where}: no line could be derived from rule {rule} (chain {chain_text}) | grammar {gtext[:300]!r}", True, idx
        for line in lines:
            n += 1
            p = check_line(line, field, chain_obj)
            if p:
                return True, f"{classify(line, chain, p)}|chain {chain_text} (as read on this route: {chain_obj.to_string() if hasattr(chain_obj, 'to_string') else chain_obj!r}): generated line {line[:100]!r} is {p} | route {where}", True, idx
    return False, "", n > 0, idx


def replay(seed: int, thorough: bool, idx: int):
    global _CASES, _THOROUGH
    _CASES, _THOROUGH = cases(seed, thorough), thorough
    failed, text, _, _ = _one(idx)
    return failed, text or "every derived line is read and accepted"


def replay_selection():
    """probe chains where priority matters: the compiled fragment must be that of the most specific member"""
    from octave_mcp.core.constraints import ConstraintChain
    from octave_mcp.core.gbnf_compiler import GBNFCompiler

    bad = []
    c = GBNFCompiler()
    for chain, expect in (("ENUM[A,B]∧CONST[A]", "CONST[A]"), ("TYPE[STRING]∧ENUM[A,B]", "ENUM[A,B]"), ("TYPE[NUMBER]∧REQ", "TYPE[NUMBER]"), ("DATE∧TYPE[STRING]", "TYPE[STRING]"), ("REQ∧DATE", "DATE"), ('TYPE[STRING]∧REGEX["^[a-z]+$"]', 'REGEX["^[a-z]+$"]'), ("REQ∧OPT", "REQ")):
        got = c.compile_chain(ConstraintChain.parse(chain))
        want = c.compile_chain(ConstraintChain.parse(expect))
        if got != want:
            bad.append(f"{chain} compiles to {got!r}, expected the fragment of {expect}: {want!r}")
    return bool(bad), "; ".join(bad[:2]) or "priority probes agree"


def replay_spelling():
    bad = []
    for chain, line_value in (("CONST[true]", None), ("CONST[null]", None), ('CONST["a b"]', None), ("ENUM[5,6]", None), ("ENUM[vs,x]", None)):
        from octave_mcp.core.constraints import ConstraintChain
        from octave_mcp.core.gbnf_compiler import GBNFCompiler

        frag = GBNFCompiler().compile_chain(ConstraintChain.parse(chain))
        g = gbnf.parse_gbnf("root ::= " + frag + "\n")
        for d in gbnf.derive(g, "root", max_len=60, max_count=20):
            p = check_line("F::" + d, "F", chain)
            if p:
                bad.append(f"{chain}: derived {d!r} is {p}")
    return bool(bad), "; ".join(bad[:2]) or "CONST/ENUM probe derivations are read and accepted"


def ob_b1(ctx: Ctx) -> Outcome:
    global _CASES, _THOROUGH
    _CASES, _THOROUGH = cases(ctx.seed, ctx.thorough), ctx.thorough
    n = len(_CASES)
    res = sweep(_one, range(n), ctx.cores, chunk=20)
    wits, seen = [], set()
    for idx, text in res["failures"][:5000]:
        parts = text.split("|", 2)
        key = "|".join(parts[:2])
        if key in seen:
            continue
        seen.add(key)
        wits.append(Witness(what=(parts[2] if len(parts) > 2 else text)[:1200], input={"case_index": idx, "case": repr(_CASES[idx])}, key=key, replay={"runner": "props.C13_b:replay", "args": {"seed": ctx.seed, "thorough": ctx.thorough, "idx": idx}}, confirmed=True))
    extra = dict(
        bound=f"{n} single-field schemas: {len(DECIDING)} deciding members (CONST/ENUM over plain words, numbers, booleans, null, strings that need quoting: spaces, quotes, backslash, operators and aliases, '#', comma, brackets, '//', numeric look-alikes, empty, non-ASCII, line break, tab; TYPE[BOOLEAN], TYPE[NUMBER], DATE, ISO8601) alone / with REQ / with OPT before or after it; {len(NAMES)} field names; routes compile_schema, FIELDS document and META.CONTRACT document through octave_compile_grammar (+ octave_eject in thorough); derivations: exhaustive for finite rules (< 400 strings), else {len(NUMBER_SAMPLES)} number / {len(DATE_SAMPLES) + len(BAD_DATES)} date / {len(ISO_SAMPLES) + len(BAD_ISO)} datetime boundary candidates + seeded random ones, each x 3 separators, kept only when the independent GBNF interpreter derives them from the compiled rule",
        evaluations=res["evaluations"],
        distinct_nontrivial=res["nontrivial"],
        rule="a case is one schema with all lines derived for it; distinct by generator index; non-trivial: at least one line was derived and checked",
        samples=[repr(_CASES[i]) for i in (0, n // 2, n - 1)],
        failing_schemas=len(res["failures"]),
    )
    if wits:
        return Outcome.refuted("reference GBNF interpreter + real reader + real chain", wits, **extra)
    return Outcome.ok("reference GBNF interpreter + real reader + real chain", **extra)


ob_b1.wants_all_cores = True
