"""C15 — a seal verifies on the sealed content and on nothing else."""
from __future__ import annotations

import z3

from contracts import sealer as SC
from verif.common import Ctx, Ob, Outcome, Witness
from verif.pyvc.adapter import contract_ob

PROPERTY = "C15"
LEVEL = "other"
LEVEL_TEXT = "in-memory seal algebra proved: contracts on the real _remove_seal_section, compute_seal, seal_document, verify_seal (VCs from the AST, z3; emit and SHA-256 uninterpreted) and a z3 lemma over those contracts (seal then verify = VERIFIED, re-seal gives the same hash, any different stored hash = INVALID, no seal = NO_SEAL); tamper evidence needs emit injective on content and the text round trip needs C01: both rest on bounded premises and are explored by single-site mutation of sealed documents"
LEVEL_NOTE = "A-sha (SHA-256 injective, 64 hex digits), emit is a function of the content signature (C01.F1), str.strip facts as axioms; document shapes: Document[Assignment, Section(k1), Block, Section(k2 with seal-like children)] with symbolic keys"
TECHNIQUE = "pre/postconditions on the real sealer functions discharged by z3 with uninterpreted emit/sha256; property-level z3 lemma; bounded tamper/respelling sweep"
EXPLANATION = "C15: P contracts on the four sealer functions, L lemma, B: every model document sealed, verified in memory and through text, re-sealed, every single-site mutation of the sealed text must verify INVALID, cosmetic rewrites VERIFIED."
ASSUMPTIONS = ["A-sha: sha256 is injective with 64 lower-case hex digits", "emit reads content only (C01.F1 proved) and is injective on content (C01 round trip, bounded)", "str.strip('\"') axioms: unchanged without quotes at the ends; inverse of quoting"]
TRUSTED_BASE = ["z3", "verif.pyvc"]
FUNCS = ["octave_mcp.core.sealer:seal_document", "octave_mcp.core.sealer:verify_seal", "octave_mcp.core.sealer:_remove_seal_section", "octave_mcp.core.sealer:compute_seal", "octave_mcp.core.sealer:extract_seal"]


def ob_lemma(ctx: Ctx) -> Outcome:
    """C15.L1 over the contracts: R = content without SEAL sections, E = emit, H = sha256.
      (P3) hash(seal(d)) = H(E(R(d)))   and   R(seal(d)) = R(d)          [sections = R(d).sections ++ [SEAL], header copied]
      (P4) verify(x) = VERIFIED iff H(E(R(x))) = strip(hash(x)) ; NO_SEAL iff x has no SEAL data
      (A)  strip(H(s)) = H(s); |H(s)| = 64; a 64-character string h with strip(h) = H(s) is H(s) itself"""
    D = z3.DeclareSort("Doc")
    S = z3.StringSort()
    R = z3.Function("R", D, D)
    E = z3.Function("E", D, S)
    H = z3.Function("H", S, S)
    seal = z3.Function("seal", D, D)
    stored = z3.Function("stored_hash", D, S)
    has_seal = z3.Function("has_seal", D, z3.BoolSort())
    verified = z3.Function("verified", D, z3.BoolSort())
    invalid = z3.Function("invalid", D, z3.BoolSort())
    noseal = z3.Function("noseal", D, z3.BoolSort())
    strip = z3.Function("strip", S, S)
    with_hash = z3.Function("with_hash", D, S, D)  # same document, stored hash replaced
    d = z3.Const("d", D)
    s = z3.Const("s", S)
    h = z3.Const("h", S)
    ax = [
        z3.ForAll([d], z3.And(stored(seal(d)) == H(E(R(d))), R(seal(d)) == R(d), has_seal(seal(d)))),
        z3.ForAll([d], z3.And(verified(d) == z3.And(has_seal(d), H(E(R(d))) == strip(stored(d))), invalid(d) == z3.And(has_seal(d), H(E(R(d))) != strip(stored(d))), noseal(d) == z3.Not(has_seal(d)))),
        z3.ForAll([s], z3.And(strip(H(s)) == H(s), z3.Length(H(s)) == 64)),
        z3.ForAll([s], z3.Or(strip(s) == s, z3.Length(strip(s)) < z3.Length(s))),
        z3.ForAll([d, h], z3.And(R(with_hash(d, h)) == R(d), stored(with_hash(d, h)) == h, has_seal(with_hash(d, h)) == has_seal(d))),
    ]
    goals = {
        "seal_then_verify": verified(seal(d)),
        "reseal_same_hash": stored(seal(seal(d))) == stored(seal(d)),
        "different_64_char_hash_is_invalid": z3.Implies(z3.And(z3.Length(h) == 64, h != stored(seal(d))), invalid(with_hash(seal(d), h))),
        "no_seal_reports_no_seal": z3.Implies(z3.Not(has_seal(d)), z3.And(noseal(d), z3.Not(verified(d)), z3.Not(invalid(d)))),
    }
    n = 0
    for name, g in goals.items():
        sv = z3.Solver()
        sv.set("timeout", 20000)
        sv.add(*ax)
        sv.add(z3.Not(g))
        r = sv.check()
        if r != z3.unsat:
            return Outcome.undecided("z3", f"lemma {name}: {r}")
        n += 1
    return Outcome.ok("z3", count=n)


def ob_file_safe_escapes(ctx: Ctx) -> Outcome:
    """C15.F1 — a sealed FILE is read back in text mode (universal newlines: CR and CRLF arrive as LF). Every character
    the reader can DECODE from a backslash escape must therefore either be written back as an escape by the emitter's
    chain or be a character text-mode reading leaves alone; otherwise a value spelled with that escape is hashed
    with one character, written raw, and read back as another (the untouched sealed file stops verifying).
    Decided on the two tables read from the source (the lexer's unescape table, the emitter's escape chain)."""
    from props import C15_b
    from props import lexical as LX

    try:
        kind, data = LX.lexer_unescape()
        chain, _ = LX.emit_escape_chain()
    except Exception as e:  # noqa: BLE001 - ExtractionError and friends: the shape is decided by the file probe
        from verif.common import shape_verdict

        return shape_verdict("ast-shape", [f"escape tables not readable: {e}"], lambda: C15_b.probe_sealed_files(), count=1, replay={"runner": "props.C15_b:probe_sealed_files", "args": {}})
    decoded = set(data.values()) if kind == "table" else {b for _, b in data}
    escaped = {a for a, _ in chain}
    rewritten = {"\r", "\r\n"}  # what universal-newlines reading replaces by LF
    wits = []
    n = 0
    for ch in sorted(decoded):
        n += 1
        if any(r in ch for r in ("\r",)) and not any(ch == a or (len(a) == 1 and a in ch) for a in escaped):
            failed, text = C15_b.probe_sealed_files()
            wits.append(Witness(what=f"the reader decodes an escape to {ch!r}, the emitter writes that character raw, and text-mode reading turns it into LF — {text[:400]}", key=f"decoded-raw|{ch!r}", input=repr(ch), replay={"runner": "props.C15_b:probe_sealed_files", "args": {}}, confirmed=failed))
    if wits:
        if not any(w.confirmed for w in wits):
            return Outcome.undecided("ast-shape", "; ".join(w.what[:200] for w in wits))
        return Outcome.refuted("ast-shape+table", wits, count=max(n, 1))
    return Outcome.ok("ast-shape+table", count=max(n, 1), decoded=sorted(decoded), escaped=sorted(escaped), rewritten_by_text_mode=sorted(rewritten))


def probe_whitespace_tamper():
    """a sealed document with a literal zone / frontmatter, tampered ONLY in white space at the end of a zone or frontmatter line
    (content by C05): must be INVALID. -> (fails, text)"""
    from octave_mcp.core.emitter import emit
    from octave_mcp.core.parser import parse
    from octave_mcp.core.sealer import SealStatus, seal_document, verify_seal

    bad = []
    src = ['===D===\nK::\n```md\nline one  \nline two\n```\nJ::1\n===END===\n', '---\ntitle: a\nbody: |\n  x\n---\n===D===\nJ::1\n===END===\n']
    for text in src:
        sealed = emit(seal_document(parse(text)))
        for a, b in (("line one  \n", "line one\n"), ("line two\n", "line two \t\n"), ("title: a\n", "title: a  \n")):
            if a not in sealed:
                continue
            t = sealed.replace(a, b, 1)
            d2 = parse(t)
            if emit(d2) == sealed:
                continue
            st = verify_seal(d2).status
            if st != SealStatus.INVALID:
                bad.append(f"sealed {sealed!r}; tampered only in trailing white space of a verbatim line {b!r}: verifies as {st.value}")
    return bool(bad), "; ".join(bad[:2]) or "trailing-white-space tampers of zone / frontmatter lines are INVALID"


def replay_whitespace_tamper():
    return probe_whitespace_tamper()


def ob_plain_emission(ctx: Ctx) -> Outcome:
    """F2: the text a seal is computed over / verified against is the PLAIN canonical emission: every call of `emit` in the
    sealer module passes the document and nothing else (format options run a line-based pass - trailing-space strip, blank
    line / indent normalisation - that does not know literal zones or frontmatter, so distinct contents would share a text)."""
    import ast

    from verif import extract
    from verif.common import shape_verdict

    M = "octave_mcp.core.sealer"
    try:
        tree = extract.module_ast(M)
    except Exception as e:  # noqa: BLE001
        return Outcome.undecided("ast-shape", f"{type(e).__name__}: {e}")
    problems, n = [], 0
    emit_names = {"emit"}
    for node in ast.walk(tree):
        if isinstance(node, ast.ImportFrom) and node.module and node.module.endswith("emitter"):
            for al in node.names:
                if al.name == "emit":
                    emit_names.add(al.asname or al.name)
    for node in ast.walk(tree):
        if isinstance(node, ast.Call) and ((isinstance(node.func, ast.Name) and node.func.id in emit_names) or (isinstance(node.func, ast.Attribute) and node.func.attr == "emit")):
            n += 1
            if len(node.args) != 1 or node.keywords or isinstance(node.args[0], ast.Starred):
                problems.append(f"sealer L{node.lineno}: `{ast.unparse(node)[:80]}` passes more than the document to emit")
        elif isinstance(node, ast.Name) and node.id in emit_names and isinstance(node.ctx, ast.Load):
            pass
    # emit handed on as a value (partial, alias) would escape the call check
    calls = {id(c.func) for c in ast.walk(tree) if isinstance(c, ast.Call)}
    for node in ast.walk(tree):
        if isinstance(node, ast.Name) and node.id in emit_names and isinstance(node.ctx, ast.Load) and id(node) not in calls:
            problems.append(f"sealer L{node.lineno}: `emit` is used as a value (alias / partial): the call check does not see how it is called")
    if n == 0:
        problems.append("no call of emit found in the sealer module")
    if problems:
        return shape_verdict("ast-shape", problems, probe_whitespace_tamper, max(n, 1), {"runner": "props.C15:replay_whitespace_tamper", "args": {}})
    return Outcome.ok("ast-shape", count=n)


def obligations(ctx: Ctx):
    P = PROPERTY
    obs = [
        contract_ob(f"{P}.P1", "_remove_seal_section: non-SEAL members in order, header copied, input untouched", lambda: SC.REMOVE, "contracts.sealer:REMOVE"),
        contract_ob(f"{P}.P2.gv", "compute_seal: HASH is the quoted sha256 of the content (with grammar version)", lambda: SC.COMPUTE, "contracts.sealer:COMPUTE"),
        contract_ob(f"{P}.P2.nogv", "compute_seal: no GRAMMAR without version", lambda: SC.COMPUTE_NOGV, "contracts.sealer:COMPUTE_NOGV"),
        contract_ob(f"{P}.P3", "seal_document: unsealed members ++ SEAL(SCOPE, ALGORITHM, HASH = sha256(emit(unsealed)))", lambda: SC.SEAL, "contracts.sealer:SEAL"),
        contract_ob(f"{P}.P4.full", "verify_seal: VERIFIED iff sha256(emit(unsealed)) == stripped stored hash; first SEAL section decides", lambda: SC.VERIFY, "contracts.sealer:VERIFY"),
        contract_ob(f"{P}.P4.empty", "verify_seal: a SEAL section without assignments is NO_SEAL", lambda: SC.VERIFY_EMPTY, "contracts.sealer:VERIFY_EMPTY"),
        Ob(f"{P}.F2", "F", "the sealed / verified text is the plain canonical emission: every call of emit in the sealer passes the document only (no format options, whose line-based pass would strip white space inside literal zones and frontmatter)", ["octave_mcp.core.sealer:seal_document", "octave_mcp.core.sealer:verify_seal"], ob_plain_emission),
        Ob(f"{P}.L1", "L", "seal algebra: verify∘seal = VERIFIED, re-seal stable, changed hash INVALID, no seal NO_SEAL", FUNCS, ob_lemma),
    ]
    try:
        from props import C15_b

        obs.append(Ob(f"{P}.F1", "F", "sealed files: every character the reader decodes from an escape is either re-escaped by the emitter or left alone by text-mode reading (no CR decoded and written raw)", ["octave_mcp.core.lexer:tokenize", "octave_mcp.core.emitter:emit_value"], ob_file_safe_escapes))
        obs.append(Ob(f"{P}.B3", "B", "sealed files through the CLI: seal -o, validate --verify-seal on the file, re-seal; every escape form, LF and CRLF-stored sources", FUNCS, C15_b.ob_b3, timeout=1200))
        obs.append(Ob(f"{P}.B2", "B", "a change of the TYPE of one leaf (404 vs \"404\", true vs \"true\", null vs \"null\") under any key, in any position, invalidates the seal", FUNCS, C15_b.ob_b2, timeout=3000))
        obs.append(Ob(f"{P}.B1", "B", "model documents: seal/verify in memory and through text, re-seal, single-site tampering => INVALID, cosmetic respelling => VERIFIED", FUNCS, C15_b.ob_b1, timeout=3000))
    except ImportError:
        pass
    return obs
