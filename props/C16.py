"""C16 — writes are all-or-nothing at every interruption point."""
from __future__ import annotations

from props import fsproto as FP
from verif.common import Ctx, Ob

PROPERTY = "C16"
LEVEL = "other"
LEVEL_TEXT = "the property is a typestate fact about the structured write block; it is decided on the real AST of both write sites (WriteTool.execute, atomic_write_octave): the temp file is created by mkstemp in the target's directory, every exception between mkstemp and replace unlinks it and is re-raised, the only call that writes the target path is os.replace(temp, target) and it is the last step after write+flush+fsync (and the pre-replace verification, whose failing branch unlinks the temp file), the original permission bits are copied with fchmod before the replace, the returned canonical_hash is the hash of exactly the text handed to f.write, and no file-system mutation exists before the dry-run return or in any callee (effect closure). From these facts every interruption leaves the target old-or-new and every returned error leaves no temp file; atomicity of os.replace on one file system and the kernel's write semantics are assumed. The bounded harness then interrupts the real code at every file-system call boundary (kill before/after, five errnos, pairs in thorough) in 22 scenarios"
LEVEL_NOTE = "assumptions: POSIX rename atomicity for os.replace within one directory; a kill is a process kill (page cache kept), power loss / missing directory fsync are outside the model; shape deviations are reported undecided unless the fault harness shows a failing point"
TECHNIQUE = "protocol (typestate) contracts and effect-order/dominance obligations decided on the real AST + effect closure of the call graph; bounded fault-injection and kill-point sweep of the real write paths as cross-check"
EXPLANATION = "C16: F1 mutations only after the dry-run return and in no callee; F2/F3 temp-file protocol of both write sites; F4 hash of the written text; B1 fault/kill sweep over 22 scenarios."
ASSUMPTIONS = ["os.replace is atomic within one directory (POSIX rename)", "fault model of verif/bounded/fsharness.py: process kill, not power loss; outermost gated call only", "exceptions raised by the interpreter itself (MemoryError, KeyboardInterrupt) are outside `except Exception`"]
TRUSTED_BASE = ["verif.frames", "verif.bounded.fsharness"]
FUNCS = ["octave_mcp.mcp.write:WriteTool.execute", "octave_mcp.core.file_ops:atomic_write_octave"]


def obligations(ctx: Ctx):
    P = PROPERTY
    obs = [
        Ob(f"{P}.F1", "F", "no file-system mutation before the dry-run return of execute, none in its callees", FUNCS[:1], FP.ob_mutations_after_dry_return),
        Ob(f"{P}.F2", "F", "WriteTool.execute: mkstemp(same dir) / cleanup-and-reraise / fchmod, write+flush+fsync, verify, os.replace last; nothing else writes the target", FUNCS[:1], FP.ob_protocol(FP.WRITE, "WriteTool.execute", "target_path", "canonical_content", "wt_overwrite_hashok")),
        Ob(f"{P}.F3", "F", "atomic_write_octave: the same temp-file protocol", FUNCS[1:], FP.ob_protocol(FP.FOPS, "atomic_write_octave", "target_path", "content", "at_overwrite_hashok")),
        Ob(f"{P}.F5", "F", "execute reports success only from the dry-run branch or after the write block (no early success return)", FUNCS[:1], FP.ob_success_after_replace),
        Ob(f"{P}.F4", "F", "canonical_hash is the hash of exactly the text written", FUNCS[:1], FP.ob_hash_of_written),
    ]
    try:
        from props import C16_b

        obs.append(Ob(f"{P}.B1", "B", "every file-system call boundary as kill point and injected failure, 22 scenarios (pairs in thorough)", FUNCS, C16_b.ob_b1, timeout=6000))
    except ImportError:
        pass
    return obs
