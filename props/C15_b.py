"""C15.B1 — bounded: seal / verify / tamper on model documents through the real code."""
from __future__ import annotations

import random
import re

from props import docs_b
from verif.bounded import model as M
from verif.bounded.sweep import sweep
from verif.common import Ctx, Outcome, Witness

_CFG: dict = {}


def mutations(sealed: str, rng: random.Random):
    """single-site content mutations of the sealed canonical text (outside the SEAL section), and one hash character"""
    lines = sealed.split("\n")
    try:
        seal_at = next(i for i, ln in enumerate(lines) if ln.startswith("§SEAL::"))
    except StopIteration:
        return
    body = list(range(1, seal_at))
    for i in body:
        ln = lines[i]
        m = re.match(r"^(\s*)([A-Za-z_][A-Za-z0-9_]*)::(.+)$", ln)
        if m and not ln.strip().startswith(("//",)):
            ind, k, v = m.groups()
            yield "rename-key", "\n".join(lines[:i] + [f"{ind}{k}X::{v}"] + lines[i + 1:])
            if v not in ("[",):
                yield "replace-value", "\n".join(lines[:i] + [f"{ind}{k}::tampered"] + lines[i + 1:])
            if re.fullmatch(r"-?\d+", v):
                yield "retype-value", "\n".join(lines[:i] + [f'{ind}{k}::"{v}"'] + lines[i + 1:])
            yield "delete-line", "\n".join(lines[:i] + lines[i + 1:]) if not v.startswith("[") or v.endswith("]") else sealed
            yield "insert-line", "\n".join(lines[:i] + [f"{ind}NEWKEY::1"] + lines[i:])
    if len(body) >= 2:
        a, b = body[0], body[-1]
        if re.match(r"^[A-Za-z_]\w*::[^\[]*$", lines[a]) and re.match(r"^[A-Za-z_]\w*::[^\[]*$", lines[b]) and lines[a] != lines[b]:
            sw = list(lines)
            sw[a], sw[b] = sw[b], sw[a]
            yield "move", "\n".join(sw)
    # white space at the end of a line INSIDE a literal zone or the frontmatter is content (C05): adding or removing it is tampering
    fence = None
    for i in range(0, seal_at):
        ln = lines[i]
        fm = re.match(r"^( *)(`{3,})", ln)
        if fence is None and fm:
            fence = fm.group(2)
            continue
        if fence is not None and fm and fm.group(2) == fence and ln.strip() == fence:
            fence = None
            continue
        if fence is not None:
            if ln != ln.rstrip():
                yield "zone-strip-trailing-space", "\n".join(lines[:i] + [ln.rstrip()] + lines[i + 1:])
            else:
                yield "zone-add-trailing-space", "\n".join(lines[:i] + [ln + "  "] + lines[i + 1:])
                yield "zone-add-trailing-tab", "\n".join(lines[:i] + [ln + "\t"] + lines[i + 1:])
            break
    if lines and lines[0] == "---":
        try:
            close = lines.index("---", 1)
            for i in range(1, close):
                yield "frontmatter-trailing-space", "\n".join(lines[:i] + [lines[i] + "  "] + lines[i + 1:])
                break
        except ValueError:
            pass
    # content added AFTER the seal section (the seal covers the whole document, not a prefix of it)
    try:
        end_at = max(i for i, ln in enumerate(lines) if ln == "===END===")
        yield "append-after-seal", "\n".join(lines[:end_at] + ["AFTER_SEAL::1"] + lines[end_at:])
        yield "append-block-after-seal", "\n".join(lines[:end_at] + ["AFTERB:", "  X::1"] + lines[end_at:])
        yield "append-section-after-seal", "\n".join(lines[:end_at] + ["§7::LATE", "  X::1"] + lines[end_at:])
        # a further section KEYED SEAL: the hash is taken over the document without its SEAL sections, so its content must not ride along
        yield "append-second-seal-section", "\n".join(lines[:end_at] + ["§9::SEAL", "  EVIL::1"] + lines[end_at:])
        yield "insert-second-seal-section-before", "\n".join(lines[:seal_at] + ["§9::SEAL", "  EVIL::1"] + lines[seal_at:])
    except ValueError:
        pass
    m = re.match(r"^===(\w+)===$", lines[0]) if lines else None
    if m:
        yield "envelope-name", "\n".join([f"==={m.group(1)}X==="] + lines[1:])
    for i, ln in enumerate(lines):
        hm = re.match(r"^(\s*HASH::)([0-9a-f]{64})$", ln)
        if hm:
            hx = hm.group(2)
            for pos in (0, 31, 63):
                c = "0" if hx[pos] != "0" else "1"
                yield "hash-char", "\n".join(lines[:i] + [hm.group(1) + hx[:pos] + c + hx[pos + 1:]] + lines[i + 1:])


def _one(idx: int):
    from octave_mcp.core.emitter import emit
    from octave_mcp.core.parser import parse, parse_with_warnings
    from octave_mcp.core.sealer import SealStatus, seal_document, verify_seal

    m = docs_b.docs(*_CFG["docs"])[idx]
    feats = docs_b.features(m) & docs_b.KNOWN_FEATURES
    c0 = M.render_canonical(m)
    try:
        doc = parse(c0)
    except Exception:  # noqa: BLE001
        return None
    fails = []
    if verify_seal(doc).status != SealStatus.NO_SEAL and not any(getattr(s, "key", None) == "SEAL" for s in doc.sections):
        fails.append("document without a seal does not report NO_SEAL")
    sealed = seal_document(doc)
    if verify_seal(sealed).status != SealStatus.VERIFIED:
        fails.append("sealed document does not verify in memory")
    text = emit(sealed)
    try:
        back = parse(text)
        if verify_seal(back).status != SealStatus.VERIFIED:
            fails.append(f"sealed document does not verify after being written out and read back: {text!r}")
        again = emit(seal_document(back))
        if again != text:
            fails.append("sealing a sealed document gives a different seal")
    except Exception as e:  # noqa: BLE001
        fails.append(f"sealed text is not readable: {type(e).__name__}: {e}")
        back = None
    rng = random.Random(_CFG["seed"] * 31 + idx)
    n_mut = 0
    if back is not None and not fails:
        for kind, mt in mutations(text, rng):
            if mt == text:
                continue
            try:
                d2 = parse(mt)
            except Exception:  # noqa: BLE001
                continue
            # only mutations that really change the content read count as tampering
            try:
                if emit(d2) == text:
                    continue
            except Exception:  # noqa: BLE001
                continue
            n_mut += 1
            st = verify_seal(d2).status
            if st != SealStatus.INVALID:
                fails.append(f"tampering ({kind}) verifies as {st.value}: {mt!r}")
                break
        # cosmetic respellings of the sealed text
        for t, inj in M.render_all_lenient(m, 3, rng):
            try:
                dl, _ = parse_with_warnings(t)
                sl = seal_document(dl)
                if emit(sl) != text and not feats:
                    fails.append(f"cosmetic respelling seals differently: {t!r}")
                    break
            except Exception:  # noqa: BLE001
                continue
    if fails:
        return True, f"{fails[0]} | document {c0!r} | model features {sorted(feats)}", n_mut > 0, idx
    return False, "", n_mut > 0, idx


def replay(docs_cfg, seed, idx):
    _CFG.update(docs=tuple(docs_cfg), seed=seed)
    r = _one(idx)
    if r is None:
        return False, "document does not parse"
    return r[0], r[1] or "seal behaves as the property says"


def ob_b1(ctx: Ctx) -> Outcome:
    docs_cfg = (2, 2, ctx.seed, 12000 if ctx.thorough else 3000)
    _CFG.update(docs=docs_cfg, seed=ctx.seed)
    n = len(docs_b.docs(*docs_cfg))
    res = sweep(_one, range(n), ctx.cores, chunk=40)
    wits = []
    seen = set()
    for idx, text in res["failures"][:2000]:
        m = docs_b.docs(*docs_cfg)[idx]
        feats = sorted(docs_b.features(m) & docs_b.KNOWN_FEATURES)
        key = f"{text.split(':', 1)[0][:50]}|{','.join(feats) if feats else 'no-known-feature'}"
        if key in seen:
            continue
        seen.add(key)
        wits.append(Witness(what=text[:1200], input={"doc_index": idx}, key=key, replay={"runner": "props.C15_b:replay", "args": {"docs_cfg": list(docs_cfg), "seed": ctx.seed, "idx": idx}}, confirmed=True))
    extra = dict(bound=f"{n} model documents: seal, verify in memory, emit+parse+verify, re-seal, every single-site mutation of the sealed text that changes the content read (rename key, replace value, retype value, delete/insert line, move, envelope name, 3 hash characters, an assignment / block / section appended after the seal), 3 cosmetic respellings",
                 evaluations=res["evaluations"], distinct_nontrivial=res["nontrivial"], rule="a case is a model document with all its mutations; distinct by index; non-trivial: at least one content-changing mutation was applicable", samples=[M.render_canonical(docs_b.docs(*docs_cfg)[0])], failing_documents=len(res["failures"]))
    if wits:
        return Outcome.refuted("real sealer", wits, **extra)
    return Outcome.ok("real sealer", **extra)


ob_b1.wants_all_cores = True


# ---- B2: a pure value-TYPE change of one leaf is tampering, under every key ----------------------------------------------------
def _content(x):
    """position-free, type-sensitive content of an AST (what 'the document says')"""
    import dataclasses

    if dataclasses.is_dataclass(x) and not isinstance(x, type):
        return (type(x).__name__,) + tuple((f.name, _content(getattr(x, f.name))) for f in dataclasses.fields(x) if f.name not in ("line", "column", "tokens", "raw_pattern"))
    if isinstance(x, dict):
        return ("dict",) + tuple((k, _content(v)) for k, v in x.items())
    if isinstance(x, (list, tuple)):
        return ("list",) + tuple(_content(v) for v in x)
    return (type(x).__name__, repr(x))


TYPE_KEYS = ("K", "PATTERN", "REGEX", "TYPE", "ENUM", "VERSION_X", "STATUS")
TYPE_VALUES = ((404, "404"), (0, "0"), (-7, "-7"), (2.5, "2.5"), (True, "true"), (False, "false"), (None, "null"))


def type_toggle_cases():
    """(document as built through the API, the same document with ONE leaf's type toggled) - assignments, list items,
    inline-map values and block children, under ordinary and constructor-looking keys"""
    from octave_mcp.core.ast_nodes import Assignment, Block, Document, InlineMap, ListValue

    for key in TYPE_KEYS:
        for a, b in TYPE_VALUES:
            yield f"{key}::{a!r} vs {b!r}", Document(name="D", sections=[Assignment(key=key, value=a), Assignment(key="Z", value="z")]), Document(name="D", sections=[Assignment(key=key, value=b), Assignment(key="Z", value="z")])
            yield f"[{key}::{a!r}] vs {b!r}", Document(name="D", sections=[Assignment(key="L", value=ListValue(items=[InlineMap(pairs={key: a}), "x"]))]), Document(name="D", sections=[Assignment(key="L", value=ListValue(items=[InlineMap(pairs={key: b}), "x"]))])
            yield f"B:{key}::{a!r} vs {b!r}", Document(name="D", sections=[Block(key="B", children=[Assignment(key=key, value=a)])]), Document(name="D", sections=[Block(key="B", children=[Assignment(key=key, value=b)])])
    for a, b in TYPE_VALUES:
        yield f"[{a!r},x] vs {b!r}", Document(name="D", sections=[Assignment(key="L", value=ListValue(items=[a, "x"]))]), Document(name="D", sections=[Assignment(key="L", value=ListValue(items=[b, "x"]))])
        yield f"META.F {a!r} vs {b!r}", Document(name="D", meta={"TYPE": "T", "F": a}, sections=[Assignment(key="K", value=1)]), Document(name="D", meta={"TYPE": "T", "F": b}, sections=[Assignment(key="K", value=1)])


def _toggle_one(i: int):
    from octave_mcp.core.emitter import emit
    from octave_mcp.core.parser import parse
    from octave_mcp.core.sealer import SealStatus, seal_document, verify_seal

    label, d1, d2 = list(type_toggle_cases())[i]
    sealed1 = seal_document(d1)
    # in memory: d2's content carrying d1's SEAL section (the two ASTs differ in the type of one leaf)
    import copy

    seal_nodes = [s for s in sealed1.sections if getattr(s, "key", None) == "SEAL"]
    if seal_nodes and _content(d1.sections) != _content(d2.sections) or _content(d1.meta) != _content(d2.meta):
        forged = copy.deepcopy(d2)
        forged.sections = list(forged.sections) + copy.deepcopy(seal_nodes)
        st0 = verify_seal(forged).status
        if st0 != SealStatus.INVALID:
            return f"{label}: in memory, a document differing from the sealed one only in the TYPE of one leaf verifies as {st0.value} under the other's seal (both canonicalise to {emit(d1)!r})"
    text1 = emit(sealed1)
    back1 = parse(text1)
    if verify_seal(back1).status != SealStatus.VERIFIED:
        return f"{label}: the sealed document does not verify after write + read: {text1!r}"
    # the tampered document: d2's content with d1's seal section
    seal_sec = [s for s in back1.sections if getattr(s, "key", None) == "SEAL" or type(s).__name__ == "Section" and getattr(s, "key", "") == "SEAL"]
    text2 = emit(seal_document(d2))
    h1 = re.search(r"HASH::\"?([0-9a-f]{64})", text1)
    h2 = re.search(r"HASH::\"?([0-9a-f]{64})", text2)
    if not h1 or not h2:
        return f"{label}: no HASH line in the sealed text"
    tampered_text = text2.replace(h2.group(1), h1.group(1))
    t = parse(tampered_text)
    body1 = [s for s in back1.sections if s not in seal_sec]
    if _content([s for s in t.sections if getattr(s, "key", None) != "SEAL"]) == _content([s for s in body1 if getattr(s, "key", None) != "SEAL"]) and _content(t.meta) == _content(back1.meta):
        return None  # the two spellings read as the same content (e.g. the emitter's documented auto-quote of a bare PATTERN word): not a tamper
    st = verify_seal(t).status
    if st != SealStatus.INVALID:
        return f"{label}: a document whose content differs only in the TYPE of one leaf carries the other's seal and verifies as {st.value}: sealed {text1!r} | tampered {tampered_text!r}"
    return None


def replay_toggle(i: int):
    p = _toggle_one(i)
    return bool(p), p or "type toggle is detected (INVALID) or reads as the same content"


def ob_b2(ctx: Ctx) -> Outcome:
    cases = list(type_toggle_cases())
    wits = []
    for i in range(len(cases)):
        try:
            p = _toggle_one(i)
        except Exception as e:  # noqa: BLE001
            p = None if type(e).__name__ in ("ParserError", "LexerError") else f"{cases[i][0]}: {type(e).__name__}: {e}"
        if p:
            wits.append(Witness(what=p[:900], input={"case": i}, key=f"type-toggle|{cases[i][0].split(' ')[0][:20]}", replay={"runner": "props.C15_b:replay_toggle", "args": {"i": i}}, confirmed=True))
    extra = dict(bound=f"{len(cases)} pairs of API-built documents differing in the type of one leaf (int / float / bool / null vs the string of the same spelling) as assignment, inline-map value, block child (keys {list(TYPE_KEYS)}), list item and META field: the seal of one must not verify the other", evaluations=len(cases), distinct_nontrivial=len(cases), rule="a case is one pair")
    if wits:
        return Outcome.refuted("real sealer", wits[:10], **extra)
    return Outcome.ok("real sealer", **extra)


# ---- B3: sealed FILES (the CLI writes the sealed text; a later process reads it back in text mode) --------------------------
FILE_STRINGS = ['a\\nb', 'a\\tb', 'a\\\\b', 'say \\"hi\\"', 'progress 10%\\rprogress 100%', '\\r?\\n', 'a\\\\rb', 'a\\\\nb', "a b", "a\u0085b", "a\x0bb", "a\x0cb", "tail\\\\", "é x", "a\\qb", "\\u0041"]


def _sealed_file_one(i: int):
    """(failed, text): `octave seal IN -o OUT`, then `octave validate OUT --verify-seal --require-seal` in a fresh
    CliRunner call, then re-seal OUT: an untouched sealed file verifies and re-sealing it keeps the hash"""
    import os
    import re
    import tempfile

    from click.testing import CliRunner

    from octave_mcp.cli.main import cli

    body = FILE_STRINGS[i % len(FILE_STRINGS)]
    crlf = i >= len(FILE_STRINGS)
    src = f'===DOC===\nMETA:\n  TYPE::X\nK::"{body}"\nL::["{body}",x]\n===END===\n'
    if crlf:
        src = src.replace("\n", "\r\n")
    runner = CliRunner()
    with tempfile.TemporaryDirectory(prefix="vf-c15-") as td:
        a, b, c = (os.path.join(td, n) for n in ("in.oct.md", "out.oct.md", "again.oct.md"))
        with open(a, "w", encoding="utf-8", newline="") as f:
            f.write(src)
        r1 = runner.invoke(cli, ["seal", a, "-o", b])
        if r1.exit_code != 0:
            return False, f"not sealable: {r1.output.strip()[:100]}"
        r2 = runner.invoke(cli, ["validate", b, "--verify-seal", "--require-seal"])
        label = f"string body {body!r}{' (CRLF-stored input)' if crlf else ''}"
        if r2.exit_code != 0 or "VERIFIED" not in r2.output:
            return True, f"{label}: the untouched sealed file does not verify: exit {r2.exit_code}, {r2.output.strip()[-160:]!r}; sealed bytes {open(b, 'rb').read()[:200]!r}"
        r3 = runner.invoke(cli, ["seal", b, "-o", c])
        h = [re.findall(r'HASH::"([0-9a-f]{64})"', open(p, encoding="utf-8", newline="").read()) for p in (b, c)] if r3.exit_code == 0 else None
        if h is None or h[0] != h[1]:
            return True, f"{label}: sealing the sealed file again gives a different seal ({h})"
    return False, "verified"


def replay_sealed_file(i: int):
    return _sealed_file_one(i)


def ob_b3(ctx: Ctx) -> Outcome:
    n = 2 * len(FILE_STRINGS)
    wits = []
    ran = 0
    for i in range(n):
        failed, text = _sealed_file_one(i)
        ran += 0 if text.startswith("not sealable") else 1
        if failed:
            wits.append(Witness(what=text[:900], input={"case": i}, key=f"sealed-file|{FILE_STRINGS[i % len(FILE_STRINGS)]!r}", replay={"runner": "props.C15_b:replay_sealed_file", "args": {"i": i}}, confirmed=True))
    extra = dict(bound=f"{len(FILE_STRINGS)} string bodies (every escape form, unknown escapes, the backslash-r spelling, Unicode line separators, VT / FF) as an assignment and a list item x LF / CRLF-stored input: octave seal -o, octave validate --verify-seal --require-seal on the file, octave seal on the sealed file", evaluations=n, distinct_nontrivial=ran, rule="a case is one source file through three CLI calls")
    if ran == 0:
        return Outcome.undecided("real CLI on files", "no case could be sealed")
    if wits:
        return Outcome.refuted("real CLI on files", wits[:8], **extra)
    return Outcome.ok("real CLI on files", **extra)


def probe_sealed_files():
    bad = []
    for i in range(2 * len(FILE_STRINGS)):
        failed, text = _sealed_file_one(i)
        if failed:
            bad.append(text)
    return bool(bad), "; ".join(bad[:2]) or f"{2 * len(FILE_STRINGS)} sealed files verify untouched and re-seal to the same hash"
