"""C15.B1 — bounded: seal / verify / tamper on model documents through the real code."""
from __future__ import annotations

import random
import re

from props import docs_b
from verif.bounded import model as M
from verif.bounded.sweep import sweep
from verif.common import Ctx, Outcome, Witness

_CFG: dict = {}


def mutations(sealed: str, rng: random.Random):
    """single-site content mutations of the sealed canonical text (outside the SEAL section), and one hash character"""
    lines = sealed.split("\n")
    try:
        seal_at = next(i for i, ln in enumerate(lines) if ln.startswith("§SEAL::"))
    except StopIteration:
        return
    body = list(range(1, seal_at))
    for i in body:
        ln = lines[i]
        m = re.match(r"^(\s*)([A-Za-z_][A-Za-z0-9_]*)::(.+)$", ln)
        if m and not ln.strip().startswith(("//",)):
            ind, k, v = m.groups()
            yield "rename-key", "\n".join(lines[:i] + [f"{ind}{k}X::{v}"] + lines[i + 1:])
            if v not in ("[",):
                yield "replace-value", "\n".join(lines[:i] + [f"{ind}{k}::tampered"] + lines[i + 1:])
            if re.fullmatch(r"-?\d+", v):
                yield "retype-value", "\n".join(lines[:i] + [f'{ind}{k}::"{v}"'] + lines[i + 1:])
            yield "delete-line", "\n".join(lines[:i] + lines[i + 1:]) if not v.startswith("[") or v.endswith("]") else sealed
            yield "insert-line", "\n".join(lines[:i] + [f"{ind}NEWKEY::1"] + lines[i:])
    if len(body) >= 2:
        a, b = body[0], body[-1]
        if re.match(r"^[A-Za-z_]\w*::[^\[]*$", lines[a]) and re.match(r"^[A-Za-z_]\w*::[^\[]*$", lines[b]) and lines[a] != lines[b]:
            sw = list(lines)
            sw[a], sw[b] = sw[b], sw[a]
            yield "move", "\n".join(sw)
    # content added AFTER the seal section (the seal covers the whole document, not a prefix of it)
    try:
        end_at = max(i for i, ln in enumerate(lines) if ln == "===END===")
        yield "append-after-seal", "\n".join(lines[:end_at] + ["AFTER_SEAL::1"] + lines[end_at:])
        yield "append-block-after-seal", "\n".join(lines[:end_at] + ["AFTERB:", "  X::1"] + lines[end_at:])
        yield "append-section-after-seal", "\n".join(lines[:end_at] + ["§7::LATE", "  X::1"] + lines[end_at:])
    except ValueError:
        pass
    m = re.match(r"^===(\w+)===$", lines[0]) if lines else None
    if m:
        yield "envelope-name", "\n".join([f"==={m.group(1)}X==="] + lines[1:])
    for i, ln in enumerate(lines):
        hm = re.match(r"^(\s*HASH::)([0-9a-f]{64})$", ln)
        if hm:
            hx = hm.group(2)
            for pos in (0, 31, 63):
                c = "0" if hx[pos] != "0" else "1"
                yield "hash-char", "\n".join(lines[:i] + [hm.group(1) + hx[:pos] + c + hx[pos + 1:]] + lines[i + 1:])


def _one(idx: int):
    from octave_mcp.core.emitter import emit
    from octave_mcp.core.parser import parse, parse_with_warnings
    from octave_mcp.core.sealer import SealStatus, seal_document, verify_seal

    m = docs_b.docs(*_CFG["docs"])[idx]
    feats = docs_b.features(m) & docs_b.KNOWN_FEATURES
    c0 = M.render_canonical(m)
    try:
        doc = parse(c0)
    except Exception:  # noqa: BLE001
        return None
    fails = []
    if verify_seal(doc).status != SealStatus.NO_SEAL and not any(getattr(s, "key", None) == "SEAL" for s in doc.sections):
        fails.append("document without a seal does not report NO_SEAL")
    sealed = seal_document(doc)
    if verify_seal(sealed).status != SealStatus.VERIFIED:
        fails.append("sealed document does not verify in memory")
    text = emit(sealed)
    try:
        back = parse(text)
        if verify_seal(back).status != SealStatus.VERIFIED:
            fails.append(f"sealed document does not verify after being written out and read back: {text!r}")
        again = emit(seal_document(back))
        if again != text:
            fails.append("sealing a sealed document gives a different seal")
    except Exception as e:  # noqa: BLE001
        fails.append(f"sealed text is not readable: {type(e).__name__}: {e}")
        back = None
    rng = random.Random(_CFG["seed"] * 31 + idx)
    n_mut = 0
    if back is not None and not fails:
        for kind, mt in mutations(text, rng):
            if mt == text:
                continue
            try:
                d2 = parse(mt)
            except Exception:  # noqa: BLE001
                continue
            # only mutations that really change the content read count as tampering
            try:
                if emit(d2) == text:
                    continue
            except Exception:  # noqa: BLE001
                continue
            n_mut += 1
            st = verify_seal(d2).status
            if st != SealStatus.INVALID:
                fails.append(f"tampering ({kind}) verifies as {st.value}: {mt!r}")
                break
        # cosmetic respellings of the sealed text
        for t, inj in M.render_all_lenient(m, 3, rng):
            try:
                dl, _ = parse_with_warnings(t)
                sl = seal_document(dl)
                if emit(sl) != text and not feats:
                    fails.append(f"cosmetic respelling seals differently: {t!r}")
                    break
            except Exception:  # noqa: BLE001
                continue
    if fails:
        return True, f"{fails[0]} | document {c0!r} | model features {sorted(feats)}", n_mut > 0, idx
    return False, "", n_mut > 0, idx


def replay(docs_cfg, seed, idx):
    _CFG.update(docs=tuple(docs_cfg), seed=seed)
    r = _one(idx)
    if r is None:
        return False, "document does not parse"
    return r[0], r[1] or "seal behaves as the property says"


def ob_b1(ctx: Ctx) -> Outcome:
    docs_cfg = (2, 2, ctx.seed, 12000 if ctx.thorough else 3000)
    _CFG.update(docs=docs_cfg, seed=ctx.seed)
    n = len(docs_b.docs(*docs_cfg))
    res = sweep(_one, range(n), ctx.cores, chunk=40)
    wits = []
    seen = set()
    for idx, text in res["failures"][:2000]:
        m = docs_b.docs(*docs_cfg)[idx]
        feats = sorted(docs_b.features(m) & docs_b.KNOWN_FEATURES)
        key = f"{text.split(':', 1)[0][:50]}|{','.join(feats) if feats else 'no-known-feature'}"
        if key in seen:
            continue
        seen.add(key)
        wits.append(Witness(what=text[:1200], input={"doc_index": idx}, key=key, replay={"runner": "props.C15_b:replay", "args": {"docs_cfg": list(docs_cfg), "seed": ctx.seed, "idx": idx}}, confirmed=True))
    extra = dict(bound=f"{n} model documents: seal, verify in memory, emit+parse+verify, re-seal, every single-site mutation of the sealed text that changes the content read (rename key, replace value, retype value, delete/insert line, move, envelope name, 3 hash characters, an assignment / block / section appended after the seal), 3 cosmetic respellings",
                 evaluations=res["evaluations"], distinct_nontrivial=res["nontrivial"], rule="a case is a model document with all its mutations; distinct by index; non-trivial: at least one content-changing mutation was applicable", samples=[M.render_canonical(docs_b.docs(*docs_cfg)[0])], failing_documents=len(res["failures"]))
    if wits:
        return Outcome.refuted("real sealer", wits, **extra)
    return Outcome.ok("real sealer", **extra)


ob_b1.wants_all_cores = True
