"""C02 — canonicalisation preserves document content exactly."""
from functools import partial

from props import docs_b
from props import rawchars_b
from props import lexical as LX
from verif import extract
from verif.common import Ctx, Ob, Outcome, Witness

PROPERTY = "C02"
LEVEL = "exploration"
LEVEL_TEXT = "bounded exhaustive exploration against an independent content model (the carrying premises are parser behaviour); proved side lemmas: value typing of literals is a function of spelling (R), escape on write mirrors unescape on read (R), the parser builds sibling lists by append only (F)"
LEVEL_NOTE = "the reading side is now under contract for scalars: Parser.parse_value / parse_list / parse_section / parse_meta_block / parse_document are executed symbolically on concrete token spines with symbolic token values (contracts/parse_scalar.py), so 'value in the tree = value in the token' holds for every value in assignment, list-item, inline-map-value, META and block position; token spines beyond those (multi-word values, expressions, annotations, comments, section markers, deeper structures) remain bounded"
TECHNIQUE = "pre/postconditions on the real parser functions (whole-function symbolic execution over concrete token spines, symbolic values; z3) + regular-language obligations on the real lexer/emitter tables (R) + frame obligations (F); bounded model-document differential (B) for everything outside those spines"
EXPLANATION = "C02: every model document, canonical and lenient renderings, read by both readers and compared field by field with the model; canonical text re-read and compared again."
ASSUMPTIONS = ["a NUMBER token carries an int or a float (what int()/float() return in the lexer; R literal obligations)", "nesting depth on entry below the hard limit", "content model and renderers (verif.bounded.model) are the independent statement of 'what was written'"]
TRUSTED_BASE = ["verif.bounded.model", "verif.reglang", "verif.frames", "verif.pyvc", "z3"]

PARSER = "octave_mcp.core.parser"


def ob_parser_append_only(ctx: Ctx) -> Outcome:
    """C02.F1: the only mutations of Document.sections / Block.children / Section.children lists inside the
    parser are .append(...) (and extend of freshly built comment nodes): no insert/sort/del/pop, so sibling
    order = order of parse events and duplicates are kept."""
    from verif.frames.analysis import package

    p = package()
    bad = []
    n = 0
    for k, f in p.funcs.items():
        if not k.startswith(PARSER + ":"):
            continue
        for s in f.stores:
            if s.kind == "mutcall" and s.what.split(".")[-2:-1] in (["children"], ["sections"]) or (s.kind == "mutcall" and s.what.startswith(("children.", "sections."))):
                n += 1
                m = s.what.rsplit(".", 1)[-1]
                if m not in ("append", "extend"):
                    bad.append(f"{k}@L{s.lineno}: {s.what}")
            if s.kind in ("subscript", "del") and ("children" in s.what or "sections" in s.what):
                bad.append(f"{k}@L{s.lineno}: {s.kind} {s.what}")
    if n == 0:
        return Outcome.undecided("frames", "no child-list mutation found in the parser: the contract no longer matches the source")
    if bad:
        return Outcome.refuted("frames", [Witness(what=f"sibling list mutated other than by append: {b}", key=b.split("@")[0], input=b) for b in bad], count=n)
    return Outcome.ok("frames", count=n)


def probe_key_specific_quoting():
    """values of every type under keys with key-specific emitter rules: the canonical text must read back with the same type"""
    from octave_mcp.core.emitter import emit
    from octave_mcp.core.parser import parse

    bad = []
    for key in ("PATTERN", "REGEX"):
        for lit, typ in (("42", int), ("1.5", float), ("true", bool), ("null", type(None)), ("[1,2]", None), ('"x y"', str), ("bare", str)):
            for text in (f"===D===\n{key}::{lit}\n===END===\n", f"===D===\nB:\n  {key}::{lit}\n===END===\n", f"===D===\nL::[{key}::{lit}]\n===END===\n"):
                d1 = parse(text)
                d2 = parse(emit(d1))

                def leaf(d):
                    n = d.sections[0]
                    v = n.value if hasattr(n, "value") else n.children[0].value
                    if type(v).__name__ == "ListValue" and v.items and type(v.items[0]).__name__ == "InlineMap":
                        v = list(v.items[0].pairs.values())[0]
                    return v

                a, b = leaf(d1), leaf(d2)
                if type(a) is not type(b) or (typ is not None and a != b):
                    bad.append(f"{text!r}: read as {a!r} ({type(a).__name__}), its canonical text reads as {b!r} ({type(b).__name__})")
    return bool(bad), "; ".join(bad[:2]) or "probe: values under PATTERN / REGEX keep their type through the canonical text"


def ob_key_quoting_guard(ctx: Ctx):
    """C02.F2: outside emit_value's own string branch, the emitter wraps an already emitted value text in quotes only under an
    `isinstance(<raw value>, str)` test (key-specific rules such as PATTERN/REGEX must not turn numbers, booleans, null or
    lists into strings)"""
    import ast

    from verif.common import shape_verdict

    wits, n = [], 0
    try:
        tree = extract.module_ast("octave_mcp.core.emitter")
    except extract.ExtractionError as e:
        return Outcome.undecided("ast-shape", str(e))
    for fn in [f for f in ast.walk(tree) if isinstance(f, ast.FunctionDef)]:
        parents = {}
        for p_ in ast.walk(fn):
            for c in ast.iter_child_nodes(p_):
                parents[id(c)] = p_
        for node in ast.walk(fn):
            if isinstance(node, ast.JoinedStr) and ast.unparse(node) in ("f'\"{escaped}\"'", "f'\"{value_str}\"'", "f'\"{v_str}\"'"):
                # climb to the enclosing ifs
                tests = []
                cur = node
                while id(cur) in parents:
                    par = parents[id(cur)]
                    if isinstance(par, ast.If) and any(cur is x or cur in list(ast.walk(x)) for x in par.body):
                        tests.append(ast.unparse(par.test))
                    cur = par
                    if isinstance(par, ast.FunctionDef):
                        break
                n += 1
                joined = " and ".join(tests)
                in_str_branch = fn.name == "emit_value" and ("isinstance(value, str)" in joined or "needs_quotes(value)" in joined)
                # emit_value's early-return spelling: `if not needs_quotes(value): return value` precedes the quoting in the str branch
                if fn.name == "emit_value" and not in_str_branch and any(isinstance(x, ast.If) and ast.unparse(x.test) == "isinstance(value, str)" and node in list(ast.walk(x)) for x in ast.walk(fn)):
                    in_str_branch = True
                guarded = bool(__import__("re").search(r"isinstance\((\w|\.)+, str\)", joined))
                if not (in_str_branch or guarded):
                    wits.append(f"{fn.name} L{node.lineno}: quotes are put around an emitted value under `{joined[:120] or 'no test'}` without an isinstance(..., str) test")
    if n == 0:
        return Outcome.undecided("ast-shape", "no quoting site found in the emitter")
    if wits:
        return shape_verdict("ast-shape", wits, probe_key_specific_quoting, n, {"runner": "props.C02:probe_key_specific_quoting", "args": {}})
    return Outcome.ok("ast-shape", count=n)


def ob_b1(ctx: Ctx):
    return docs_b.run(ctx, {"C02"}, 6000, 40000, 4, 16)


ob_b1.wants_all_cores = True


def obligations(ctx: Ctx):
    P = PROPERTY
    return [
        Ob(f"{P}.F4.frontmatter", "F", "frontmatter stripping cuts and glues on the same literal newline: the body passes through byte for byte", ["octave_mcp.core.parser:_strip_yaml_frontmatter"], LX.ob_frontmatter_split_join),
        Ob(f"{P}.F3.tokens", "F", "tokenize only appends to its token list (one documented in-place % merge): an emitted token is never replaced", LX.FUNCS_LEX, LX.ob_token_stream_frame),
        Ob(f"{P}.R1", "R", "literal spellings re-lex with their type (numbers, booleans, null)", LX.FUNCS_EMIT + LX.FUNCS_LEX, partial(LX.ob_literals, oid=f"{P}.R1")),
        Ob(f"{P}.T1", "R", "unescape(escape(v)) == v for every string", LX.FUNCS_EMIT + LX.FUNCS_LEX, partial(LX.ob_escape_inverse, oid=f"{P}.T1")),
        # "reading its canonical text yields that same content again": the scalar classes the emitter writes bare / quoted re-lex to the same value
        Ob(f"{P}.R0", "R", "tokenize control skeleton matches the step model", LX.FUNCS_LEX, LX.ob_skeleton),
        Ob(f"{P}.R2.var", "R", "bare $variables re-lex to one VARIABLE token", LX.FUNCS_EMIT + LX.FUNCS_LEX, partial(LX.ob_var, oid=f"{P}.R2")),
        Ob(f"{P}.R2.ident", "R", "bare identifier-class strings re-lex to one IDENTIFIER token", LX.FUNCS_EMIT + LX.FUNCS_LEX, partial(LX.ob_ident, oid=f"{P}.R2", which="ident")),
        Ob(f"{P}.R2.ann", "R", "bare NAME<qualifier> strings re-lex to one IDENTIFIER token", LX.FUNCS_EMIT + LX.FUNCS_LEX, partial(LX.ob_ident, oid=f"{P}.R2", which="ann")),
        Ob(f"{P}.R2.expr", "R", "bare operator expressions re-lex segment by segment", LX.FUNCS_EMIT + LX.FUNCS_LEX, partial(LX.ob_expr, oid=f"{P}.R2")),
        Ob(f"{P}.T1.shape", "R", "quoted emission is one single-quoted STRING token", LX.FUNCS_EMIT + LX.FUNCS_LEX, partial(LX.ob_quoted_shape, oid=f"{P}.T1")),
        Ob(f"{P}.F2", "F", "key-specific quoting (PATTERN/REGEX) applies to string values only", ["octave_mcp.core.emitter:emit_assignment", "octave_mcp.core.emitter:_force_quote_inline_map_value"], ob_key_quoting_guard),
        Ob(f"{P}.F1", "F", "the parser builds sibling lists by append only", [PARSER + ":Parser.*"], ob_parser_append_only),
        Ob(f"{P}.B3", "B", "comments are content: hand-made placements the document model cannot express (inside META) keep their text through read + write", ["octave_mcp.core.parser:parse", "octave_mcp.core.emitter:emit"], rawchars_b.ob_comments, timeout=600),
        Ob(f"{P}.B1", "B", "content read == content written == content of the canonical text, field by field against the model", ["octave_mcp.core.parser:parse", "octave_mcp.core.parser:parse_with_warnings", "octave_mcp.core.emitter:emit"], ob_b1, timeout=3000),
    ] + LX.parse_scalar_obs(P) + LX.emit_layout_obs(P)
