"""C02 — canonicalisation preserves document content exactly."""
from functools import partial

from props import docs_b
from props import lexical as LX
from verif.common import Ctx, Ob, Outcome, Witness

PROPERTY = "C02"
LEVEL = "exploration"
LEVEL_TEXT = "bounded exhaustive exploration against an independent content model (the carrying premises are parser behaviour); proved side lemmas: value typing of literals is a function of spelling (R), escape on write mirrors unescape on read (R), the parser builds sibling lists by append only (F)"
LEVEL_NOTE = "the parser is outside deductive reach; content equality is explored over enumerated model documents only"
TECHNIQUE = "bounded model-document differential (B) with proved lexical side obligations (R) and an append-only frame obligation on the parser (F)"
EXPLANATION = "C02: every model document, canonical and lenient renderings, read by both readers and compared field by field with the model; canonical text re-read and compared again."
ASSUMPTIONS = ["content model and renderers (verif.bounded.model) are the independent statement of 'what was written'"]
TRUSTED_BASE = ["verif.bounded.model", "verif.reglang", "verif.frames"]

PARSER = "octave_mcp.core.parser"


def ob_parser_append_only(ctx: Ctx) -> Outcome:
    """C02.F1: the only mutations of Document.sections / Block.children / Section.children lists inside the
    parser are .append(...) (and extend of freshly built comment nodes): no insert/sort/del/pop, so sibling
    order = order of parse events and duplicates are kept."""
    from verif.frames.analysis import package

    p = package()
    bad = []
    n = 0
    for k, f in p.funcs.items():
        if not k.startswith(PARSER + ":"):
            continue
        for s in f.stores:
            if s.kind == "mutcall" and s.what.split(".")[-2:-1] in (["children"], ["sections"]) or (s.kind == "mutcall" and s.what.startswith(("children.", "sections."))):
                n += 1
                m = s.what.rsplit(".", 1)[-1]
                if m not in ("append", "extend"):
                    bad.append(f"{k}@L{s.lineno}: {s.what}")
            if s.kind in ("subscript", "del") and ("children" in s.what or "sections" in s.what):
                bad.append(f"{k}@L{s.lineno}: {s.kind} {s.what}")
    if n == 0:
        return Outcome.undecided("frames", "no child-list mutation found in the parser: the contract no longer matches the source")
    if bad:
        return Outcome.refuted("frames", [Witness(what=f"sibling list mutated other than by append: {b}", key=b.split("@")[0], input=b) for b in bad], count=n)
    return Outcome.ok("frames", count=n)


def ob_b1(ctx: Ctx):
    return docs_b.run(ctx, {"C02"}, 6000, 40000, 4, 16)


ob_b1.wants_all_cores = True


def obligations(ctx: Ctx):
    P = PROPERTY
    return [
        Ob(f"{P}.R1", "R", "literal spellings re-lex with their type (numbers, booleans, null)", LX.FUNCS_EMIT + LX.FUNCS_LEX, partial(LX.ob_literals, oid=f"{P}.R1")),
        Ob(f"{P}.T1", "R", "unescape(escape(v)) == v for every string", LX.FUNCS_EMIT + LX.FUNCS_LEX, partial(LX.ob_escape_inverse, oid=f"{P}.T1")),
        # "reading its canonical text yields that same content again": the scalar classes the emitter writes bare / quoted re-lex to the same value
        Ob(f"{P}.R0", "R", "tokenize control skeleton matches the step model", LX.FUNCS_LEX, LX.ob_skeleton),
        Ob(f"{P}.R2.var", "R", "bare $variables re-lex to one VARIABLE token", LX.FUNCS_EMIT + LX.FUNCS_LEX, partial(LX.ob_var, oid=f"{P}.R2")),
        Ob(f"{P}.R2.ident", "R", "bare identifier-class strings re-lex to one IDENTIFIER token", LX.FUNCS_EMIT + LX.FUNCS_LEX, partial(LX.ob_ident, oid=f"{P}.R2", which="ident")),
        Ob(f"{P}.R2.ann", "R", "bare NAME<qualifier> strings re-lex to one IDENTIFIER token", LX.FUNCS_EMIT + LX.FUNCS_LEX, partial(LX.ob_ident, oid=f"{P}.R2", which="ann")),
        Ob(f"{P}.R2.expr", "R", "bare operator expressions re-lex segment by segment", LX.FUNCS_EMIT + LX.FUNCS_LEX, partial(LX.ob_expr, oid=f"{P}.R2")),
        Ob(f"{P}.T1.shape", "R", "quoted emission is one single-quoted STRING token", LX.FUNCS_EMIT + LX.FUNCS_LEX, partial(LX.ob_quoted_shape, oid=f"{P}.T1")),
        Ob(f"{P}.F1", "F", "the parser builds sibling lists by append only", [PARSER + ":Parser.*"], ob_parser_append_only),
        Ob(f"{P}.B1", "B", "content read == content written == content of the canonical text, field by field against the model", ["octave_mcp.core.parser:parse", "octave_mcp.core.parser:parse_with_warnings", "octave_mcp.core.emitter:emit"], ob_b1, timeout=3000),
    ]
