"""Reusable F (frame) obligations over verif.frames."""
from __future__ import annotations

from verif.common import Ctx, Outcome, Witness
from verif.frames.analysis import package

POSITION_ATTRS = ("line", "column", "tokens")


def ob_reads_no_position(entry_keys: list[str], allow: dict[str, str] | None = None):
    """No function in the closure of `entry_keys` (restricted to the entry points' own modules) loads
    .line / .column / .tokens from any object."""
    allow = allow or {}

    def fn(ctx: Ctx) -> Outcome:
        p = package()
        mods = {k.split(":")[0] for k in entry_keys}
        bad = []
        n = 0
        for ent in entry_keys:
            if ent not in p.funcs:
                return Outcome.undecided("frames", f"{ent} not found in the working tree")
            for k in p.reachable(ent):
                f = p.funcs.get(k)
                if not f or f.module not in mods:
                    continue
                n += 1
                for recv, attr, ln in f.attr_loads:
                    if attr in POSITION_ATTRS and k not in allow:
                        bad.append(f"{k}@L{ln}: reads {recv}.{attr}")
        bad = sorted(set(bad))
        if bad:
            return Outcome.refuted("frames", [Witness(what=f"source position consulted: {b}", key=b.split("@")[0] + ":" + b.split("reads ")[1], input=b) for b in bad], count=max(n, 1))
        return Outcome.ok("frames", count=max(n, 1))

    return fn


def ob_no_effects(entry_keys: list[str], kinds: tuple[str, ...]):
    def fn(ctx: Ctx) -> Outcome:
        p = package()
        bad = []
        for ent in entry_keys:
            if ent not in p.funcs:
                return Outcome.undecided("frames", f"{ent} not found in the working tree")
            for k, e in p.closure_effects(ent):
                if e.kind in kinds:
                    bad.append(f"{k}@L{e.lineno}: {e.kind}: {e.detail}")
        bad = sorted(set(bad))
        if bad:
            return Outcome.refuted("frames", [Witness(what=f"effect outside the frame: {b}", key=b.split("@")[0] + ":" + b.split(": ")[1], input=b) for b in bad], count=len(entry_keys))
        return Outcome.ok("frames", count=len(entry_keys))

    return fn


def ob_params_not_mutated(entry_keys: list[str], module_prefixes: tuple[str, ...], allowed: list[tuple[str, str]] | None = None, allow_self: bool = False, allow_params: dict[str, set] | None = None):
    """Within the given modules, the closure of the entry points performs no store / mutating call through
    a parameter, self or a module-level object — except the listed (function key, what) pairs."""
    allowed = allowed or []

    def fn(ctx: Ctx) -> Outcome:
        p = package()
        bad = []
        n = 0
        for ent in entry_keys:
            if ent not in p.funcs:
                return Outcome.undecided("frames", f"{ent} not found in the working tree")
            for k in p.reachable(ent):
                f = p.funcs.get(k)
                if not f or not k.startswith(module_prefixes):
                    continue
                for s in f.stores:
                    n += 1
                    roots = set(s.roots)
                    if allow_self:
                        roots = {r for r in roots if r[0] != "self"}
                    if allow_params and k in allow_params:
                        roots = {r for r in roots if not (r[0] == "param" and r[1] in allow_params[k])}
                    kinds = {r[0] for r in roots}
                    if kinds <= {"fresh"}:
                        continue
                    if any(k == ak and s.what.startswith(aw) for ak, aw in allowed):
                        continue
                    bad.append(f"{k}@L{s.lineno}: {s.kind} {s.what} (roots {sorted(kinds)})")
        bad = sorted(set(bad))
        if bad:
            return Outcome.refuted("frames", [Witness(what=f"store through a non-fresh object: {b}", key=b.split("@")[0] + ":" + b.split(": ")[1].split(" (")[0], input=b) for b in bad], count=max(n, 1))
        return Outcome.ok("frames", count=max(n, 1))

    return fn


# ---- memoised functions: the cache key is == on the arguments --------------------------------------------------
MEMO_TWINS = [(True, 1), (1, True), (True, 1.0), (1.0, True), (1, 1.0), (1.0, 1), (False, 0), (0, False), (False, 0.0), (0.0, False), (0, 0.0), (0.0, 0), (0.0, -0.0), (-0.0, 0.0)]


def probe_memo_twins(keys: list[str]):
    """Concrete probe for `memo_key` effects: for every flagged one-argument function, ask it about b right after
    a (a == b, a is not b) and compare with a cold cache. Returns (failed, text)."""
    import importlib
    import inspect

    out = []
    ran = 0
    for key in keys:
        mod, qual = key.split(":")
        obj = importlib.import_module(mod)
        for part in qual.split("."):
            obj = getattr(obj, part)
        if not hasattr(obj, "cache_clear"):
            continue
        try:
            npos = [p for p in inspect.signature(obj).parameters.values() if p.default is inspect.Parameter.empty and p.kind in (p.POSITIONAL_ONLY, p.POSITIONAL_OR_KEYWORD)]
        except (TypeError, ValueError):
            continue
        if len(npos) != 1:
            continue
        for a, b in MEMO_TWINS:
            try:
                obj.cache_clear()
                cold = obj(b)
                obj.cache_clear()
                obj(a)
                warm = obj(b)
                obj.cache_clear()
            except Exception:  # noqa: BLE001 - the function does not take numbers: nothing to compare
                continue
            ran += 1
            if type(cold) is not type(warm) or repr(cold) != repr(warm):
                out.append(f"{key}({b!r}) = {cold!r} on a cold cache but {warm!r} after {key.split(':')[-1]}({a!r})")
    if out:
        return True, "; ".join(out[:4])
    return False, f"{ran} twin pairs answered alike"


def replay_memo_twins(keys):
    return probe_memo_twins(list(keys))


def ob_memo_keys(entry_keys: list[str]):
    """Every memoised function in the closure is keyed by arguments whose == implies indistinguishability (text,
    bytes, paths, enum members; ints only with typed=True; never floats / Any). Otherwise the answer depends on the
    call history of the process. The shape rule is conservative, so a flagged memo is reported only when the concrete
    twin probe shows two answers; a flagged memo whose probe passes is undecided, never a violation."""

    def fn(ctx: Ctx) -> Outcome:
        from verif.common import shape_verdict

        p = package()
        bad: dict[str, str] = {}
        n = 0
        for ent in entry_keys:
            if ent not in p.funcs:
                return Outcome.undecided("frames", f"{ent} not found in the working tree")
            for k, e in p.closure_effects(ent):
                n += 1
                if e.kind == "memo_key":
                    bad[k] = e.detail
        if not bad:
            return Outcome.ok("frames", count=max(n, len(entry_keys)))
        keys = sorted(bad)
        return shape_verdict("frames", [f"{k}: {bad[k]}" for k in keys], lambda: probe_memo_twins(keys), count=max(n, 1), replay={"runner": "props.framesobs:replay_memo_twins", "args": {"keys": keys}})

    return fn


# ---- tool objects carry nothing from one call to the next ----------------------------------------------------------
TOOLS = {
    "validate": ("octave_mcp.mcp.validate", "ValidateTool"),
    "write": ("octave_mcp.mcp.write", "WriteTool"),
    "eject": ("octave_mcp.mcp.eject", "EjectTool"),
    "compile_grammar": ("octave_mcp.mcp.compile_grammar", "CompileGrammarTool"),
}

_HISTORY_DOCS = [
    ("TEST_HOLOGRAPHIC", '===T===\nMETA:\n  TYPE::TEST_HOLOGRAPHIC\n  VERSION::"1.0"\n---\nTEST_HOLOGRAPHIC:\n  STATUS::active\n  NAME::"x"\n===END===\n'),
    ("META", '===T===\nMETA:\n  TYPE::"X"\n  VERSION::"1.0"\n  STATUS::draft\n---\nA::"1"\nB::[a,b]\n===END===\n'),
    (None, "===T===\nA -> B\nK::  v w\n===END===\n"),
]


def probe_tool_history(names: tuple[str, ...]):
    """the same call on one long-lived tool object after other calls (same content with fix / other flags, other content) vs on
    a fresh tool object: the envelopes must be equal. -> (differs, text)"""
    import asyncio
    import importlib
    import json
    import os
    import tempfile

    def norm(env):
        def scrub(o):
            if isinstance(o, dict):
                return {k: scrub(v) for k, v in o.items() if k not in ("timestamp", "routing_log", "duration_ms")}
            if isinstance(o, list):
                return [scrub(x) for x in o]
            return o

        return json.dumps(scrub(env), sort_keys=True, default=repr)

    def run(tool, kw):
        try:
            return norm(asyncio.run(tool.execute(**kw)))
        except Exception as e:  # noqa: BLE001
            return f"raised {type(e).__name__}: {e}"

    bad = []
    for nm in names:
        mod, cls = TOOLS[nm]
        T = getattr(importlib.import_module(mod), cls)
        calls = []
        if nm == "validate":
            for schema, text in _HISTORY_DOCS:
                base = dict(content=text, schema=schema or "META")
                calls.append((dict(base, fix=True), dict(base)))
                calls.append((dict(base, profile="LENIENT"), dict(base)))
                calls.append((dict(base, fix=True), dict(base, diff_only=True)))
            calls.append((dict(content=_HISTORY_DOCS[0][1], schema="TEST_HOLOGRAPHIC", fix=True), dict(content=_HISTORY_DOCS[1][1], schema="META")))
        elif nm == "eject":
            for _, text in _HISTORY_DOCS:
                calls.append((dict(content=text, schema="META", mode="executive", format="json"), dict(content=text, schema="META", mode="canonical", format="octave")))
                calls.append((dict(content=text, schema="META", mode="canonical", format="json"), dict(content=text, schema="META", mode="canonical", format="yaml")))
        elif nm == "compile_grammar":
            for schema, _ in _HISTORY_DOCS:
                if schema:
                    calls.append((dict(schema=schema), dict(schema=schema)))
        elif nm == "write":
            with tempfile.TemporaryDirectory(prefix="vf_hist_") as d:
                for i, (schema, text) in enumerate(_HISTORY_DOCS):
                    t1 = d + f"/a{i}.oct.md"
                    t2 = d + f"/b{i}.oct.md"
                    first = dict(target_path=t1, content=text, lenient=True, corrections_only=True)
                    second = dict(target_path=t2, content=text, corrections_only=True)
                    warm = T()
                    run(warm, first)
                    got, want = run(warm, second), run(T(), second)
                    if got != want:
                        bad.append(f"octave_write {second!r} after {first!r} on the same tool object: {got[:300]} - on a fresh one: {want[:300]}")
                    if os.path.exists(t1) or os.path.exists(t2):
                        bad.append("a corrections_only call created a file")
            continue
        for first, second in calls:
            warm = T()
            run(warm, first)
            got = run(warm, second)
            want = run(T(), second)
            if got != want:
                bad.append(f"{cls}.execute(**{second!r}) after execute(**{first!r}) on the same tool object: {got[:400]} - on a fresh tool object: {want[:400]}")
    return bool(bad), "; ".join(bad[:3]) or "call pairs on one tool object vs a fresh one: equal envelopes"


def replay_tool_history(names):
    return probe_tool_history(tuple(names))


def ob_tool_stateless(names: tuple[str, ...]):
    """FRAME: no method of the tool class (or its bases) stores through `self` / `cls` - the server keeps ONE tool object
    for the life of the process, so an attribute written by a call is call history (the rule of C06.F5, here with a probe).
    A store found => the call-history probe decides (differs => refuted with the calls; equal => undecided)."""
    from verif.common import shape_verdict

    def fn(ctx: Ctx) -> Outcome:
        p = package()
        problems, n = [], 0
        for nm in names:
            mod, cls = TOOLS[nm]
            ent = f"{mod}:{cls}.execute"
            if ent not in p.funcs:
                return Outcome.undecided("frames", f"{ent} not found in the working tree")
            # inductive invariant "tool objects hold nothing but class constants": no method of the tool class or its bases
            # (constructor included) has a store or mutating call whose access path is rooted at self / cls / the class name
            for c in p.mro(p.funcs[ent].cls) if p.funcs[ent].cls else []:
                for m in c.methods.values():
                    n += 1
                    for s in m.stores:
                        if s.what.startswith(("self.", "cls.", "self[", f"{c.name}.")):
                            problems.append(f"{m.key}@L{s.lineno}: {s.kind} {s.what} writes the long-lived tool object")
        if n == 0:
            return Outcome.undecided("frames", "no tool method found")
        if problems:
            return shape_verdict("frames", sorted(set(problems)), lambda: probe_tool_history(names), n, {"runner": "props.framesobs:replay_tool_history", "args": {"names": list(names)}})
        return Outcome.ok("frames", count=n)

    return fn


# ---- mutable module-level objects handed out by functions (process state that callers may edit) -------------------
_VH_SCHEMAS = {
    "route": '===SCH===\nMETA:\n  TYPE::PROTOCOL_DEFINITION\n  VERSION::"1.0"\nFIELDS:\n  NAME::["x"∧REQ→§FOO]\n===END===\n',
    "plain": '===SCH===\nMETA:\n  TYPE::PROTOCOL_DEFINITION\n  VERSION::"1.0"\nFIELDS:\n  NAME::["x"∧REQ]\n===END===\n',
    "warn": '===SCH===\nMETA:\n  TYPE::PROTOCOL_DEFINITION\n  VERSION::"1.0"\nPOLICY:\n  VERSION::"1.0"\n  UNKNOWN_FIELDS::WARN\n  TARGETS::[§BAR]\nFIELDS:\n  NAME::["x"∧REQ]\n===END===\n',
    "route_bar": '===SCH===\nMETA:\n  TYPE::PROTOCOL_DEFINITION\n  VERSION::"1.0"\nFIELDS:\n  NAME::["x"∧REQ→§BAR]\n===END===\n',
}
_VH_DOCS = {
    "plain": '===INST===\nSCH:\n  NAME::"x"\n===END===\n',
    "target": '===INST===\nSCH[→§FOO]:\n  NAME::"x"\n===END===\n',
    "extra": '===INST===\nSCH:\n  NAME::"x"\n  EXTRA::1\n===END===\n',
}


def _vh_run(calls):
    """run the (schema key, doc key) calls in order in THIS process; return the observable result of the last one"""
    from octave_mcp.core.parser import parse
    from octave_mcp.core.schema_extractor import extract_schema_from_document
    from octave_mcp.core.validator import Validator

    out = None
    for sk, dk in calls:
        sch = extract_schema_from_document(parse(_VH_SCHEMAS[sk]))
        v = Validator(schema=None)
        errs = v.validate(parse(_VH_DOCS[dk]), strict=False, section_schemas={sch.name: sch})
        log = getattr(v, "routing_log", None)
        entries = getattr(log, "entries", None) or []
        out = (sorted((e.code, getattr(e, "field_path", getattr(e, "path", ""))) for e in errs), sorted((str(getattr(x, "source_path", "")), str(getattr(x, "target_name", "")), bool(getattr(x, "constraint_passed", None))) for x in entries), sch.policy.unknown_fields if sch.policy else None, sorted(sch.policy.targets) if sch.policy else None)
    return out


def _vh_child(calls):
    """the same in a forked child (fresh copy of the process state as it is now)"""
    import os
    import pickle

    r, w = os.pipe()
    pid = os.fork()
    if pid == 0:
        try:
            os.close(r)
            try:
                data = pickle.dumps(("ok", _vh_run(calls)))
            except BaseException as e:  # noqa: BLE001
                data = pickle.dumps(("raised", f"{type(e).__name__}: {e}"))
            os.write(w, data)
        finally:
            os._exit(0)
    os.close(w)
    chunks = []
    while True:
        b = os.read(r, 65536)
        if not b:
            break
        chunks.append(b)
    os.close(r)
    os.waitpid(pid, 0)
    return pickle.loads(b"".join(chunks))


def probe_validator_history():
    """a (schema, document) validation after another one in the same process vs alone in a fresh child: same errors, routing
    entries and extracted policy. -> (differs, text)"""
    bad = []
    pairs = [(a, b) for a in [(s, d) for s in _VH_SCHEMAS for d in _VH_DOCS] for b in [(s, d) for s in _VH_SCHEMAS for d in _VH_DOCS]]
    for a, b in pairs:
        alone = _vh_child([b])
        after = _vh_child([a, b])
        if alone != after:
            bad.append(f"validate(schema {b[0]!r}, document {b[1]!r}) alone: {alone}; after validate(schema {a[0]!r}, document {a[1]!r}) in the same process: {after}")
            if len(bad) > 2:
                break
    return bool(bad), "; ".join(bad[:2])[:900] or f"{len(pairs)} ordered pairs of validations: the second is unaffected by the first"


def replay_validator_history():
    return probe_validator_history()


def ob_no_global_escape(entry_keys: list[str], allow: dict[str, str]):
    """FRAME: no function in the closure hands out a mutable module-level object (`return GLOBAL`, `return GLOBAL.get(k)` ...),
    except the allow-listed ones (function key -> why it is harmless). A new escape is process state in its callers' hands;
    the validation-history probe decides (differs => refuted with the two calls, equal => undecided)."""
    from verif.common import shape_verdict

    def fn(ctx: Ctx) -> Outcome:
        p = package()
        problems, n = [], 0
        for ent in entry_keys:
            if ent not in p.funcs:
                return Outcome.undecided("frames", f"{ent} not found in the working tree")
            for k in p.reachable(ent):
                f = p.funcs.get(k)
                if not f:
                    continue
                n += 1
                for e in f.effects:
                    if e.kind == "global_escape" and k not in allow:
                        problems.append(f"{k}@L{e.lineno}: {e.detail}")
        problems = sorted(set(problems))
        if problems:
            return shape_verdict("frames", problems, probe_validator_history, max(n, 1), {"runner": "props.framesobs:replay_validator_history", "args": {}})
        return Outcome.ok("frames", count=max(n, 1), allowed=allow)

    return fn
