"""Reusable F (frame) obligations over verif.frames."""
from __future__ import annotations

from verif.common import Ctx, Outcome, Witness
from verif.frames.analysis import package

POSITION_ATTRS = ("line", "column", "tokens")


def ob_reads_no_position(entry_keys: list[str], allow: dict[str, str] | None = None):
    """No function in the closure of `entry_keys` (restricted to the entry points' own modules) loads
    .line / .column / .tokens from any object."""
    allow = allow or {}

    def fn(ctx: Ctx) -> Outcome:
        p = package()
        mods = {k.split(":")[0] for k in entry_keys}
        bad = []
        n = 0
        for ent in entry_keys:
            if ent not in p.funcs:
                return Outcome.undecided("frames", f"{ent} not found in the working tree")
            for k in p.reachable(ent):
                f = p.funcs.get(k)
                if not f or f.module not in mods:
                    continue
                n += 1
                for recv, attr, ln in f.attr_loads:
                    if attr in POSITION_ATTRS and k not in allow:
                        bad.append(f"{k}@L{ln}: reads {recv}.{attr}")
        bad = sorted(set(bad))
        if bad:
            return Outcome.refuted("frames", [Witness(what=f"source position consulted: {b}", key=b.split("@")[0] + ":" + b.split("reads ")[1], input=b) for b in bad], count=max(n, 1))
        return Outcome.ok("frames", count=max(n, 1))

    return fn


def ob_no_effects(entry_keys: list[str], kinds: tuple[str, ...]):
    def fn(ctx: Ctx) -> Outcome:
        p = package()
        bad = []
        for ent in entry_keys:
            if ent not in p.funcs:
                return Outcome.undecided("frames", f"{ent} not found in the working tree")
            for k, e in p.closure_effects(ent):
                if e.kind in kinds:
                    bad.append(f"{k}@L{e.lineno}: {e.kind}: {e.detail}")
        bad = sorted(set(bad))
        if bad:
            return Outcome.refuted("frames", [Witness(what=f"effect outside the frame: {b}", key=b.split("@")[0] + ":" + b.split(": ")[1], input=b) for b in bad], count=len(entry_keys))
        return Outcome.ok("frames", count=len(entry_keys))

    return fn


def ob_params_not_mutated(entry_keys: list[str], module_prefixes: tuple[str, ...], allowed: list[tuple[str, str]] | None = None, allow_self: bool = False, allow_params: dict[str, set] | None = None):
    """Within the given modules, the closure of the entry points performs no store / mutating call through
    a parameter, self or a module-level object — except the listed (function key, what) pairs."""
    allowed = allowed or []

    def fn(ctx: Ctx) -> Outcome:
        p = package()
        bad = []
        n = 0
        for ent in entry_keys:
            if ent not in p.funcs:
                return Outcome.undecided("frames", f"{ent} not found in the working tree")
            for k in p.reachable(ent):
                f = p.funcs.get(k)
                if not f or not k.startswith(module_prefixes):
                    continue
                for s in f.stores:
                    n += 1
                    roots = set(s.roots)
                    if allow_self:
                        roots = {r for r in roots if r[0] != "self"}
                    if allow_params and k in allow_params:
                        roots = {r for r in roots if not (r[0] == "param" and r[1] in allow_params[k])}
                    kinds = {r[0] for r in roots}
                    if kinds <= {"fresh"}:
                        continue
                    if any(k == ak and s.what.startswith(aw) for ak, aw in allowed):
                        continue
                    bad.append(f"{k}@L{s.lineno}: {s.kind} {s.what} (roots {sorted(kinds)})")
        bad = sorted(set(bad))
        if bad:
            return Outcome.refuted("frames", [Witness(what=f"store through a non-fresh object: {b}", key=b.split("@")[0] + ":" + b.split(": ")[1].split(" (")[0], input=b) for b in bad], count=max(n, 1))
        return Outcome.ok("frames", count=max(n, 1))

    return fn
