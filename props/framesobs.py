"""Reusable F (frame) obligations over verif.frames."""
from __future__ import annotations

from verif.common import Ctx, Outcome, Witness
from verif.frames.analysis import package

POSITION_ATTRS = ("line", "column", "tokens")


def ob_reads_no_position(entry_keys: list[str], allow: dict[str, str] | None = None):
    """No function in the closure of `entry_keys` (restricted to the entry points' own modules) loads
    .line / .column / .tokens from any object."""
    allow = allow or {}

    def fn(ctx: Ctx) -> Outcome:
        p = package()
        mods = {k.split(":")[0] for k in entry_keys}
        bad = []
        n = 0
        for ent in entry_keys:
            if ent not in p.funcs:
                return Outcome.undecided("frames", f"{ent} not found in the working tree")
            for k in p.reachable(ent):
                f = p.funcs.get(k)
                if not f or f.module not in mods:
                    continue
                n += 1
                for recv, attr, ln in f.attr_loads:
                    if attr in POSITION_ATTRS and k not in allow:
                        bad.append(f"{k}@L{ln}: reads {recv}.{attr}")
        bad = sorted(set(bad))
        if bad:
            return Outcome.refuted("frames", [Witness(what=f"source position consulted: {b}", key=b.split("@")[0] + ":" + b.split("reads ")[1], input=b) for b in bad], count=max(n, 1))
        return Outcome.ok("frames", count=max(n, 1))

    return fn


def ob_no_effects(entry_keys: list[str], kinds: tuple[str, ...]):
    def fn(ctx: Ctx) -> Outcome:
        p = package()
        bad = []
        for ent in entry_keys:
            if ent not in p.funcs:
                return Outcome.undecided("frames", f"{ent} not found in the working tree")
            for k, e in p.closure_effects(ent):
                if e.kind in kinds:
                    bad.append(f"{k}@L{e.lineno}: {e.kind}: {e.detail}")
        bad = sorted(set(bad))
        if bad:
            return Outcome.refuted("frames", [Witness(what=f"effect outside the frame: {b}", key=b.split("@")[0] + ":" + b.split(": ")[1], input=b) for b in bad], count=len(entry_keys))
        return Outcome.ok("frames", count=len(entry_keys))

    return fn


def ob_params_not_mutated(entry_keys: list[str], module_prefixes: tuple[str, ...], allowed: list[tuple[str, str]] | None = None, allow_self: bool = False, allow_params: dict[str, set] | None = None):
    """Within the given modules, the closure of the entry points performs no store / mutating call through
    a parameter, self or a module-level object — except the listed (function key, what) pairs."""
    allowed = allowed or []

    def fn(ctx: Ctx) -> Outcome:
        p = package()
        bad = []
        n = 0
        for ent in entry_keys:
            if ent not in p.funcs:
                return Outcome.undecided("frames", f"{ent} not found in the working tree")
            for k in p.reachable(ent):
                f = p.funcs.get(k)
                if not f or not k.startswith(module_prefixes):
                    continue
                for s in f.stores:
                    n += 1
                    roots = set(s.roots)
                    if allow_self:
                        roots = {r for r in roots if r[0] != "self"}
                    if allow_params and k in allow_params:
                        roots = {r for r in roots if not (r[0] == "param" and r[1] in allow_params[k])}
                    kinds = {r[0] for r in roots}
                    if kinds <= {"fresh"}:
                        continue
                    if any(k == ak and s.what.startswith(aw) for ak, aw in allowed):
                        continue
                    bad.append(f"{k}@L{s.lineno}: {s.kind} {s.what} (roots {sorted(kinds)})")
        bad = sorted(set(bad))
        if bad:
            return Outcome.refuted("frames", [Witness(what=f"store through a non-fresh object: {b}", key=b.split("@")[0] + ":" + b.split(": ")[1].split(" (")[0], input=b) for b in bad], count=max(n, 1))
        return Outcome.ok("frames", count=max(n, 1))

    return fn


# ---- memoised functions: the cache key is == on the arguments --------------------------------------------------
MEMO_TWINS = [(True, 1), (1, True), (True, 1.0), (1.0, True), (1, 1.0), (1.0, 1), (False, 0), (0, False), (False, 0.0), (0.0, False), (0, 0.0), (0.0, 0), (0.0, -0.0), (-0.0, 0.0)]


def probe_memo_twins(keys: list[str]):
    """Concrete probe for `memo_key` effects: for every flagged one-argument function, ask it about b right after
    a (a == b, a is not b) and compare with a cold cache. Returns (failed, text)."""
    import importlib
    import inspect

    out = []
    ran = 0
    for key in keys:
        mod, qual = key.split(":")
        obj = importlib.import_module(mod)
        for part in qual.split("."):
            obj = getattr(obj, part)
        if not hasattr(obj, "cache_clear"):
            continue
        try:
            npos = [p for p in inspect.signature(obj).parameters.values() if p.default is inspect.Parameter.empty and p.kind in (p.POSITIONAL_ONLY, p.POSITIONAL_OR_KEYWORD)]
        except (TypeError, ValueError):
            continue
        if len(npos) != 1:
            continue
        for a, b in MEMO_TWINS:
            try:
                obj.cache_clear()
                cold = obj(b)
                obj.cache_clear()
                obj(a)
                warm = obj(b)
                obj.cache_clear()
            except Exception:  # noqa: BLE001 - the function does not take numbers: nothing to compare
                continue
            ran += 1
            if type(cold) is not type(warm) or repr(cold) != repr(warm):
                out.append(f"{key}({b!r}) = {cold!r} on a cold cache but {warm!r} after {key.split(':')[-1]}({a!r})")
    if out:
        return True, "; ".join(out[:4])
    return False, f"{ran} twin pairs answered alike"


def replay_memo_twins(keys):
    return probe_memo_twins(list(keys))


def ob_memo_keys(entry_keys: list[str]):
    """Every memoised function in the closure is keyed by arguments whose == implies indistinguishability (text,
    bytes, paths, enum members; ints only with typed=True; never floats / Any). Otherwise the answer depends on the
    call history of the process. The shape rule is conservative, so a flagged memo is reported only when the concrete
    twin probe shows two answers; a flagged memo whose probe passes is undecided, never a violation."""

    def fn(ctx: Ctx) -> Outcome:
        from verif.common import shape_verdict

        p = package()
        bad: dict[str, str] = {}
        n = 0
        for ent in entry_keys:
            if ent not in p.funcs:
                return Outcome.undecided("frames", f"{ent} not found in the working tree")
            for k, e in p.closure_effects(ent):
                n += 1
                if e.kind == "memo_key":
                    bad[k] = e.detail
        if not bad:
            return Outcome.ok("frames", count=max(n, len(entry_keys)))
        keys = sorted(bad)
        return shape_verdict("frames", [f"{k}: {bad[k]}" for k in keys], lambda: probe_memo_twins(keys), count=max(n, 1), replay={"runner": "props.framesobs:replay_memo_twins", "args": {"keys": keys}})

    return fn
