"""C11 — schema repair changes only what it may, and logs every change."""
from __future__ import annotations

import z3

from contracts import repair as RC
from verif.common import Ctx, Ob, Outcome
from verif.pyvc.adapter import contract_ob

PROPERTY = "C11"
LEVEL = "other"
LEVEL_TEXT = "repair()'s contract proved on the real bodies: the two repair attempts (all values, all ENUM lists), repair_value (modular, chains of <= 3 members), the recursive node walker and repair() (frame: only Assignment.value is stored, only REPAIR entries are logged) on a representative tree shape with symbolic keys and values; idempotence as a lemma over those contracts; tool surfaces and numeric-text semantics are bounded stand-ins"
LEVEL_NOTE = "str.lower / str.strip / int(str) / float(str) are uninterpreted (A-numparse: what CPython accepts as a numeral is CPython's definition); tree-shaped obligations are proved for one concrete spine (Block[Assignment, Block[Assignment, Section[Assignment(zone)]], Comment]) with symbolic keys/values; the frames engine (F) covers every shape for the assigns clause"
TECHNIQUE = "pre/postconditions + frame conditions on the real repair functions, VCs from the AST discharged by z3, callee contracts at call sites; frames inference for assigns; z3 lemma for idempotence; bounded differential on tools"
EXPLANATION = "C11: P obligations on _attempt_enum_casefold, _attempt_type_coercion, repair_value, _repair_ast_node, repair; F obligation assigns ⊆ {Assignment.value, RepairLog.repairs}; L lemma idempotence; B perturbed instances through repair() and the tools."
ASSUMPTIONS = [
    "A-numparse: int()/float() on text are uninterpreted partial functions; 'lossless' for numeric text is explored in B only",
    "str.lower and str.strip are uninterpreted; ENUM allowed values are distinct",
    "tree contracts hold for the representative spine; arbitrary shapes are covered by the F (frames) obligation and by B",
]
TRUSTED_BASE = ["z3", "verif.pyvc", "verif.frames"]

FUNCS = ["octave_mcp.core.repair:repair", "octave_mcp.core.repair:_apply_schema_repairs", "octave_mcp.core.repair:_repair_ast_node", "octave_mcp.core.repair:repair_value",
         "octave_mcp.core.repair:_attempt_enum_casefold", "octave_mcp.core.repair:_attempt_type_coercion"]


def ob_frames(ctx: Ctx) -> Outcome:
    """C11.F1: assigns of repair's closure ⊆ {Assignment.value (attr `value`), RepairLog.repairs.append}."""
    from verif.common import Witness
    from verif.frames.analysis import package

    p = package()
    bad = []
    n = 0
    for k in p.reachable("octave_mcp.core.repair:repair"):
        f = p.funcs.get(k)
        if not f or not (k.startswith("octave_mcp.core.repair:") or k.startswith("octave_mcp.core.repair_log:")):
            continue
        for s in f.stores:
            n += 1
            roots = {r[0] for r in s.roots}
            if roots <= {"fresh"}:
                continue
            ok = (s.kind == "attr" and s.attr == "value" and s.what == "node.value") or (s.kind == "mutcall" and s.what == "self.repairs.append" and k.endswith("RepairLog.add"))
            if not ok:
                bad.append(f"{k}@L{s.lineno}: {s.kind} {s.what}")
    if bad:
        return Outcome.refuted("frames", [Witness(what=f"store outside the frame {{Assignment.value, RepairLog.repairs}}: {b}", key=b.split("@")[0] + ":" + b.split(": ")[1], input=b) for b in bad], count=max(n, 1))
    return Outcome.ok("frames", count=max(n, 1))


def ob_idempotence(ctx: Ctx) -> Outcome:
    """C11.L1: from the contracts of the two attempts — a casefold result is an exact member (so no further
    casefold), a coercion result is not a str (so no further coercion, and no casefold) — a second repair of
    a repaired value changes nothing. Contract symbols are uninterpreted; z3 proves the implication."""
    Val = z3.DeclareSort("V")
    is_str = z3.Function("is_str", Val, z3.BoolSort())
    member = z3.Function("exact_member", Val, z3.BoolSort())  # exact member of the ENUM list
    cf_rep = z3.Function("casefold_repairs", Val, z3.BoolSort())
    cf_res = z3.Function("casefold_result", Val, Val)
    co_rep = z3.Function("coercion_repairs", Val, z3.BoolSort())
    co_res = z3.Function("coercion_result", Val, Val)
    v = z3.Const("v", Val)
    ax = [
        z3.ForAll([v], z3.Implies(cf_rep(v), z3.And(is_str(v), z3.Not(member(v)), is_str(cf_res(v)), member(cf_res(v))))),  # CASEFOLD.repaired_facts
        z3.ForAll([v], z3.Implies(co_rep(v), z3.And(is_str(v), z3.Not(is_str(co_res(v)))))),  # COERCION.repaired_facts
    ]
    goals = {
        "casefold_then_casefold": z3.Implies(cf_rep(v), z3.Not(cf_rep(cf_res(v)))),
        "coercion_then_coercion": z3.Implies(co_rep(v), z3.Not(co_rep(co_res(v)))),
        "coercion_then_casefold": z3.Implies(co_rep(v), z3.Not(cf_rep(co_res(v)))),
    }
    n = 0
    for name, g in goals.items():
        s = z3.Solver()
        s.add(*ax)
        s.add(z3.Not(g))
        if s.check() != z3.unsat:
            return Outcome.undecided("z3", f"lemma {name} not proved")
        n += 1
    return Outcome.ok("z3", count=n, note="casefold after coercion needs the value to be a str: excluded by COERCION's `result is a number`; a TYPE[NUMBER]∧ENUM chain can casefold first and coerce second, the second pass then sees a non-str")


def obligations(ctx: Ctx):
    P = PROPERTY
    obs = [
        contract_ob(f"{P}.P2", "_attempt_enum_casefold: single case-insensitive match only, exact log entry", lambda: RC.CASEFOLD, "contracts.repair:CASEFOLD"),
        contract_ob(f"{P}.P3", "_attempt_type_coercion: NUMBER only, str -> finite number, exact log entry", lambda: RC.COERCION, "contracts.repair:COERCION"),
        contract_ob(f"{P}.P1.zone", "repair_value never touches a literal zone", lambda: RC.REPAIR_VALUE_ZONE, "contracts.repair:REPAIR_VALUE_ZONE"),
        contract_ob(f"{P}.P1.nodef", "repair_value without a field definition changes nothing", lambda: RC.REPAIR_VALUE_NO_DEF, "contracts.repair:REPAIR_VALUE_NO_DEF"),
    ]
    for n in (0, 1, 2, 3):
        obs.append(contract_ob(f"{P}.P1.n{n}", f"repair_value: fix off / None unchanged, flag iff logged, REPAIR entries only ({n} members)", (lambda n=n: RC.repair_value_contract(n)), f"contracts.repair:repair_value_contract({n})", thorough_only=(n == 3)))
    obs += [
        contract_ob(f"{P}.P5", "_repair_ast_node: stores only Assignment.value, only repair_value results for schema keys, zones untouched", lambda: RC.REPAIR_NODE, "contracts.repair:REPAIR_NODE"),
        contract_ob(f"{P}.P6.schema", "repair: returns the same document; fix off => untouched", lambda: RC.REPAIR, "contracts.repair:REPAIR"),
        contract_ob(f"{P}.P6.noschema", "repair without schema: untouched, empty log", lambda: RC.REPAIR_NO_SCHEMA, "contracts.repair:REPAIR_NO_SCHEMA"),
        Ob(f"{P}.F1", "F", "assigns of repair's closure ⊆ {Assignment.value, RepairLog.repairs}", FUNCS, ob_frames),
        Ob(f"{P}.L1", "L", "idempotence of repair from the attempts' contracts", FUNCS, ob_idempotence),
    ]
    # `with fix off no value changes` at the tools: the switch repair() receives is the caller's argument (bound once,
    # never recomputed from the profile or anything else) and the document is not mutated outside the repair branch
    from props import C09 as _C09

    obs += [
        Ob(f"{P}.F2.validate", "F", "octave_validate: the fix switch is the caller's argument, bound once; with it off the document reaches the emitter unmutated", ["octave_mcp.mcp.validate:ValidateTool.execute"], _C09.ob_fix_off_readonly("octave_mcp.mcp.validate", "ValidateTool.execute", ("fix",))),
        Ob(f"{P}.F2.write", "F", "octave_write: the lenient switch is the caller's argument, bound once; with it off schema validation does not alter the document", ["octave_mcp.mcp.write:WriteTool.execute"], _C09.ob_fix_off_readonly("octave_mcp.mcp.write", "WriteTool.execute", _C09.WRITE_FIX_GUARDS, region_guard=_C09.WRITE_REGION_GUARD)),
    ]
    try:
        from props import C11_b

        obs.append(Ob(f"{P}.B1", "B", "perturbed instances through repair(), octave_validate(fix), octave_write(lenient, schema)", FUNCS, C11_b.ob_b1, timeout=3000))
    except ImportError:
        pass
    from props import lexical as _LX

    obs += [o for o in _LX.emit_layout_obs(P) if o.oid.endswith('.P.emit.value')]  # the repaired number is written as the number it is
    return obs
