"""Parser progress (C20, termination clause): a path analysis of every `while` loop of parser.py.

A loop is PROVED to make progress when
  (E) it cannot continue once the current token is EOF: its condition is false under `self.current().type == EOF`
      (three-valued evaluation over ==, !=, in, not in, and, or, not; sets resolved from tuple literals, module constants
      and local set variables), or - for `while True` / undecidable conditions - a top-level `if` of the body whose test is
      true under EOF ends in break / return / raise before any consuming statement; and
  (P) every path through the body that comes back to the loop head (falls off the end or `continue`s) has executed a
      direct `self.advance()` or `self.expect(...)` (calls of other parser methods and nested loops count for nothing).
With the variant len(tokens) - 1 - pos this gives termination of that loop: `advance` increments pos whenever the current
token is not the last one, the lexer ends every stream with its only EOF token (so current != EOF means pos < len - 1),
and by (E) the loop is not running at EOF. `advance` / `expect` themselves are pinned on the AST.

Index scans (`while i < len(self.tokens) ...` with `i += 1` on every back path) are proved with the variant len - i. The
main loops of the four structural readers (document body, block children, section children, list items) consume through
callees: they are proved MODULO the assumption that a call of a value / item / section reader consumes a token (listed in
the evidence, explored by the bounded tier). A loop that is not proved runs the hang probe: fails => violation, passes =>
undecided. No baseline file: the obligation is about every `while` loop of the class as it is now.
"""
from __future__ import annotations

import ast
import json
import os

from verif import extract

PARSER = "octave_mcp.core.parser"
MAX_PATHS = 20000
ASSUMED_CONSUMERS = ("parse_section", "parse_list_item", "parse_value", "parse_flow_expression", "parse_section_marker", "parse_literal_zone", "parse_list", "parse_meta_block")
STRUCTURAL = ("parse_document", "parse_section_marker", "parse_section", "parse_list")  # functions whose main loop consumes through callees


def _module_sets() -> dict[str, set[str]]:
    out = {}
    for k, v in extract.module_consts(PARSER).items():
        if isinstance(v, frozenset) and all(isinstance(x, extract.Sym) for x in v):
            out[k] = {x.attr for x in v}
    return out


def _local_sets(fn: ast.AST) -> dict[str, set[str]]:
    """local names only ever bound to set / tuple literals of TokenType members (plus .add of such members)"""
    out: dict[str, set[str]] = {}
    bad: set[str] = set()

    def members(e):
        if isinstance(e, (ast.Set, ast.Tuple, ast.List)) and all(isinstance(x, ast.Attribute) and ast.unparse(x.value) == "TokenType" for x in e.elts):
            return {x.attr for x in e.elts}
        return None

    for n in ast.walk(fn):
        if isinstance(n, ast.Assign) and len(n.targets) == 1 and isinstance(n.targets[0], ast.Name):
            m = members(n.value)
            if m is None:
                bad.add(n.targets[0].id)
            else:
                out.setdefault(n.targets[0].id, set()).update(m)
        if isinstance(n, ast.Call) and isinstance(n.func, ast.Attribute) and n.func.attr == "add" and isinstance(n.func.value, ast.Name) and n.args:
            a = n.args[0]
            if isinstance(a, ast.Attribute) and ast.unparse(a.value) == "TokenType":
                out.setdefault(n.func.value.id, set()).add(a.attr)
            else:
                bad.add(n.func.value.id)
    return {k: v for k, v in out.items() if k not in bad}


def _under_eof(e: ast.AST, sets: dict[str, set[str]]):
    """True / False / None (unknown) for a test when the current token is EOF"""
    if isinstance(e, ast.Constant):
        return bool(e.value)
    if isinstance(e, ast.BoolOp):
        vals = [_under_eof(v, sets) for v in e.values]
        if isinstance(e.op, ast.And):
            return False if any(v is False for v in vals) else (True if all(v is True for v in vals) else None)
        return True if any(v is True for v in vals) else (False if all(v is False for v in vals) else None)
    if isinstance(e, ast.UnaryOp) and isinstance(e.op, ast.Not):
        v = _under_eof(e.operand, sets)
        return None if v is None else (not v)
    if isinstance(e, ast.Compare) and len(e.ops) == 1 and ast.unparse(e.left) == "self.current().type":
        op, rhs = e.ops[0], e.comparators[0]
        if isinstance(op, (ast.Eq, ast.NotEq)) and isinstance(rhs, ast.Attribute) and ast.unparse(rhs.value) == "TokenType":
            return (rhs.attr == "EOF") == isinstance(op, ast.Eq)
        if isinstance(op, (ast.In, ast.NotIn)):
            mem = None
            if isinstance(rhs, (ast.Tuple, ast.Set, ast.List)) and all(isinstance(x, ast.Attribute) and ast.unparse(x.value) == "TokenType" for x in rhs.elts):
                mem = {x.attr for x in rhs.elts}
            elif isinstance(rhs, ast.Name) and rhs.id in sets:
                mem = sets[rhs.id]
            if mem is not None:
                return ("EOF" in mem) == isinstance(op, ast.In)
    return None


def _consuming_call(n: ast.AST) -> bool:
    return isinstance(n, ast.Call) and isinstance(n.func, ast.Attribute) and n.func.attr in ("advance", "expect") and ast.unparse(n.func.value) == "self"


def _stmt_consumes(st: ast.stmt) -> bool:
    """a direct self.advance() / self.expect(...) evaluated unconditionally by this simple statement"""
    if not isinstance(st, (ast.Expr, ast.Assign, ast.AnnAssign, ast.AugAssign, ast.Return)):
        return False

    def walk(e):
        if isinstance(e, (ast.IfExp, ast.Lambda, ast.ListComp, ast.SetComp, ast.DictComp, ast.GeneratorExp)):
            return False
        if isinstance(e, ast.BoolOp):
            return walk(e.values[0])  # only the first operand is unconditional
        if _consuming_call(e):
            return True
        return any(walk(c) for c in ast.iter_child_nodes(e))

    v = getattr(st, "value", None)
    return v is not None and walk(v)


class TooManyPaths(Exception):
    pass


def _paths(stmts: list[ast.stmt], budget: list[int]) -> list[tuple[bool, str]]:
    """[(consumed, exit)] with exit in fall / continue / break / return / raise"""
    cur = [(False, "fall")]
    for st in stmts:
        nxt = []
        for consumed, ex in cur:
            if ex != "fall":
                nxt.append((consumed, ex))
                continue
            for c2, e2 in _stmt_paths(st, budget):
                nxt.append((consumed or c2, e2))
        cur = list(dict.fromkeys(nxt))
        budget[0] -= len(cur)
        if budget[0] < 0:
            raise TooManyPaths()
    return cur


def _stmt_paths(st: ast.stmt, budget: list[int]) -> list[tuple[bool, str]]:
    if isinstance(st, ast.Break):
        return [(False, "break")]
    if isinstance(st, ast.Continue):
        return [(False, "continue")]
    if isinstance(st, ast.Return):
        return [(_stmt_consumes(st), "return")]
    if isinstance(st, ast.Raise):
        return [(False, "raise")]
    if isinstance(st, ast.If):
        return list(dict.fromkeys(_paths(st.body, budget) + _paths(st.orelse, budget)))
    if isinstance(st, (ast.While, ast.For)):
        # zero iterations are possible; exits by return / raise inside do not come back to the outer head
        return [(False, "fall")]
    if isinstance(st, ast.Try):
        out = _paths(st.body + st.orelse, budget)
        for h in st.handlers:
            out += [(False, e) for _, e in _paths(h.body, budget)]  # the body may have raised before consuming
        if st.finalbody:
            out = [(c or c2, e if e2 == "fall" else e2) for c, e in out for c2, e2 in _paths(st.finalbody, budget)]
        return list(dict.fromkeys(out))
    if isinstance(st, ast.With):
        return _paths(st.body, budget)
    if isinstance(st, (ast.FunctionDef, ast.ClassDef, ast.Pass, ast.Import, ast.ImportFrom, ast.Global, ast.Nonlocal)):
        return [(False, "fall")]
    return [(_stmt_consumes(st), "fall")]


def _index_variable(test: ast.AST) -> str | None:
    parts = test.values if isinstance(test, ast.BoolOp) and isinstance(test.op, ast.And) else [test]
    for e in parts:
        if isinstance(e, ast.Compare) and len(e.ops) == 1 and isinstance(e.ops[0], ast.Lt) and isinstance(e.left, ast.Name) and ast.unparse(e.comparators[0]) == "len(self.tokens)":
            return e.left.id
    return None


def _all_back_paths_increment(body: list[ast.stmt], idx: str) -> bool:
    def inc(st):
        return isinstance(st, ast.AugAssign) and isinstance(st.op, ast.Add) and isinstance(st.target, ast.Name) and st.target.id == idx and isinstance(st.value, ast.Constant) and isinstance(st.value.value, int) and st.value.value > 0

    def other_store(st):
        return any(isinstance(n, ast.Name) and n.id == idx and isinstance(n.ctx, ast.Store) for n in ast.walk(st)) and not inc(st)

    if any(other_store(st) for st in ast.walk(ast.Module(body=body, type_ignores=[])) if isinstance(st, ast.stmt)):
        return False
    global _stmt_consumes
    saved = _stmt_consumes
    try:
        _stmt_consumes = lambda st: False  # noqa: E731
        marker_paths = _paths_with(body, inc)
    finally:
        _stmt_consumes = saved
    back = [(c, e) for c, e in marker_paths if e in ("fall", "continue")]
    return bool(marker_paths) and all(c for c, _ in back)


def _paths_with(stmts, marks) -> list[tuple[bool, str]]:
    """path enumeration where 'consumed' means: a statement satisfying `marks` was executed"""
    budget = [MAX_PATHS]

    def stmt_paths(st):
        if marks(st):
            return [(True, "fall")]
        if isinstance(st, ast.If):
            return list(dict.fromkeys(seq(st.body) + seq(st.orelse)))
        if isinstance(st, ast.Try):
            out = seq(st.body + st.orelse)
            for h in st.handlers:
                out += [(False, e) for _, e in seq(h.body)]
            return list(dict.fromkeys(out))
        if isinstance(st, ast.With):
            return seq(st.body)
        r = _stmt_paths(st, budget)
        return [(False, e) for _, e in r]

    def seq(ss):
        cur = [(False, "fall")]
        for st in ss:
            nxt = []
            for c, e in cur:
                if e != "fall":
                    nxt.append((c, e))
                    continue
                nxt += [(c or c2, e2) for c2, e2 in stmt_paths(st)]
            cur = list(dict.fromkeys(nxt))
            budget[0] -= len(cur)
            if budget[0] < 0:
                raise TooManyPaths()
        return cur

    return seq(stmts)


def analyse() -> list[dict]:
    tree = extract.module_ast(PARSER)
    msets = _module_sets()
    out = []
    for cls in [n for n in tree.body if isinstance(n, ast.ClassDef) and n.name == "Parser"]:
        for fn in [n for n in cls.body if isinstance(n, ast.FunctionDef)]:
            sets = dict(msets)
            sets.update(_local_sets(fn))
            loops = [n for n in ast.walk(fn) if isinstance(n, ast.While)]
            loops.sort(key=lambda n: (n.lineno, n.col_offset))
            for k, lp in enumerate(loops):
                rec = {"function": fn.name, "ordinal": k, "line": lp.lineno, "test": ast.unparse(lp.test)[:90]}
                # (E)
                ce = _under_eof(lp.test, sets)
                eof = ce is False
                how = "condition false at EOF" if eof else ""
                if not eof:
                    for st in lp.body:
                        if isinstance(st, ast.If) and _under_eof(st.test, sets) is True and st.body and isinstance(st.body[-1], (ast.Break, ast.Return, ast.Raise)):
                            eof, how = True, f"L{st.lineno}: exits at EOF"
                            break
                        if isinstance(st, ast.While) and _under_eof(st.test, sets) is False:
                            continue  # a nested loop that does not run at EOF
                        if any(_consuming_call(c) for c in ast.walk(st)):
                            break
                rec["eof_exit"] = eof
                rec["eof_how"] = how
                # (P)
                try:
                    paths = _paths(lp.body, [MAX_PATHS])
                    back = [(c, e) for c, e in paths if e in ("fall", "continue")]
                    rec["progress"] = bool(paths) and all(c for c, _ in back)
                    rec["paths"] = len(paths)
                    rec["back_paths_without_consumption"] = sum(1 for c, _ in back if not c)
                except TooManyPaths:
                    rec["progress"] = False
                    rec["paths"] = None
                rec["proved"] = bool(rec["eof_exit"] and rec["progress"])
                rec["variant"] = "len(tokens) - 1 - pos" if rec["proved"] else None
                if not rec["proved"]:
                    # index scans: `while X < len(self.tokens) and ...` where every back path executes `X += <positive constant>`
                    idx = _index_variable(lp.test)
                    if idx is not None:
                        try:
                            ok = _all_back_paths_increment(lp.body, idx)
                        except TooManyPaths:
                            ok = False
                        if ok:
                            rec["proved"] = True
                            rec["variant"] = f"len(tokens) - {idx}"
                rec["proved_modulo_callees"] = False
                if not rec["proved"] and rec["eof_exit"]:
                    # structural loops consume through callees: the same path condition with calls of the value / item /
                    # section readers counted as consuming (an ASSUMPTION about those callees, explored by the bounded tier)
                    global _consuming_call
                    saved = _consuming_call
                    try:
                        _consuming_call = lambda n: saved(n) or (isinstance(n, ast.Call) and isinstance(n.func, ast.Attribute) and ast.unparse(n.func.value) == "self" and n.func.attr in ASSUMED_CONSUMERS)  # noqa: E731
                        paths = _paths(lp.body, [MAX_PATHS])
                        back = [(c, e) for c, e in paths if e in ("fall", "continue")]
                        rec["proved_modulo_callees"] = bool(paths) and all(c for c, _ in back)
                    except TooManyPaths:
                        pass
                    finally:
                        _consuming_call = saved
                out.append(rec)
    return out


def helpers_pinned() -> list[str]:
    problems = []
    want = {
        "Parser.current": "if self.pos >= len(self.tokens):\n    return self.tokens[-1]\nreturn self.tokens[self.pos]",
        "Parser.advance": "token = self.current()\nif self.pos < len(self.tokens) - 1:\n    self.pos += 1\nreturn token",
        "Parser.expect": "token = self.current()\nif token.type != token_type:\n    raise ParserError(f'Expected {token_type}, got {token.type}', token)\nreturn self.advance()",
    }
    for q, text in want.items():
        fn = extract.find_def(PARSER, q)
        body = [b for b in fn.body if not (isinstance(b, ast.Expr) and isinstance(b.value, ast.Constant))]
        got = "\n".join(ast.unparse(b) for b in body)
        if got != text:
            problems.append(f"{q} is no longer `{text.splitlines()[1].strip()} ...`")
    return problems
