"""Parser progress (C20, termination clause): a path analysis of every `while` loop of parser.py.

A loop is PROVED to make progress when
  (E) it cannot continue once the current token is EOF: its condition is false under `self.current().type == EOF`
      (three-valued evaluation over ==, !=, in, not in, and, or, not; sets resolved from tuple literals, module constants
      and local set variables), or - for `while True` / undecidable conditions - a top-level `if` of the body whose test is
      true under EOF ends in break / return / raise before any consuming statement; and
  (P) every path through the body that comes back to the loop head (falls off the end or `continue`s) has executed a
      direct `self.advance()` or `self.expect(...)` (calls of other parser methods and nested loops count for nothing).
With the variant len(tokens) - 1 - pos this gives termination of that loop: `advance` increments pos whenever the current
token is not the last one, the lexer ends every stream with its only EOF token (so current != EOF means pos < len - 1),
and by (E) the loop is not running at EOF. `advance` / `expect` themselves are pinned on the AST.

Index scans (`while i < len(self.tokens) ...` with `i += 1` on every back path) are proved with the variant len - i. The
main loops of the structural readers (document body, block children, section children, list items) consume through
callees. Those callees are under CONTRACTS proved by the same path engine as a least fixpoint over the methods of Parser
(`parser_contracts`): CONSUMES(f) - every normal return of f has called advance(); CONSUMES_IF(f, S) - the same when f is
entered with the current token's type in S (checked at each call site against the type fact of the path: guards on
`self.current().type` or on a local bound to `self.current()` with no advance since); TRUTHY(f) - a normal return has
consumed or returns a falsy value (used under `if result:`). A statement that may advance splits the path in two: it
consumed, or pos - hence the current token and every fact about it - is unchanged; that is sound because `self.pos` is
stored by `advance` alone (`pos_frame_pinned`). A back path is accepted when it consumed, or when it ends with a type fact
under which the loop condition is false. A loop that is not proved runs the hang probe: fails => violation, passes =>
undecided. No baseline file: the obligation is about every `while` loop of the class as it is now.
"""
from __future__ import annotations

import ast
import json
import os

from verif import extract

PARSER = "octave_mcp.core.parser"
MAX_PATHS = 20000
ASSUMED_CONSUMERS: tuple = ()  # was: the value / item / section readers; their contracts are proved now (parser_contracts)
STRUCTURAL = ("parse_document", "parse_section_marker", "parse_section", "parse_list")  # functions whose main loop consumes through callees


def _module_sets() -> dict[str, set[str]]:
    out = {}
    for k, v in extract.module_consts(PARSER).items():
        if isinstance(v, frozenset) and all(isinstance(x, extract.Sym) for x in v):
            out[k] = {x.attr for x in v}
    return out


def _local_sets(fn: ast.AST) -> dict[str, set[str]]:
    """local names only ever bound to set / tuple literals of TokenType members (plus .add of such members)"""
    out: dict[str, set[str]] = {}
    bad: set[str] = set()

    def members(e):
        if isinstance(e, (ast.Set, ast.Tuple, ast.List)) and all(isinstance(x, ast.Attribute) and ast.unparse(x.value) == "TokenType" for x in e.elts):
            return {x.attr for x in e.elts}
        return None

    for n in ast.walk(fn):
        if isinstance(n, ast.Assign) and len(n.targets) == 1 and isinstance(n.targets[0], ast.Name):
            m = members(n.value)
            if m is None:
                bad.add(n.targets[0].id)
            else:
                out.setdefault(n.targets[0].id, set()).update(m)
        if isinstance(n, ast.Call) and isinstance(n.func, ast.Attribute) and n.func.attr == "add" and isinstance(n.func.value, ast.Name) and n.args:
            a = n.args[0]
            if isinstance(a, ast.Attribute) and ast.unparse(a.value) == "TokenType":
                out.setdefault(n.func.value.id, set()).add(a.attr)
            else:
                bad.add(n.func.value.id)
    return {k: v for k, v in out.items() if k not in bad}


def _under_type(e: ast.AST, sets: dict[str, set[str]], t: str, subjects: tuple[str, ...] = ("self.current().type",)):
    """True / False / None (unknown) for a test when the current token's type is `t`"""
    if isinstance(e, ast.Constant):
        return bool(e.value)
    if isinstance(e, ast.BoolOp):
        vals = [_under_type(v, sets, t, subjects) for v in e.values]
        if isinstance(e.op, ast.And):
            return False if any(v is False for v in vals) else (True if all(v is True for v in vals) else None)
        return True if any(v is True for v in vals) else (False if all(v is False for v in vals) else None)
    if isinstance(e, ast.UnaryOp) and isinstance(e.op, ast.Not):
        v = _under_type(e.operand, sets, t, subjects)
        return None if v is None else (not v)
    if isinstance(e, ast.Compare) and len(e.ops) == 1 and ast.unparse(e.left) in subjects:
        op, rhs = e.ops[0], e.comparators[0]
        if isinstance(op, (ast.Eq, ast.NotEq, ast.Is, ast.IsNot)) and isinstance(rhs, ast.Attribute) and ast.unparse(rhs.value) == "TokenType":
            return (rhs.attr == t) == isinstance(op, (ast.Eq, ast.Is))
        if isinstance(op, (ast.In, ast.NotIn)):
            mem = None
            if isinstance(rhs, (ast.Tuple, ast.Set, ast.List)) and all(isinstance(x, ast.Attribute) and ast.unparse(x.value) == "TokenType" for x in rhs.elts):
                mem = {x.attr for x in rhs.elts}
            elif isinstance(rhs, ast.Name) and rhs.id in sets:
                mem = sets[rhs.id]
            if mem is not None:
                return (t in mem) == isinstance(op, ast.In)
    return None


def _under_eof(e: ast.AST, sets: dict[str, set[str]]):
    """True / False / None (unknown) for a test when the current token is EOF"""
    return _under_type(e, sets, "EOF")


def _consuming_call(n: ast.AST) -> bool:
    return isinstance(n, ast.Call) and isinstance(n.func, ast.Attribute) and n.func.attr in ("advance", "expect") and ast.unparse(n.func.value) == "self"


def _stmt_consumes(st: ast.stmt) -> bool:
    """a direct self.advance() / self.expect(...) evaluated unconditionally by this simple statement"""
    if not isinstance(st, (ast.Expr, ast.Assign, ast.AnnAssign, ast.AugAssign, ast.Return)):
        return False

    def walk(e):
        if isinstance(e, (ast.IfExp, ast.Lambda, ast.ListComp, ast.SetComp, ast.DictComp, ast.GeneratorExp)):
            return False
        if isinstance(e, ast.BoolOp):
            return walk(e.values[0])  # only the first operand is unconditional
        if _consuming_call(e):
            return True
        return any(walk(c) for c in ast.iter_child_nodes(e))

    v = getattr(st, "value", None)
    return v is not None and walk(v)


class TooManyPaths(Exception):
    pass


def _paths(stmts: list[ast.stmt], budget: list[int]) -> list[tuple[bool, str]]:
    """[(consumed, exit)] with exit in fall / continue / break / return / raise"""
    cur = [(False, "fall")]
    for st in stmts:
        nxt = []
        for consumed, ex in cur:
            if ex != "fall":
                nxt.append((consumed, ex))
                continue
            for c2, e2 in _stmt_paths(st, budget):
                nxt.append((consumed or c2, e2))
        cur = list(dict.fromkeys(nxt))
        budget[0] -= len(cur)
        if budget[0] < 0:
            raise TooManyPaths()
    return cur


def _stmt_paths(st: ast.stmt, budget: list[int]) -> list[tuple[bool, str]]:
    if isinstance(st, ast.Break):
        return [(False, "break")]
    if isinstance(st, ast.Continue):
        return [(False, "continue")]
    if isinstance(st, ast.Return):
        return [(_stmt_consumes(st), "return")]
    if isinstance(st, ast.Raise):
        return [(False, "raise")]
    if isinstance(st, ast.If):
        return list(dict.fromkeys(_paths(st.body, budget) + _paths(st.orelse, budget)))
    if isinstance(st, (ast.While, ast.For)):
        # zero iterations are possible; exits by return / raise inside do not come back to the outer head
        return [(False, "fall")]
    if isinstance(st, ast.Try):
        out = _paths(st.body + st.orelse, budget)
        for h in st.handlers:
            out += [(False, e) for _, e in _paths(h.body, budget)]  # the body may have raised before consuming
        if st.finalbody:
            out = [(c or c2, e if e2 == "fall" else e2) for c, e in out for c2, e2 in _paths(st.finalbody, budget)]
        return list(dict.fromkeys(out))
    if isinstance(st, ast.With):
        return _paths(st.body, budget)
    if isinstance(st, (ast.FunctionDef, ast.ClassDef, ast.Pass, ast.Import, ast.ImportFrom, ast.Global, ast.Nonlocal)):
        return [(False, "fall")]
    return [(_stmt_consumes(st), "fall")]


def _index_variable(test: ast.AST) -> str | None:
    parts = test.values if isinstance(test, ast.BoolOp) and isinstance(test.op, ast.And) else [test]
    for e in parts:
        if isinstance(e, ast.Compare) and len(e.ops) == 1 and isinstance(e.ops[0], ast.Lt) and isinstance(e.left, ast.Name) and ast.unparse(e.comparators[0]) == "len(self.tokens)":
            return e.left.id
    return None


def _all_back_paths_increment(body: list[ast.stmt], idx: str) -> bool:
    def inc(st):
        return isinstance(st, ast.AugAssign) and isinstance(st.op, ast.Add) and isinstance(st.target, ast.Name) and st.target.id == idx and isinstance(st.value, ast.Constant) and isinstance(st.value.value, int) and st.value.value > 0

    def other_store(st):
        return any(isinstance(n, ast.Name) and n.id == idx and isinstance(n.ctx, ast.Store) for n in ast.walk(st)) and not inc(st)

    if any(other_store(st) for st in ast.walk(ast.Module(body=body, type_ignores=[])) if isinstance(st, ast.stmt)):
        return False
    global _stmt_consumes
    saved = _stmt_consumes
    try:
        _stmt_consumes = lambda st: False  # noqa: E731
        marker_paths = _paths_with(body, inc)
    finally:
        _stmt_consumes = saved
    back = [(c, e) for c, e in marker_paths if e in ("fall", "continue")]
    return bool(marker_paths) and all(c for c, _ in back)


def _paths_with(stmts, marks) -> list[tuple[bool, str]]:
    """path enumeration where 'consumed' means: a statement satisfying `marks` was executed"""
    budget = [MAX_PATHS]

    def stmt_paths(st):
        if marks(st):
            return [(True, "fall")]
        if isinstance(st, ast.If):
            return list(dict.fromkeys(seq(st.body) + seq(st.orelse)))
        if isinstance(st, ast.Try):
            out = seq(st.body + st.orelse)
            for h in st.handlers:
                out += [(False, e) for _, e in seq(h.body)]
            return list(dict.fromkeys(out))
        if isinstance(st, ast.With):
            return seq(st.body)
        r = _stmt_paths(st, budget)
        return [(False, e) for _, e in r]

    def seq(ss):
        cur = [(False, "fall")]
        for st in ss:
            nxt = []
            for c, e in cur:
                if e != "fall":
                    nxt.append((c, e))
                    continue
                nxt += [(c or c2, e2) for c2, e2 in stmt_paths(st)]
            cur = list(dict.fromkeys(nxt))
            budget[0] -= len(cur)
            if budget[0] < 0:
                raise TooManyPaths()
        return cur

    return seq(stmts)


def analyse() -> list[dict]:
    tree = extract.module_ast(PARSER)
    msets = _module_sets()
    out = []
    K = None
    for cls in [n for n in tree.body if isinstance(n, ast.ClassDef) and n.name == "Parser"]:
        for fn in [n for n in cls.body if isinstance(n, ast.FunctionDef)]:
            sets = dict(msets)
            sets.update(_local_sets(fn))
            loops = [n for n in ast.walk(fn) if isinstance(n, ast.While)]
            loops.sort(key=lambda n: (n.lineno, n.col_offset))
            for k, lp in enumerate(loops):
                rec = {"function": fn.name, "ordinal": k, "line": lp.lineno, "test": ast.unparse(lp.test)[:90]}
                # (E)
                ce = _under_eof(lp.test, sets)
                eof = ce is False
                how = "condition false at EOF" if eof else ""
                if not eof:
                    for st in lp.body:
                        if isinstance(st, ast.If) and _under_eof(st.test, sets) is True and st.body and isinstance(st.body[-1], (ast.Break, ast.Return, ast.Raise)):
                            eof, how = True, f"L{st.lineno}: exits at EOF"
                            break
                        if isinstance(st, ast.While) and _under_eof(st.test, sets) is False:
                            continue  # a nested loop that does not run at EOF
                        if any(_consuming_call(c) for c in ast.walk(st)):
                            break
                rec["eof_exit"] = eof
                rec["eof_how"] = how
                # (P)
                try:
                    paths = _paths(lp.body, [MAX_PATHS])
                    back = [(c, e) for c, e in paths if e in ("fall", "continue")]
                    rec["progress"] = bool(paths) and all(c for c, _ in back)
                    rec["paths"] = len(paths)
                    rec["back_paths_without_consumption"] = sum(1 for c, _ in back if not c)
                except TooManyPaths:
                    rec["progress"] = False
                    rec["paths"] = None
                rec["proved"] = bool(rec["eof_exit"] and rec["progress"])
                rec["variant"] = "len(tokens) - 1 - pos" if rec["proved"] else None
                if not rec["proved"]:
                    # index scans: `while X < len(self.tokens) and ...` where every back path executes `X += <positive constant>`
                    idx = _index_variable(lp.test)
                    if idx is not None:
                        try:
                            ok = _all_back_paths_increment(lp.body, idx)
                        except TooManyPaths:
                            ok = False
                        if ok:
                            rec["proved"] = True
                            rec["variant"] = f"len(tokens) - {idx}"
                rec["proved_modulo_callees"] = False
                rec["proved_by_contracts"] = False
                if not rec["proved"] and rec["eof_exit"]:
                    # loops that consume through callees: the callees' contracts (CONSUMES / CONSUMES_IF / TRUTHY) are PROVED
                    # by parser_contracts() as a least fixpoint - nothing about them is assumed any more
                    if K is None:
                        K, _why = parser_contracts()
                    ok, how = structural_loop_proved(fn, lp, K, msets)
                    rec["proved_by_contracts"] = ok
                    rec["contract_detail"] = how
                    if ok:
                        rec["proved"] = True
                        rec["variant"] = "len(tokens) - 1 - pos (consumption through callees under proved contracts)"
                out.append(rec)
    return out


def helpers_pinned() -> list[str]:
    problems = []
    want = {
        "Parser.current": "if self.pos >= len(self.tokens):\n    return self.tokens[-1]\nreturn self.tokens[self.pos]",
        "Parser.advance": "token = self.current()\nif self.pos < len(self.tokens) - 1:\n    self.pos += 1\nreturn token",
        "Parser.expect": "token = self.current()\nif token.type != token_type:\n    raise ParserError(f'Expected {token_type}, got {token.type}', token)\nreturn self.advance()",
    }
    for q, text in want.items():
        fn = extract.find_def(PARSER, q)
        body = [b for b in fn.body if not (isinstance(b, ast.Expr) and isinstance(b.value, ast.Constant))]
        got = "\n".join(ast.unparse(b) for b in body)
        if got != text:
            problems.append(f"{q} is no longer `{text.splitlines()[1].strip()} ...`")
    return problems


# ---------------------------------------------------------------------------------------------------------------------
# Callee contracts "consumes a token or raises" (replaces the former ASSUMPTION about the value / item / section readers)
# ---------------------------------------------------------------------------------------------------------------------
#
# Contract CONSUMES(f): every execution of Parser.f that RETURNS NORMALLY has evaluated a direct self.advance() /
# self.expect(...) or a call self.g(...) of a method g with CONSUMES(g). Proved by path enumeration of the whole body of f
# (if / try / with; `while True` falls through only by `break`; other loops may run zero times; a `return` / `break`
# inside a loop carries what that one iteration consumed - earlier iterations can only have consumed more) as the LEAST
# fixpoint over the methods of Parser: f enters the set only when every return path consumes through members already in
# it, so mutual recursion is never used to justify itself. A return path of the shape `if <test true only at EOF-like
# token>: return` is NOT exempted: the contract is unconditional.
# Soundness needs: pos is stored nowhere but in __init__ (reset to 0 once) and advance (pos_frame_pinned).


def pos_frame_pinned() -> list[str]:
    """`self.pos` is assigned only in Parser.__init__ and Parser.advance (no backtracking store anywhere in the module)"""
    tree = extract.module_ast(PARSER)
    bad = []
    for cls in [n for n in tree.body if isinstance(n, ast.ClassDef)]:
        for fn in [n for n in cls.body if isinstance(n, (ast.FunctionDef, ast.AsyncFunctionDef))]:
            for n in ast.walk(fn):
                tgt = []
                if isinstance(n, ast.Assign):
                    tgt = n.targets
                elif isinstance(n, (ast.AugAssign, ast.AnnAssign)):
                    tgt = [n.target]
                elif isinstance(n, (ast.For, ast.AsyncFor)):
                    tgt = [n.target]
                elif isinstance(n, (ast.With, ast.AsyncWith)):
                    tgt = [i.optional_vars for i in n.items if i.optional_vars is not None]
                elif isinstance(n, ast.NamedExpr):
                    tgt = [n.target]
                elif isinstance(n, ast.Delete):
                    tgt = n.targets
                for t in tgt:
                    for a in ast.walk(t):
                        if isinstance(a, ast.Attribute) and a.attr == "pos" and not (cls.name == "Parser" and fn.name in ("__init__", "advance")):
                            bad.append(f"{cls.name}.{fn.name} L{n.lineno}: stores `{ast.unparse(a)}`")
                if isinstance(n, ast.Call) and ast.unparse(n.func) in ("setattr", "object.__setattr__") and len(n.args) >= 2 and not (isinstance(n.args[1], ast.Constant) and n.args[1].value != "pos"):
                    bad.append(f"{cls.name}.{fn.name} L{n.lineno}: setattr with a name that may be 'pos'")
                if isinstance(n, ast.Attribute) and n.attr == "__dict__":
                    bad.append(f"{cls.name}.{fn.name} L{n.lineno}: touches __dict__")
    return bad


class _Contracts:
    """contracts on Parser methods used by the path engine (all proved by it, least fixpoint; nothing assumed)"""

    def __init__(self):
        self.known: set[str] = set()  # CONSUMES(f): every normal return has consumed
        self.cond: dict[str, frozenset] = {}  # CONSUMES_IF(f, S): ... when entered with current.type in S
        self.truthy: set[str] = set()  # TRUTHY(f): a normal return has consumed, or returns a falsy value
        self.may_adv: set[str] = set()  # may call advance() (transitively); every other method leaves pos alone
        self.sets: dict[str, set[str]] = {}
        self.all_types: frozenset = frozenset()


def _token_types() -> frozenset:
    tree = extract.module_ast("octave_mcp.core.lexer")
    cls = next(n for n in tree.body if isinstance(n, ast.ClassDef) and n.name == "TokenType")
    names = set()
    for st in cls.body:
        if isinstance(st, ast.Assign) and len(st.targets) == 1 and isinstance(st.targets[0], ast.Name):
            names.add(st.targets[0].id)
    return frozenset(names)


def _self_calls(n: ast.AST) -> set[str]:
    return {c.func.attr for c in ast.walk(n) if isinstance(c, ast.Call) and isinstance(c.func, ast.Attribute) and ast.unparse(c.func.value) == "self"}


def _self_escapes(n: ast.AST) -> bool:
    """bare `self` used other than as the object of an attribute access (passed on, stored, captured)"""
    attr_bases = {id(a.value) for a in ast.walk(n) if isinstance(a, ast.Attribute)}
    return any(isinstance(x, ast.Name) and x.id == "self" and id(x) not in attr_bases for x in ast.walk(n))


def _may_advance_methods(fns: dict[str, ast.FunctionDef]) -> set[str]:
    may = {"advance", "expect"}
    changed = True
    while changed:
        changed = False
        for name, fn in fns.items():
            if name in may:
                continue
            if _self_calls(fn) & may or any(_self_escapes(st) for st in fn.body):
                may.add(name)
                changed = True
    return may


_ST = tuple  # (consumed, tv, aliases, fact, exit, rk)


def _xpaths(stmts: list[ast.stmt], K: _Contracts, init: tuple, budget: list[int]) -> list[tuple]:
    """paths through a statement list. State: consumed (a token was consumed for certain), tv (locals holding the result
    of a TRUTHY method), aliases (locals holding self.current() with no advance since), fact (over-approximation of the
    current token's type, None = any; reset by anything that may advance), exit, rk (kind of returned value)."""

    def may_adv(n):
        return bool(_self_calls(n) & K.may_adv) or _self_escapes(n)

    def call_consumes(n, fact):
        if not (isinstance(n, ast.Call) and isinstance(n.func, ast.Attribute) and ast.unparse(n.func.value) == "self"):
            return False
        a = n.func.attr
        if a in ("advance", "expect") or a in K.known:
            return True
        return a in K.cond and fact is not None and fact <= K.cond[a]

    def uncond(e, fact):
        """a consuming call evaluated unconditionally (and first: before anything else that may advance) by expression e"""
        if isinstance(e, (ast.IfExp, ast.Lambda, ast.ListComp, ast.SetComp, ast.DictComp, ast.GeneratorExp)):
            return False
        if isinstance(e, ast.BoolOp):
            return uncond(e.values[0], fact)
        if call_consumes(e, fact):
            return True
        if isinstance(e, ast.Call) and e.func is not None and may_adv(e) and not call_consumes(e, fact):
            # arguments are evaluated before the call: look into them, but a may-advance non-consumer voids the fact
            return any(uncond(c, fact) for c in list(e.args) + [k.value for k in e.keywords])
        return any(uncond(c, fact) for c in ast.iter_child_nodes(e))

    def stores(st):
        return {n.id for n in ast.walk(st) if isinstance(n, ast.Name) and isinstance(n.ctx, (ast.Store, ast.Del))}

    def refine(test, al, fact):
        subj = ("self.current().type",) + tuple(f"{a}.type" for a in al)
        base = fact if fact is not None else K.all_types
        th = frozenset(t for t in base if _under_type(test, K.sets, t, subj) is not False)
        el = frozenset(t for t in base if _under_type(test, K.sets, t, subj) is not True)
        return (None if th == K.all_types else th), (None if el == K.all_types else el)

    def simple(st, state):
        c, tv, al, fact, _, _ = state
        v = getattr(st, "value", None)
        cons = v is not None and uncond(v, fact)
        ma = may_adv(st)
        sto = stores(st)
        tv2, al2 = tv - sto, al - sto
        if isinstance(st, ast.Assign) and len(st.targets) == 1 and isinstance(st.targets[0], ast.Name) and isinstance(st.value, ast.Call):
            f = st.value.func
            if isinstance(f, ast.Attribute) and ast.unparse(f.value) == "self":
                if f.attr in K.truthy:
                    tv2 = tv2 | {st.targets[0].id}
                if f.attr == "current" and not st.value.args:
                    al2 = al2 | {st.targets[0].id}
        if cons:
            return [(True, tv2, frozenset(), None)]
        if ma:
            # pos is written by advance() alone, and only upwards: either the statement consumed at least one token, or pos -
            # hence the current token, the type fact and the aliases - is what it was
            return [(True, tv2, frozenset(), None), (c, tv2, al2, fact)]
        return [(c, tv2, al2, fact)]

    def stmt(st, state):
        c, tv, al, fact, _, _ = state
        if isinstance(st, ast.Break):
            return [(c, tv, al, fact, "break", None)]
        if isinstance(st, ast.Continue):
            return [(c, tv, al, fact, "continue", None)]
        if isinstance(st, ast.Raise):
            return [(c, tv, al, fact, "raise", None)]
        if isinstance(st, ast.Return):
            outs = []
            for c2, tv2, al2, fact2 in simple(st, state):
                outs.append(_ret(st, c2, tv, tv2, al2, fact2))
            return outs
        if False:
            c2 = tv2 = al2 = fact2 = None
            v = st.value
            if c2:
                rk = "consumed"
            elif v is None or (isinstance(v, ast.Constant) and not v.value):
                rk = "falsy"
            elif isinstance(v, ast.Name) and v.id in tv:
                rk = "tv"
            elif isinstance(v, ast.Call) and isinstance(v.func, ast.Attribute) and ast.unparse(v.func.value) == "self" and v.func.attr in K.truthy:
                rk = "tv"
            else:
                rk = "other"
            return [(c2, tv2, al2, fact2, "return", rk)]
        if isinstance(st, ast.If):
            t = st.test
            cons_t = uncond(t, fact)
            ma = may_adv(t)
            th_c = el_c = c or cons_t
            if isinstance(t, ast.Name) and t.id in tv:
                th_c = True
            if isinstance(t, ast.UnaryOp) and isinstance(t.op, ast.Not) and isinstance(t.operand, ast.Name) and t.operand.id in tv:
                el_c = True
            if isinstance(t, ast.BoolOp) and isinstance(t.op, ast.And) and any(isinstance(x, ast.Name) and x.id in tv for x in t.values):
                th_c = True
            if isinstance(t, ast.Compare) and len(t.ops) == 1 and isinstance(t.left, ast.Name) and t.left.id in tv and isinstance(t.comparators[0], ast.Constant) and t.comparators[0].value is None:
                if isinstance(t.ops[0], ast.IsNot):
                    pass  # `x is not None` does not give truthiness of other falsy values: no conclusion
            thf, elf = refine(t, al, fact)
            sto = stores(t)
            out = seq(st.body, (th_c, tv - sto, al, thf, "fall", None)) + seq(st.orelse, (el_c, tv - sto, al, elf, "fall", None))
            if ma:  # the test itself may have consumed: then nothing is known about the current token
                out += seq(st.body, (True, tv - sto, frozenset(), None, "fall", None)) + seq(st.orelse, (True, tv - sto, frozenset(), None, "fall", None))
            return list(dict.fromkeys(out))
        if isinstance(st, (ast.While, ast.For, ast.AsyncFor)):
            sto = stores(st)
            infinite = isinstance(st, ast.While) and isinstance(st.test, ast.Constant) and st.test.value is True
            test = st.test if isinstance(st, ast.While) else None
            test_pure = test is not None and not may_adv(test)
            out = []
            # the first iteration is entered with the incoming fact refined by the test; later ones with what the test alone says
            runs_at_least_once = False
            if test_pure and fact is not None and fact and all(_under_type(test, K.sets, t, ("self.current().type",) + tuple(f"{a}.type" for a in al)) is True for t in fact):
                runs_at_least_once = True
            if isinstance(st, ast.While) and not test_pure:
                cons_t = uncond(test, fact)
            else:
                cons_t = False
            if test_pure:
                in_f, out_f = refine(test, frozenset(), None)
            else:
                in_f = out_f = None
            body_ma = any(may_adv(b) for b in st.body)
            if not infinite and not runs_at_least_once:
                zf = None
                if test_pure and not body_ma:
                    zf = refine(test, al, fact)[1]
                elif test_pure:
                    zf = out_f
                out += seq(st.orelse, (c or cons_t, tv - sto, (al - sto) if not body_ma else frozenset(), zf, "fall", None)) if st.orelse else [(c or cons_t, tv - sto, (al - sto) if not body_ma else frozenset(), zf, "fall", None)]
            if runs_at_least_once and not body_ma:
                first_f = refine(test, al, fact)[0]
                first_al = al - sto
            elif runs_at_least_once:
                # only the FIRST iteration sees the incoming fact; analyse it separately and let it stand for the consumption
                first_f = refine(test, al, fact)[0]
                first_al = al - sto
            else:
                first_f, first_al = in_f, frozenset()
            starts = [(c or cons_t, tv - sto, first_al, first_f, "fall", None)]
            if runs_at_least_once:
                pass
            inner = []
            for s0 in starts:
                inner += seq(st.body, s0)
            if runs_at_least_once:
                # after the first iteration (whose every non-raising path is in `inner`) further iterations may follow:
                # they can only add consumption. Exits: break / return from any iteration; condition false after an iteration.
                later = seq(st.body, (c or cons_t, tv - sto, frozenset(), in_f, "fall", None))
                first_all_consume = all(x[0] for x in inner if x[4] in ("fall", "continue", "break", "return"))
                for x in inner:
                    if x[4] in ("return", "raise"):
                        out.append(x)
                    elif x[4] == "break":
                        out.append((x[0], x[1], x[2], x[3], "fall", None))
                    else:  # fall / continue: the loop may stop here (condition false) or go on
                        out.append((x[0], x[1] - sto, frozenset(), out_f if test_pure else None, "fall", None))
                for x in later:
                    cc = x[0] or first_all_consume
                    if x[4] in ("return", "raise"):
                        out.append((cc,) + x[1:])
                    elif x[4] == "break":
                        out.append((cc, x[1], x[2], x[3], "fall", None))
            else:
                for x in inner:
                    if x[4] in ("return", "raise"):
                        out.append(x)
                    elif x[4] == "break":
                        out.append((x[0], x[1], x[2], x[3], "fall", None))
                    elif infinite:
                        pass  # comes back to the head: no exit here
                    # non-infinite: leaving by the condition is the zero-iteration / out_f path above (consumption of
                    # earlier iterations is not counted: conservative)
            return list(dict.fromkeys(out))
        if isinstance(st, ast.Try):
            sto = stores(st)
            out = seq(st.body + st.orelse, state)
            for h in st.handlers:
                out += seq(h.body, (c, tv - sto, frozenset(), None, "fall", None))
            if st.finalbody:
                fin = []
                for x in out:
                    for y in seq(st.finalbody, (x[0], x[1], x[2], x[3], "fall", None)):
                        fin.append(y if y[4] != "fall" else (y[0], y[1], y[2], y[3], x[4], x[5]))
                out = fin
            return list(dict.fromkeys(out))
        if isinstance(st, (ast.With, ast.AsyncWith)):
            if any(may_adv(i.context_expr) for i in st.items):
                state = (c, tv, frozenset(), None, "fall", None)
            return seq(st.body, state)
        if isinstance(st, ast.Match):
            out = [(c, tv, frozenset(), None, "fall", None)]
            for case in st.cases:
                out += seq(case.body, (c, tv, frozenset(), None, "fall", None))
            return list(dict.fromkeys(out))
        if isinstance(st, (ast.FunctionDef, ast.AsyncFunctionDef, ast.ClassDef)):
            if _self_escapes(st) or _self_calls(st) & K.may_adv:
                return [(c, tv, frozenset(), None, "fall", None)]  # a closure over self that may advance when called
            return [state]
        if isinstance(st, (ast.Pass, ast.Import, ast.ImportFrom, ast.Global, ast.Nonlocal)):
            return [state]
        return [(c2, tv2, al2, fact2, "fall", None) for c2, tv2, al2, fact2 in simple(st, state)]

    def _ret(st, c2, tv, tv2, al2, fact2):
        v = st.value
        if c2:
            rk = "consumed"
        elif v is None or (isinstance(v, ast.Constant) and not v.value):
            rk = "falsy"
        elif isinstance(v, ast.Name) and v.id in tv:
            rk = "tv"
        elif isinstance(v, ast.Call) and isinstance(v.func, ast.Attribute) and ast.unparse(v.func.value) == "self" and v.func.attr in K.truthy:
            rk = "tv"
        else:
            rk = "other"
        return (c2, tv2, al2, fact2, "return", rk)

    def seq(ss, state):
        cur = [state]
        for st in ss:
            nxt = []
            for x in cur:
                if x[4] != "fall":
                    nxt.append(x)
                    continue
                nxt += stmt(st, x)
            # an empty type fact means no token type is possible here: the state is unreachable
            cur = [y for y in dict.fromkeys(nxt) if not (y[3] is not None and not y[3])]
            budget[0] -= len(cur)
            if budget[0] < 0:
                raise TooManyPaths()
        return cur

    return seq(stmts, init)


def parser_contracts() -> tuple[_Contracts, dict[str, str]]:
    """least fixpoint of CONSUMES / CONSUMES_IF / TRUTHY over the methods of Parser"""
    tree = extract.module_ast(PARSER)
    cls = next(n for n in tree.body if isinstance(n, ast.ClassDef) and n.name == "Parser")
    fns = {n.name: n for n in cls.body if isinstance(n, ast.FunctionDef)}
    K = _Contracts()
    K.all_types = _token_types()
    K.may_adv = _may_advance_methods(fns)
    msets = _module_sets()
    why: dict[str, str] = {}
    skip = ("advance", "expect", "current", "peek", "__init__")
    changed = True
    rounds = 0
    while changed and rounds < 12:
        changed = False
        rounds += 1
        for name, fn in fns.items():
            if name in skip or name not in K.may_adv:
                continue
            K.sets = dict(msets)
            K.sets.update(_local_sets(fn))
            try:
                if name not in K.known:
                    paths = _xpaths(fn.body, K, (False, frozenset(), frozenset(), None, "fall", None), [MAX_PATHS])
                    rets = [x for x in paths if x[4] in ("return", "fall")]
                    if rets and all(x[0] for x in rets):
                        K.known.add(name)
                        K.truthy.add(name)
                        why.pop(name, None)
                        changed = True
                        continue
                    if name not in K.truthy and rets and all(x[0] or x[4] == "fall" or x[5] in ("falsy", "tv") for x in rets):
                        K.truthy.add(name)
                        changed = True
                    bad = [x for x in rets if not x[0]]
                    why[name] = f"{len(bad)} of {len(rets)} abstract normal-return state(s) without consumption"
                    S = set()
                    for t in sorted(K.all_types):
                        pt = _xpaths(fn.body, K, (False, frozenset(), frozenset(), frozenset({t}), "fall", None), [MAX_PATHS])
                        rt = [x for x in pt if x[4] in ("return", "fall")]
                        if all(x[0] for x in rt):  # vacuously true when every path raises under t
                            S.add(t)
                    S = frozenset(S)
                    if S and S != K.cond.get(name):
                        K.cond[name] = S
                        changed = True
            except TooManyPaths:
                why[name] = "too many paths"
    return K, why


def structural_loop_proved(fn: ast.FunctionDef, lp: ast.While, K: _Contracts, msets) -> tuple[bool, str]:
    """(P) for a loop that consumes through callees: every path back to the head has consumed - directly, through a callee
    under contract (CONSUMES; CONSUMES_IF with the type fact of that path; TRUTHY inside `if result:`) - or ends with a
    type fact under which the loop condition is false"""
    K.sets = dict(msets)
    K.sets.update(_local_sets(fn))
    if bool(_self_calls(lp.test) & K.may_adv):
        return False, "the loop condition may advance"
    entry = frozenset(t for t in K.all_types if _under_type(lp.test, K.sets, t) is not False)
    entry_f = None if entry == K.all_types else entry
    try:
        paths = _xpaths(lp.body, K, (False, frozenset(), frozenset(), entry_f, "fall", None), [MAX_PATHS])
    except TooManyPaths:
        return False, "too many paths"
    bad = 0
    for x in paths:
        if x[4] not in ("fall", "continue") or x[0]:
            continue
        if x[3] is not None and all(_under_type(lp.test, K.sets, t) is False for t in x[3]):
            continue  # the loop stops here
        bad += 1
    return (bad == 0 and bool(paths)), (f"{bad} abstract back-path state(s) neither consume nor stop the loop" if bad else f"{len(paths)} abstract states")
