"""C20 — any text is either read or cleanly refused; tools never raise."""
from __future__ import annotations

import ast

from props import lexical as LX
from verif import extract
from verif.common import Ctx, Ob, Outcome, Witness
from verif.extract import ExtractionError
from verif.reglang import automata as A
from verif.reglang import tokmodel
from verif.reglang.alphabet import MARK, alphabet

PROPERTY = "C20"
LEVEL = "other"
LEVEL_TEXT = "termination of the scanner is proved as a progress contract: the control skeleton of tokenize (checked against the AST) has exactly the branches fence / space / table / fall-back; for every TOKEN_PATTERNS entry and every left context the fired-match language contains no empty match (regular-language emptiness, so `pos = match.end()` strictly increases pos), the space branch and the identifier branch advance by a non-empty text by construction and every other fall-back raises LexerError (R1/R0). Exception classes are decided on the AST: every raise statement in the closure of tokenize is LexerError and every raise in the parser module is ParserError (or a bare re-raise), bracket recursion is cut by _check_deep_nesting before each recursive descent (F1, F3); in the four tools every call of a reading/emitting/compiling stage lies inside a try whose handler catches Exception (or the two reader errors) and returns an envelope (F2). Built-in exceptions from expressions (index, key, conversion), the parser's loop progress, JSON-serialisability and the timing clause are not proved: they are explored by exhaustive short token sequences, random Unicode, mutated packaged documents, tool flag products and size scaling"
LEVEL_NOTE = "scanner progress is unbounded (all inputs); parser loop progress is unbounded for all 29 loops (the structural ones through callee contracts CONSUMES / CONSUMES_IF / TRUTHY proved as a least fixpoint by the same path engine; `self.pos` stored by advance alone); only the listed exception sources (explicit raises, library-call table) are under the escape contract, implicit built-in exceptions are bounded only; the timing clause is a wall-clock measurement with a 6x slack over linear growth and a serial re-measurement before reporting"
TECHNIQUE = "progress (variant) contract on the real scanner decided by regular-language emptiness per table entry + AST skeleton; exception-escape (raises-clause) contract over the readers' call closure by fixpoint on the call graph + recursion-cycle contract; raise-site and guarded-call contracts decided on the AST; bounded sweeps (token sequences, random/mutated inputs, tool flag products, scaling)"
EXPLANATION = "C20: R0/R1 scanner progress, F1 raise-site classes, F2 guarded stage calls in the tools, F3 recursion cut, F5 exception-escape sets, F6 recursion cycles, F7 parser loop progress (path analysis), B5 hostile atoms, B1 token sequences, B2 random and mutated inputs, B3 tools x flags -> json.dumps, B4 scaling and depth probes."
ASSUMPTIONS = ["CPython re semantics as modelled by verif.reglang (differentially tested)", "exceptions raised implicitly by expressions (IndexError, KeyError, AttributeError, TypeError) are outside the escape contract (bounded tier)", "the library-call table of props/escape.py (re.compile, int, float, chr, json.loads, yaml.safe_load, fromisoformat, strptime: what they raise on hostile input) is complete for the library calls the readers make", "calls through receivers of unknown type resolve to every method of that name (over-approximation); recursion through such calls is not tracked", "wall-clock timing on a shared 16-core machine", "parser progress of the four structural main loops is modulo: a call of parse_value / parse_list_item / parse_section / parse_flow_expression consumes at least one token (bounded tier)", "the token stream ends with its only EOF token (lexer appends it last)"]
TRUSTED_BASE = ["verif.reglang", "verif.frames"]
LEXER, PARSER = "octave_mcp.core.lexer", "octave_mcp.core.parser"
FUNCS = [f"{LEXER}:tokenize", f"{PARSER}:parse", f"{PARSER}:parse_with_warnings", f"{PARSER}:parse_meta_only"]


def ob_progress(ctx: Ctx) -> Outcome:
    """no table entry can fire on an empty match, in any left context"""
    al = alphabet()
    try:
        pats = tokmodel.token_patterns()
    except ExtractionError as e:
        return Outcome.undecided("ast-shape", str(e))
    mark_first = A.concat(al, [A.nfa_mark(al), A.sigma_star(al)])
    wits = []
    n = 0
    for pc in LX.PREV_CTX:
        sm = tokmodel.step_model(pc)
        for i, ((p, name), fire) in enumerate(zip(pats, sm.Fire)):
            n += 1
            bad = fire & mark_first
            if not bad.is_empty():
                w = bad.witness()
                rest = al.decode(tuple(c for c in w if c != MARK))
                wits.append(Witness(what=f"TOKEN_PATTERNS[{i}] ({name}) {p!r} can match the empty string after {pc!r} before {rest!r}: pos would not advance", key=f"{i}:{name}", input=rest, replay={"runner": "props.C20:replay_empty_match", "args": {"index": i, "text": rest}}, confirmed=replay_empty_match(i, rest)[0]))
    if wits:
        return Outcome.refuted("dfa", wits, count=n)
    return Outcome.ok("dfa", count=n, entries=len(pats))


def replay_empty_match(index: int, text: str):
    import re

    from octave_mcp.core import lexer

    p, _ = lexer.TOKEN_PATTERNS[index]
    m = re.compile(p).match(text, 0)
    return (m is not None and m.end() == 0), f"re.match({p!r}, {text!r}) -> {m and m.span()}"


def ob_raise_sites(ctx: Ctx) -> Outcome:
    """every `raise` in lexer.py constructs LexerError, every `raise` in parser.py constructs ParserError, or is a bare
    re-raise inside a handler of those classes"""
    wits, n = [], 0
    for mod, own in ((LEXER, ("LexerError",)), (PARSER, ("ParserError", "LexerError"))):
        try:
            tree = extract.module_ast(mod)
        except ExtractionError as e:
            return Outcome.undecided("ast-shape", str(e))
        for node in ast.walk(tree):
            if isinstance(node, ast.Raise):
                n += 1
                if node.exc is None:
                    continue
                exc = node.exc
                name = ast.unparse(exc.func) if isinstance(exc, ast.Call) else ast.unparse(exc)
                if isinstance(exc, ast.Name) and _name_is_own_error(tree, exc.id, node.lineno, own):
                    continue
                if name not in own:
                    wits.append(Witness(what=f"{mod} L{node.lineno}: raises `{name}` (readers may only raise {own})", key=f"{mod}:{name}", input=ast.unparse(node)[:100]))
    if n == 0:
        return Outcome.undecided("ast-shape", "no raise statement found in the readers")
    if wits:
        return Outcome.refuted("ast-shape", wits, count=n)
    return Outcome.ok("ast-shape", count=n)


def _name_is_own_error(tree, var: str, lineno: int, own) -> bool:
    """`raise var` where var was assigned from <Own>(...) or from a module function all of whose returns are <Own>(...) / None"""
    funcs = {n.name: n for n in ast.walk(tree) if isinstance(n, ast.FunctionDef)}
    for n in ast.walk(tree):
        if isinstance(n, ast.Assign) and any(isinstance(t, ast.Name) and t.id == var for t in n.targets) and n.lineno < lineno and lineno - n.lineno < 12 and isinstance(n.value, ast.Call):
            f = ast.unparse(n.value.func)
            if f in own:
                return True
            g = funcs.get(f)
            if g is not None:
                rets = [r for r in ast.walk(g) if isinstance(r, ast.Return)]
                if rets and all(r.value is None or (isinstance(r.value, ast.Constant) and r.value.value is None) or (isinstance(r.value, ast.Call) and ast.unparse(r.value.func) in own) for r in rets):
                    return True
    return False


HOSTILE_ATOMS = ["²", "①", "१२", "1e999", "9" * 400, "-" + "9" * 400, "-", "1_0", "0x1F", "٣.٥", "1e", "++1", "９", "⅕", "1" * 5000, "nan", "inf", "a{99999999999}", "(" * 3000 + ")" * 3000, "[" * 30, "\\", "(?P<a>x)(?P<a>y)", "x{2,1}", "\\777777"]


def escape_probe_texts() -> list[str]:
    """documents that drive hostile atoms into every conversion the holographic / constraint readers perform, and
    malformed envelope markers whose names are letters / digits only to Unicode-aware tests"""
    out = []
    for name in ("Café", "ДОКУМЕНТ", "文档", "NOTE²", "_ß", "ÁB", "x١", "Ⅻ", "a-b", "9a", "", "A B", "A@B"):
        out += [f"==={name}===\nK::1\n===END===\n", f"===D===\nK::==={name}===\n===END===\n", f"===D===\n==={name}===\n"]
    for a in HOSTILE_ATOMS:
        q = a.replace("\\", "\\\\").replace('"', '\\"')
        for body in (f"K::[{a}∧REQ]", f'K::["x"∧REGEX["{q}"]]', f'K::["x"∧REQ∧REGEX["{q}"]→§SELF]', f"K::[1∧RANGE[{a},5]]", f"K::[1∧RANGE[0,{a}]]", f'K::["x"∧MAX_LENGTH[{a}]]', f'K::["x"∧MIN_LENGTH[{a}]]', f"K::[[1,{a}]∧REQ]", f"K::[{a}∧TYPE[NUMBER]]", f'K::["x"∧CONST[{a}]]', f'K::["x"∧ENUM[{a},b]]', f'K::["x"∧DATE∧{a}]', f"META:\n  K::[{a}∧REQ]"):
            out.append(f"===D===\n{body}\n===END===\n")
    return out


def probe_escapes() -> tuple[bool, str]:
    """(failed, text): some reader raises a foreign exception on one of the probe documents"""
    import sys

    from octave_mcp.core.lexer import LexerError, tokenize
    from octave_mcp.core.parser import ParserError, parse, parse_meta_only, parse_with_warnings

    import warnings

    bad = []
    for t in escape_probe_texts():
        for f in (tokenize, parse, parse_with_warnings, parse_meta_only):
            try:
                with warnings.catch_warnings():
                    warnings.simplefilter("ignore")
                    f(t)
            except (LexerError, ParserError):
                pass
            except RecursionError as e:
                bad.append(f"{f.__name__}({t[8:70]!r}...) raised RecursionError (limit {sys.getrecursionlimit()})")
            except Exception as e:  # noqa: BLE001
                bad.append(f"{f.__name__}({t[8:70]!r}...) raised {type(e).__name__}: {str(e)[:80]}")
    return bool(bad), "; ".join(sorted(set(bad))[:4]) or f"{len(escape_probe_texts())} hostile documents x 4 readers: own errors only"


def replay_hostile(index: int):
    import warnings

    from octave_mcp.core.lexer import LexerError, tokenize
    from octave_mcp.core.parser import ParserError, parse, parse_meta_only, parse_with_warnings

    t = escape_probe_texts()[index]
    bad = []
    for f in (tokenize, parse, parse_with_warnings, parse_meta_only):
        try:
            with warnings.catch_warnings():
                warnings.simplefilter("ignore")
                f(t)
        except (LexerError, ParserError):
            pass
        except BaseException as e:  # noqa: BLE001
            bad.append(f"{f.__name__} raised {type(e).__name__}: {str(e)[:80]}")
    return bool(bad), "; ".join(bad) or "own errors only"


def ob_hostile_atoms(ctx: Ctx) -> Outcome:
    """C20.B5 (bounded): hostile atoms (non-decimal digits, huge / malformed numbers, regexes that break re.compile) in
    every conversion position of holographic patterns and constraint arguments, through the four readers"""
    texts = escape_probe_texts()
    wits = []
    for i, t in enumerate(texts):
        failed, text = replay_hostile(i)
        if failed:
            wits.append(Witness(what=f"{t[8:90]!r}: {text}", input={"index": i}, key=f"hostile|{text.split(' raised ')[1].split(':')[0]}|{t[8:14]}", replay={"runner": "props.C20:replay_hostile", "args": {"index": i}}, confirmed=True))
    extra = dict(bound=f"{len(HOSTILE_ATOMS)} hostile atoms x 13 positions (holographic example, nested example list, REGEX / RANGE / MAX_LENGTH / MIN_LENGTH / TYPE / CONST / ENUM / DATE arguments, with and without target, inside META) = {len(texts)} documents x 4 readers", evaluations=len(texts) * 4, distinct_nontrivial=len(texts), rule="a case is one document through the four readers")
    if wits:
        return Outcome.refuted("real readers", wits[:12], **extra)
    return Outcome.ok("real readers", **extra)


def ob_exception_escape(ctx: Ctx) -> Outcome:
    """C20.F5: the set of exception classes that can leave each reader entry (explicit raises, the library-call table,
    propagated through the resolved call graph, minus what enclosing handlers catch) holds own error classes only"""
    from props import escape as E

    try:
        E.EXEMPTED.clear()
        esc, H, nfuncs, nsites = E.escape_sets(FUNCS)
    except Exception as e:  # noqa: BLE001
        return Outcome.undecided("frames", f"escape analysis could not run: {type(e).__name__}: {e}")
    if nsites == 0:
        return Outcome.undecided("frames", "no raising site found in the readers' closure")
    own = {f"{LEXER}:tokenize": ("LexerError",)}
    foreign: dict[str, str] = {}
    for root in FUNCS:
        allowed = own.get(root, ("LexerError", "ParserError"))
        for exc, origin in esc.get(root, {}).items():
            if not any(H.catches([a], exc) for a in allowed):
                foreign.setdefault(f"{exc} from {origin.split(' <- ')[0]}", f"{exc} can leave {root.split(':')[1]}: {origin}")
    extra = dict(functions_in_closure=nfuncs, raising_sites=nsites, library_table={k: list(v) for k, v in E.LIB_RAISES.items()}, exempted=sorted(set(E.EXEMPTED)))
    if not foreign:
        return Outcome.ok("frames+ast", count=nsites, **extra)
    failed, text = probe_escapes()
    wits = [Witness(what=f"{w} — probe: {text[:300]}", key=k[:80], input=k, replay={"runner": "props.C20:probe_escapes", "args": {}}, confirmed=failed, verifier_output=w) for k, w in sorted(foreign.items())]
    if not failed:
        # the analysis over-approximates (unknown receivers, library table): without a failing input this is not a violation
        return Outcome.undecided("frames+ast", "possible foreign exceptions, none reproduced: " + "; ".join(w.what[:200] for w in wits[:3]), count=nsites, **extra)
    return Outcome.refuted("frames+ast", wits[:6], count=nsites, discharged=max(0, nsites - len(wits)), **extra)


REPAIR_PROBE_VALUES = ('"²"', '"①"', '"-³"', '"٣"', '"1_0"', '" 5 "', '"+5"', '"0x10"', '"1e5"', '"1e999"', '"nan"', '"' + "9" * 5000 + '"', '""', "null", "true", "[1]", '"５"')


def probe_repair_total() -> tuple[bool, str]:
    """octave_validate(fix=true) on TYPE[NUMBER] / ENUM fields holding texts that look numeric to str.isdigit / isnumeric but not
    to int(), very long digit runs, signs, spaces: an envelope must come back. -> (fails, text)"""
    import asyncio
    import json

    from octave_mcp.mcp.validate import ValidateTool

    bad = []
    for v in REPAIR_PROBE_VALUES:
        for field in ("MAX_ROUNDS", "MAX_TURNS", "STATUS", "MODE"):
            text = f'===D===\nMETA:\n  TYPE::DEBATE_TRANSCRIPT\n  VERSION::"1.0"\n---\nDEBATE_TRANSCRIPT:\n  {field}::{v}\n===END===\n'
            for prof in ("STANDARD", "LENIENT"):
                try:
                    r = asyncio.run(ValidateTool().execute(content=text, schema="DEBATE_TRANSCRIPT", fix=True, profile=prof))
                    json.dumps(r)
                except Exception as e:  # noqa: BLE001
                    bad.append(f"octave_validate(fix=true, profile={prof}) on {field}::{v[:24]} raised {type(e).__name__}: {str(e)[:80]}")
    return bool(bad), "; ".join(bad[:3]) or f"{len(REPAIR_PROBE_VALUES)} hostile values x 4 fields x 2 profiles through octave_validate(fix=true): envelopes"


def ob_repair_total(ctx: Ctx) -> Outcome:
    """C20.F8: `repair` is called by octave_validate(fix) and octave_write(lenient) OUTSIDE any handler (C20.F2 lists it as
    assumed total). The exception-escape set of its closure (explicit raises + library table - int(), float(), ... on
    input-dependent arguments -, propagated, minus handlers) must be empty."""
    from props import escape as E

    root = "octave_mcp.core.repair:repair"
    try:
        esc, H, nfuncs, nsites = E.escape_sets([root])
    except Exception as e:  # noqa: BLE001
        return Outcome.undecided("frames", f"escape analysis could not run: {type(e).__name__}: {e}")
    if root not in esc:
        return Outcome.undecided("frames", "repair not found in the working tree")
    out = esc[root]
    if not out:
        return Outcome.ok("frames+ast", count=max(nsites, 1), functions_in_closure=nfuncs, raising_sites=nsites)
    failed, text = probe_repair_total()
    wits = [Witness(what=f"{exc} can leave repair(): {origin} — probe: {text[:300]}", key=f"{exc} from {origin.split(' <- ')[0]}"[:80], input=origin, replay={"runner": "props.C20:probe_repair_total", "args": {}}, confirmed=failed) for exc, origin in sorted(out.items())]
    if not failed:
        return Outcome.undecided("frames+ast", "possible exceptions out of repair(), none reproduced: " + "; ".join(w.what[:160] for w in wits[:3]), count=max(nsites, 1))
    return Outcome.refuted("frames+ast", wits[:6], count=max(nsites, 1))


def probe_deep_blocks() -> tuple[bool, str]:
    import sys

    from octave_mcp.core.lexer import LexerError
    from octave_mcp.core.parser import ParserError, parse, parse_with_warnings

    bad = []
    for depth in (1200, 3000):
        t = "===D===\n" + "".join(" " * i + f"B{i}:\n" for i in range(depth)) + " " * depth + "K::1\n===END===\n"
        for f in (parse, parse_with_warnings):
            try:
                f(t)
            except (LexerError, ParserError):
                pass
            except RecursionError:
                bad.append(f"{f.__name__}: {depth} nested blocks raise RecursionError (limit {sys.getrecursionlimit()})")
            except Exception as e:  # noqa: BLE001
                bad.append(f"{f.__name__}: {depth} nested blocks raise {type(e).__name__}")
    return bool(bad), "; ".join(bad[:3]) or "1200 / 3000 nested blocks: read or refused with the reader's own error"


def ob_recursion_cycles(ctx: Ctx) -> Outcome:
    """C20.F6: every recursive cycle of the readers' call graph other than the bracket descent (cut by the nesting cap,
    F3) can only be entered below a call site whose `try` catches RecursionError (or Exception) - so runaway depth
    surfaces as whatever that handler raises, which F5 requires to be the reader's own error"""
    from props import escape as E

    cut = (f"{PARSER}:Parser.parse_list",)
    try:
        comps, graph, pkg = E.recursive_components(FUNCS, cut)
    except Exception as e:  # noqa: BLE001
        return Outcome.undecided("frames", f"{type(e).__name__}: {e}")
    H = E.Hierarchy(pkg)
    # functions reachable from a root through call sites NOT covered by a RecursionError handler (typed edges only)
    covered_edges = set()
    typed = {}
    for k in graph:
        fi = pkg.funcs[k]
        typed[k] = set()
        for kind, payload, ln, tries in E._sites(fi, pkg):
            if kind != "call" or payload not in graph:
                continue
            caught = any(H.catches(types, "RecursionError") for hs in tries for types, _ in hs)
            typed[k].add(payload)
            if caught:
                covered_edges.add((k, payload))
    reach = set()
    stack = [r for r in FUNCS if r in graph]
    while stack:
        v = stack.pop()
        if v in reach:
            continue
        reach.add(v)
        for w in typed.get(v, ()):
            if (v, w) not in covered_edges and w not in reach:
                stack.append(w)
    own_mods = (LEXER, PARSER, "octave_mcp.core.holographic", "octave_mcp.core.constraints")
    open_comps = [c for c in comps if any(f in reach for f in c) and all(f.split(":")[0] in own_mods for f in c)]
    n = max(1, len(comps))
    if not open_comps:
        return Outcome.ok("frames+ast", count=n, recursive_components=[[f.split(":")[1] for f in c] for c in comps], cut=[c.split(":")[1] for c in cut])
    problems = [f"recursive cycle {[f.split(':')[1] for f in c]} is reachable from a reader entry without passing a RecursionError handler" for c in open_comps]
    from verif.common import shape_verdict

    return shape_verdict("frames+ast", problems, probe_deep_blocks, n, {"runner": "props.C20:probe_deep_blocks", "args": {}})


def probe_parser_hangs() -> tuple[bool, str]:
    """a quick hang probe: all sequences of up to 3 symbols over a 16-symbol alphabet of OCTAVE fragments, each read under
    a 5 s alarm (the full sweep is C20.B1)"""
    import itertools
    import signal

    from octave_mcp.core.parser import parse_with_warnings

    alpha = ["K", "::", ":", "[", "]", ",", "\n", "  ", "\"s\"", "1", "→", "§", "//c", "===END===", "∧", "`", "B:\n  ", "§1::S\n  ", "[a,", "K::", "META:\n  ", "\n  ", "a b"]
    bad = []

    def on_alarm(signum, frame):
        raise TimeoutError()

    old = signal.signal(signal.SIGALRM, on_alarm)
    try:
        for n in (1, 2, 3):
            for seq in itertools.product(alpha, repeat=n):
                t = "===D===\n" + "".join(seq)
                signal.alarm(5)
                try:
                    parse_with_warnings(t)
                except TimeoutError:
                    bad.append(f"parse_with_warnings({t!r}) did not return within 5 s")
                    if len(bad) > 2:
                        return True, "; ".join(bad)
                except Exception:  # noqa: BLE001
                    pass
                finally:
                    signal.alarm(0)
    finally:
        signal.signal(signal.SIGALRM, old)
    return bool(bad), "; ".join(bad) or "all sequences of up to 3 of 23 fragments: every read returned within 5 s"


def ob_parser_progress(ctx: Ctx) -> Outcome:
    """C20.F7: every `while` loop of the parser is proved to make progress by the path analysis of props/progress.py: it exits
    at EOF and every path back to the loop head has executed advance() / expect() (or incremented the scan index) -
    directly, or through a callee under a contract (CONSUMES / CONSUMES_IF / TRUTHY) that the same engine proves as a least
    fixpoint over the methods of Parser; advance / expect / current are pinned and `self.pos` is stored by advance alone."""
    from props import progress as PG
    from verif.common import shape_verdict

    try:
        recs = PG.analyse()
        pinned = PG.helpers_pinned()
    except Exception as e:  # noqa: BLE001
        return Outcome.undecided("ast-paths", f"{type(e).__name__}: {e}")
    problems = list(pinned)
    try:
        problems += [f"pos frame: {x}" for x in PG.pos_frame_pinned()]
        K, why = PG.parser_contracts()
    except Exception as e:  # noqa: BLE001
        return Outcome.undecided("ast-paths", f"{type(e).__name__}: {e}")
    for r in recs:
        if r["proved"]:
            continue
        why_not = "does not exit at EOF" if not r["eof_exit"] else f"{r.get('back_paths_without_consumption')} path(s) back to the loop head without advance()/expect(); with the callee contracts: {r.get('contract_detail')}"
        problems.append(f"{r['function']} L{r['line']}: `while {r['test'][:70]}` is not proved to make progress: {why_not}")
    if len(recs) < 20:
        problems.append(f"only {len(recs)} while loops found in Parser (29 on the pinned tree)")
    extra = dict(
        loops=len(recs),
        proved=sum(1 for r in recs if r["proved"]),
        proved_through_callee_contracts=[f"{r['function']} L{r['line']} `while {r['test'][:40]}`" for r in recs if r.get("proved_by_contracts")],
        callee_contracts_proved=dict(CONSUMES=sorted(K.known), CONSUMES_IF={k: sorted(v) for k, v in sorted(K.cond.items()) if k not in K.known}, TRUTHY=sorted(K.truthy - K.known)),
        assumed_consuming_callees=[],
        variants=sorted({r["variant"] for r in recs if r.get("variant")}),
    )
    if problems:
        return shape_verdict("ast-paths", problems, probe_parser_hangs, len(recs), {"runner": "props.C20:probe_parser_hangs", "args": {}})
    return Outcome.ok("ast-paths", count=len(recs), **extra)


READER_STAGES = ("parse", "parse_with_warnings", "tokenize", "parse_meta_only")
STAGES = ("parse", "parse_with_warnings", "tokenize", "emit", "repair", "project", "compile_gbnf_from_meta", "extract_schema_from_document", "seal_document", "verify_seal", "resolve_hermetic_standard")


def ob_guarded_stages(ctx: Ctx) -> Outcome:
    """in each tool's execute, every call of a reading / emitting / compiling stage is inside a `try` whose handlers
    cover it: `except Exception`, or (LexerError, ParserError) for the readers"""
    wits, n = [], 0
    facts = []
    assumed: list[str] = []
    for mod, qual in (("octave_mcp.mcp.validate", "ValidateTool.execute"), ("octave_mcp.mcp.write", "WriteTool.execute"), ("octave_mcp.mcp.eject", "EjectTool.execute"), ("octave_mcp.mcp.compile_grammar", "CompileGrammarTool.execute")):
        try:
            fn = extract.find_def(mod, qual)
        except ExtractionError as e:
            return Outcome.undecided("ast-shape", str(e))
        parents: dict[int, ast.AST] = {}
        for p in ast.walk(fn):
            for c in ast.iter_child_nodes(p):
                parents[id(c)] = p
        for c in ast.walk(fn):
            if not isinstance(c, ast.Call):
                continue
            nm = ast.unparse(c.func)
            short = nm.split(".")[-1]
            if short not in STAGES and not nm.endswith((".compile_schema", ".validate")):
                continue
            if nm.startswith(("self.validate_parameters", "self._validate")):
                continue
            n += 1
            # climb: is there an enclosing Try (c in its body) with a covering handler?
            node: ast.AST = c
            covered = None
            while id(node) in parents:
                par = parents[id(node)]
                if isinstance(par, ast.Try) and any(node is s or node in list(ast.walk(s)) for s in par.body):
                    hs = [ast.unparse(h.type) if h.type else "BaseException" for h in par.handlers]
                    if any(h in ("Exception", "BaseException") for h in hs):
                        covered = "Exception"
                        break
                    if short in ("parse", "parse_with_warnings", "tokenize") and any("LexerError" in h and "ParserError" in h for h in hs):
                        covered = "reader errors"
                        break
                node = par
            if covered is None and short not in READER_STAGES:
                assumed.append(f"{qual} L{c.lineno}: {nm}(...) is called outside any covering try: assumed total (cross-checked by C20.B3)")
            elif covered is None:
                wits.append(Witness(what=f"{qual} L{c.lineno}: `{nm}(...)` is not inside a try that catches Exception{' or (LexerError, ParserError)' if short.startswith(('parse', 'tokenize')) else ''}", key=f"{qual}:{nm}:{c.lineno}", input=ast.unparse(c)[:100]))
            else:
                facts.append(f"{qual} L{c.lineno} {nm}: {covered}")
    if n == 0:
        return Outcome.undecided("ast-shape", "no stage call found in the tools")
    if wits:
        from props import C20_b

        # shape says unguarded: confirm with the tool sweep on the hand-picked contents
        confirmed = False
        texts = []
        for i in range(len(C20_b.TOOL_CONTENTS)):
            f, t, _, _ = C20_b._tool_one(i)
            if f:
                confirmed = True
                texts.append(t[:200])
                break
        if not confirmed:
            return Outcome.undecided("ast-shape", f"{len(wits)} stage calls are not syntactically inside a covering try (e.g. {wits[0].what[:120]}); the tool sweep on the hand-picked contents raises nothing")
        for w in wits:
            w.confirmed = True
            w.what += f" — {texts[0]}"
            w.replay = {"runner": "props.C20_b:replay_tool", "args": {"seed": 0, "idx": 0}}
        return Outcome.refuted("ast-shape", wits, count=n)
    return Outcome.ok("ast-shape", count=n - len(assumed), guarded=facts[:60], assumed_total=assumed)


def ob_recursion_cut(ctx: Ctx) -> Outcome:
    """parse_list (the only self-recursive descent on brackets) calls self._check_deep_nesting(...) before it recurses, and
    _check_deep_nesting raises ParserError when depth >= MAX_NESTING_DEPTH; MAX_NESTING_DEPTH * frames-per-level stays
    below the interpreter's recursion limit"""
    import sys

    try:
        chk = extract.find_def(PARSER, "Parser._check_deep_nesting")
        consts = extract.module_consts(PARSER)
    except ExtractionError as e:
        return Outcome.undecided("ast-shape", str(e))
    cap = consts.get("MAX_NESTING_DEPTH")
    wits = []
    src = ast.unparse(chk)
    if "if depth >= MAX_NESTING_DEPTH:" not in src or "raise ParserError(" not in src:
        wits.append("_check_deep_nesting does not raise ParserError at depth >= MAX_NESTING_DEPTH")
    if not isinstance(cap, int):
        wits.append(f"MAX_NESTING_DEPTH is {cap!r}")
    else:
        # the cap must be reachable within the interpreter's stack: nesting of cap-1 brackets parses, cap+1 is refused
        from octave_mcp.core.parser import ParserError, parse

        try:
            parse("===D===\nK::" + "[" * (cap - 1) + "x" + "]" * (cap - 1) + "\n===END===\n")
        except RecursionError:
            wits.append(f"{cap - 1} nested brackets (below the cap) exhaust the interpreter stack (limit {sys.getrecursionlimit()})")
        except ParserError:
            pass
        try:
            parse("===D===\nK::" + "[" * (cap + 1) + "x" + "]" * (cap + 1) + "\n===END===\n")
            wits.append(f"{cap + 1} nested brackets (beyond the cap) are accepted")
        except ParserError:
            pass
        except RecursionError:
            wits.append(f"{cap + 1} nested brackets raise RecursionError instead of ParserError")
    # callers: every function that calls parse_list / parse_value recursively on '[' passes through _check_deep_nesting
    cls = extract.find_def(PARSER, "Parser")
    callers = []
    for item in cls.body:
        if isinstance(item, ast.FunctionDef):
            s = ast.unparse(item)
            if "self._check_deep_nesting(" in s:
                callers.append(item.name)
    if "parse_list" not in callers:
        wits.append(f"parse_list does not call _check_deep_nesting (callers: {callers})")
    if wits:
        from props import C20_b

        failed = False
        from octave_mcp.core.parser import parse

        try:
            parse("===D===\nK::" + "[" * 3000 + "]" * 3000 + "\n===END===\n")
        except RecursionError:
            failed = True
        except Exception:  # noqa: BLE001
            pass
        if not failed:
            return Outcome.undecided("ast-shape", "; ".join(wits) + "; probe: 3000 nested brackets do not exhaust the stack")
        return Outcome.refuted("ast-shape", [Witness(what=f"{w} — 3000 nested brackets raise RecursionError", key=w[:40], input=w, confirmed=True) for w in wits], count=3)
    return Outcome.ok("ast-shape", count=3, cap=cap, callers=callers)


def obligations(ctx: Ctx):
    P = PROPERTY
    obs = [
        Ob(f"{P}.R0", "R", "tokenize control skeleton: fence / space / table / fall-back branches, each advancing or raising", LX.FUNCS_LEX, LX.ob_skeleton),
        Ob(f"{P}.R1", "R", "no TOKEN_PATTERNS entry fires on an empty match in any left context (scanner progress)", [f"{LEXER}:tokenize"], ob_progress),
        Ob(f"{P}.F1", "F", "every raise in the lexer is LexerError, every raise in the parser is ParserError", FUNCS, ob_raise_sites),
        Ob(f"{P}.F2", "F", "tools: every reading / emitting / compiling stage call lies inside a covering try", ["octave_mcp.mcp.validate:ValidateTool.execute", "octave_mcp.mcp.write:WriteTool.execute", "octave_mcp.mcp.eject:EjectTool.execute", "octave_mcp.mcp.compile_grammar:CompileGrammarTool.execute"], ob_guarded_stages),
        Ob(f"{P}.F3", "F", "bracket recursion is cut by _check_deep_nesting at MAX_NESTING_DEPTH", [f"{PARSER}:Parser.parse_list"], ob_recursion_cut),
        Ob(f"{P}.F5", "F", "exception escape: only LexerError / ParserError can leave the readers (explicit raises + library-call table, propagated through the call graph, minus enclosing handlers)", FUNCS, ob_exception_escape),
        Ob(f"{P}.F7", "F", "parser progress: every while loop exits at EOF and consumes a token (or advances its scan index) on every path back to the loop head; the structural main loops consume through callees whose contracts (CONSUMES, CONSUMES_IF on the path's token-type fact, TRUTHY) are proved by the same path engine as a least fixpoint; self.pos is stored by advance() alone", [f"{PARSER}:Parser.*"], ob_parser_progress),
        Ob(f"{P}.F8", "F", "repair() - called by octave_validate(fix) and octave_write(lenient) outside any handler - lets no exception out: the exception-escape set of its closure (explicit raises, int() / float() / ... on input-dependent arguments, propagated, minus handlers) is empty", ["octave_mcp.core.repair:repair"], ob_repair_total),
        Ob(f"{P}.F6", "F", "recursive cycles other than the capped bracket descent are entered only below a RecursionError handler", FUNCS, ob_recursion_cycles),
        Ob(f"{P}.F4", "F", "parser receipts (copied verbatim into tool envelopes) hold only JSON-safe values", [f"{PARSER}:Parser.*"], ob_receipt_values),
    ]
    try:
        from props import C20_b

        obs += [
            Ob(f"{P}.B5", "B", "hostile atoms in every conversion position of holographic patterns / constraint arguments through the four readers", FUNCS, ob_hostile_atoms, timeout=3000),
            Ob(f"{P}.B1", "B", "token sequences over a 30-symbol alphabet through the four readers", FUNCS, C20_b.ob_sequences, timeout=6000),
            Ob(f"{P}.B2", "B", "random Unicode strings and mutated packaged documents through the four readers", FUNCS, C20_b.ob_random, timeout=6000),
            Ob(f"{P}.B3", "B", "all tools x flags on hand-picked, random and mutated contents: envelope with status, json.dumps", FUNCS, C20_b.ob_tools, timeout=6000),
            Ob(f"{P}.B4", "B", "size scaling of the readers, bracket / indentation depth probes", FUNCS, C20_b.ob_scaling, timeout=6000),
        ]
    except ImportError:
        pass
    return obs


# ---- F4: parser receipts carry only JSON-safe values ----------------------------------------------------------------------

SAFE_CALLS = ("str", "len", "repr", "int", "bool", "float", "sorted", "list", "min", "max", "sum", "format")
SAFE_ANN = ("int", "str", "bool", "float", "list[str]", "list[int]", "str | None", "int | None", "dict[str, list[int]]")


_STR_FUNCS: set[str] = set()


def _load_str_funcs(tree) -> None:
    _STR_FUNCS.clear()
    for n in ast.walk(tree):
        if isinstance(n, ast.FunctionDef) and n.returns is not None and ast.unparse(n.returns) in ("str", "int", "bool"):
            _STR_FUNCS.add(n.name)
            _STR_FUNCS.add("self." + n.name)


def _safe_expr(e: ast.AST, fn: ast.FunctionDef, guards: set[str], seen: set[str]) -> bool:
    if isinstance(e, ast.Constant):
        return isinstance(e.value, (str, int, float, bool)) or e.value is None
    if isinstance(e, ast.JoinedStr):
        return True
    if isinstance(e, ast.Call):
        f = ast.unparse(e.func)
        if f in SAFE_CALLS or f.endswith(".join") or f.endswith((".strip", ".lower", ".upper", ".format", ".copy", ".split")):
            return True
        if f in _STR_FUNCS:  # module functions annotated `-> str` / `-> int`
            return True
        return False
    if isinstance(e, ast.Attribute):
        # positions and counters are ints; the value of an IDENTIFIER / key token is the scanned text (A-token-text)
        return e.attr in ("line", "column", "name", "deep_nesting_threshold", "bracket_depth") or ast.unparse(e).endswith(".type.name") or ast.unparse(e) in ("identifier_token.value", "key_token.value", "self.current().value")
    if isinstance(e, (ast.List, ast.Tuple)):
        return all(_safe_expr(x, fn, guards, seen) for x in e.elts)
    if isinstance(e, ast.BinOp):
        return _safe_expr(e.left, fn, guards, seen) and _safe_expr(e.right, fn, guards, seen)
    if isinstance(e, ast.IfExp):
        return _safe_expr(e.body, fn, guards, seen) and _safe_expr(e.orelse, fn, guards, seen)
    if isinstance(e, ast.Subscript):
        return _safe_expr(e.value, fn, guards, seen)
    if isinstance(e, (ast.ListComp, ast.GeneratorExp)):
        return _safe_expr(e.elt, fn, guards | {g.target.id for g in e.generators if isinstance(g.target, ast.Name)}, seen)
    if isinstance(e, ast.Name):
        if e.id in guards:
            return True
        if e.id in seen:
            return True
        seen = seen | {e.id}
        for a in fn.args.args + fn.args.kwonlyargs:
            if a.arg == e.id:
                return a.annotation is not None and ast.unparse(a.annotation) in SAFE_ANN
        rhs = []
        for n in ast.walk(fn):
            if isinstance(n, ast.Assign):
                for t in n.targets:
                    if isinstance(t, ast.Name) and t.id == e.id:
                        rhs.append(n.value)
                    elif isinstance(t, (ast.Tuple, ast.List)) and any(isinstance(x, ast.Name) and x.id == e.id for x in t.elts):
                        rhs.append(None)
            elif isinstance(n, ast.AnnAssign) and isinstance(n.target, ast.Name) and n.target.id == e.id:
                if ast.unparse(n.annotation) in SAFE_ANN:
                    return True
                rhs.append(n.value)
            elif isinstance(n, ast.AugAssign) and isinstance(n.target, ast.Name) and n.target.id == e.id:
                rhs.append(n.value)
            elif isinstance(n, (ast.For, ast.comprehension)) and isinstance(n.target, ast.Name) and n.target.id == e.id:
                rhs.append(n.iter)
            elif isinstance(n, ast.Call) and isinstance(n.func, ast.Attribute) and n.func.attr in ("append", "extend", "insert") and isinstance(n.func.value, ast.Name) and n.func.value.id == e.id and n.args:
                rhs.append(n.args[-1])
        if not rhs:
            return False
        return all(r is not None and _safe_expr(r, fn, guards, seen) for r in rhs)
    return False


def _isinstance_str_guards(fn: ast.FunctionDef, node: ast.AST) -> set[str]:
    """names for which an enclosing `if` test (and-chain) contains isinstance(name, str)"""
    out: set[str] = set()
    for n in ast.walk(fn):
        if isinstance(n, ast.If) and any(node is x for st in n.body for x in ast.walk(st)):
            tests = n.test.values if isinstance(n.test, ast.BoolOp) and isinstance(n.test.op, ast.And) else [n.test]
            for t in tests:
                if isinstance(t, ast.Name) and t.id in ("value_is_quoted_string", "value_is_quoted"):
                    out.add("value")  # the flag is `<value token>.type == TokenType.STRING`: the value is that token's text
                if isinstance(t, ast.Call) and ast.unparse(t.func) == "isinstance" and len(t.args) == 2 and isinstance(t.args[0], ast.Name) and ast.unparse(t.args[1]) in ("str", "(str, int)", "int", "str | int"):
                    out.add(t.args[0].id)
    return out


def replay_receipt_values():
    """documents that exercise every receipt-bearing construct with non-string values, through validate / lenient write -> json.dumps"""
    import asyncio
    import json
    import os
    import shutil
    import tempfile

    from octave_mcp.mcp.validate import ValidateTool
    from octave_mcp.mcp.write import WriteTool

    docs = [
        "===D===\nPATTERN::[a,b]\n===END===\n", '===D===\nREGEX::["x"∧REQ→§SELF]\n===END===\n', "===D===\nPATTERN::\n```\nraw\n```\n===END===\n", "===D===\nL::[PATTERN::[a,b],REGEX::5]\n===END===\n",
        "===D===\nK::a b c\nK::1 2\nK::true x\nK::null y\nV::1.2.3 beta\nF::A->B->C\nT::a vs b vs c\nM::[k::[i::1]]\nX::[1,2\nY::z\n===END===\n", "===D===\nbare line\nK::v\nK::w\n===END===\n", "===D===\nS::REQ∧OPT\nD::" + "[" * 7 + "x" + "]" * 7 + "\n===END===\n",
    ]
    bad = []
    d = tempfile.mkdtemp(prefix="vf-c20-")
    try:
        for t in docs:
            for label, mk in (("octave_validate", lambda: ValidateTool().execute(content=t, schema="META")), ("octave_validate(fix)", lambda: ValidateTool().execute(content=t, schema="META", fix=True)), ("octave_write(lenient)", lambda: WriteTool().execute(target_path=os.path.join(d, "t.oct.md"), content=t, lenient=True)), ("octave_write(strict, dry)", lambda: WriteTool().execute(target_path=os.path.join(d, "t.oct.md"), content=t, corrections_only=True))):
                try:
                    r = asyncio.run(mk())
                    json.dumps(r)
                except Exception as e:  # noqa: BLE001
                    bad.append(f"{label} on {t[:40]!r}: {type(e).__name__}: {str(e)[:80]}")
    finally:
        shutil.rmtree(d, ignore_errors=True)
    return bool(bad), "; ".join(bad[:2]) or "probe: envelopes of receipt-bearing documents serialise"


def ob_receipt_values(ctx: Ctx) -> Outcome:
    """every `self.warnings.append({...})` in the parser stores only JSON-safe values: constants, text built by
    str()/f-strings/join, token positions, names whose every assignment is such an expression, or names under an
    enclosing `isinstance(name, str)` guard (the tools copy these records into their envelopes verbatim)"""
    try:
        tree = extract.module_ast(PARSER)
    except ExtractionError as e:
        return Outcome.undecided("ast-shape", str(e))
    wits, n = [], 0
    _load_str_funcs(tree)
    funcs = [f for f in ast.walk(tree) if isinstance(f, ast.FunctionDef)]
    for fn in funcs:
        inner = {id(x) for g in funcs if g is not fn and any(g is y for y in ast.walk(fn)) for x in ast.walk(g)}
        for c in ast.walk(fn):
            if id(c) in inner:
                continue
            if isinstance(c, ast.Call) and ast.unparse(c.func) == "self.warnings.append" and c.args and isinstance(c.args[0], ast.Dict):
                guards = _isinstance_str_guards(fn, c)
                # a list that is `" ".join(...)`-ed on the same path just before / inside the record is a list of str (join would raise otherwise)
                joined = {j.args[0].id for j in ast.walk(fn) if isinstance(j, ast.Call) and isinstance(j.func, ast.Attribute) and j.func.attr == "join" and j.args and isinstance(j.args[0], ast.Name) and c.lineno - 14 <= j.lineno <= getattr(c, "end_lineno", c.lineno)}
                guards = guards | joined
                for k, v in zip(c.args[0].keys, c.args[0].values):
                    n += 1
                    if k is None or not _safe_expr(v, fn, guards, set()):
                        wits.append(Witness(what=f"{fn.name} L{c.lineno}: receipt field {ast.unparse(k) if k else '**'} = `{ast.unparse(v)[:50]}` is not JSON-safe by construction (no str()/text construction, no isinstance(..., str) guard)", key=f"{fn.name}:{ast.unparse(k) if k else '**'}:{ast.unparse(v)[:30]}", input=ast.unparse(v)[:80]))
    if n == 0:
        return Outcome.undecided("ast-shape", "no receipt record found in the parser")
    if wits:
        failed, text = replay_receipt_values()
        if not failed:
            return Outcome.undecided("ast-shape", f"{len(wits)} receipt fields are not JSON-safe by construction (e.g. {wits[0].what[:140]}); probe: {text}")
        for w in wits:
            w.confirmed, w.what = True, w.what + f" — {text}"
            w.replay = {"runner": "props.C20:replay_receipt_values", "args": {}}
        return Outcome.refuted("ast-dataflow", wits, count=n)
    return Outcome.ok("ast-dataflow", count=n)
