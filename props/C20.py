"""C20 — any text is either read or cleanly refused; tools never raise."""
from __future__ import annotations

import ast

from props import lexical as LX
from verif import extract
from verif.common import Ctx, Ob, Outcome, Witness
from verif.extract import ExtractionError
from verif.reglang import automata as A
from verif.reglang import tokmodel
from verif.reglang.alphabet import MARK, alphabet

PROPERTY = "C20"
LEVEL = "other"
LEVEL_TEXT = "termination of the scanner is proved as a progress contract: the control skeleton of tokenize (checked against the AST) has exactly the branches fence / space / table / fall-back; for every TOKEN_PATTERNS entry and every left context the fired-match language contains no empty match (regular-language emptiness, so `pos = match.end()` strictly increases pos), the space branch and the identifier branch advance by a non-empty text by construction and every other fall-back raises LexerError (R1/R0). Exception classes are decided on the AST: every raise statement in the closure of tokenize is LexerError and every raise in the parser module is ParserError (or a bare re-raise), bracket recursion is cut by _check_deep_nesting before each recursive descent (F1, F3); in the four tools every call of a reading/emitting/compiling stage lies inside a try whose handler catches Exception (or the two reader errors) and returns an envelope (F2). Built-in exceptions from expressions (index, key, conversion), the parser's loop progress, JSON-serialisability and the timing clause are not proved: they are explored by exhaustive short token sequences, random Unicode, mutated packaged documents, tool flag products and size scaling"
LEVEL_NOTE = "scanner progress is unbounded (all inputs); parser progress and absence of built-in exceptions are bounded only; the timing clause is a wall-clock measurement with a 6x slack over linear growth and a serial re-measurement before reporting"
TECHNIQUE = "progress (variant) contract on the real scanner decided by regular-language emptiness per table entry + AST skeleton; raise-site and guarded-call contracts decided on the AST; bounded sweeps (token sequences, random/mutated inputs, tool flag products, scaling)"
EXPLANATION = "C20: R0/R1 scanner progress, F1 raise-site classes, F2 guarded stage calls in the tools, F3 recursion cut, B1 token sequences, B2 random and mutated inputs, B3 tools x flags -> json.dumps, B4 scaling and depth probes."
ASSUMPTIONS = ["CPython re semantics as modelled by verif.reglang (differentially tested)", "built-in exceptions raised by expressions are outside the raise-site contract (bounded tier)", "wall-clock timing on a shared 16-core machine"]
TRUSTED_BASE = ["verif.reglang", "verif.frames"]
LEXER, PARSER = "octave_mcp.core.lexer", "octave_mcp.core.parser"
FUNCS = [f"{LEXER}:tokenize", f"{PARSER}:parse", f"{PARSER}:parse_with_warnings", f"{PARSER}:parse_meta_only"]


def ob_progress(ctx: Ctx) -> Outcome:
    """no table entry can fire on an empty match, in any left context"""
    al = alphabet()
    try:
        pats = tokmodel.token_patterns()
    except ExtractionError as e:
        return Outcome.undecided("ast-shape", str(e))
    mark_first = A.concat(al, [A.nfa_mark(al), A.sigma_star(al)])
    wits = []
    n = 0
    for pc in LX.PREV_CTX:
        sm = tokmodel.step_model(pc)
        for i, ((p, name), fire) in enumerate(zip(pats, sm.Fire)):
            n += 1
            bad = fire & mark_first
            if not bad.is_empty():
                w = bad.witness()
                rest = al.decode(tuple(c for c in w if c != MARK))
                wits.append(Witness(what=f"TOKEN_PATTERNS[{i}] ({name}) {p!r} can match the empty string after {pc!r} before {rest!r}: pos would not advance", key=f"{i}:{name}", input=rest, replay={"runner": "props.C20:replay_empty_match", "args": {"index": i, "text": rest}}, confirmed=replay_empty_match(i, rest)[0]))
    if wits:
        return Outcome.refuted("dfa", wits, count=n)
    return Outcome.ok("dfa", count=n, entries=len(pats))


def replay_empty_match(index: int, text: str):
    import re

    from octave_mcp.core import lexer

    p, _ = lexer.TOKEN_PATTERNS[index]
    m = re.compile(p).match(text, 0)
    return (m is not None and m.end() == 0), f"re.match({p!r}, {text!r}) -> {m and m.span()}"


def ob_raise_sites(ctx: Ctx) -> Outcome:
    """every `raise` in lexer.py constructs LexerError, every `raise` in parser.py constructs ParserError, or is a bare
    re-raise inside a handler of those classes"""
    wits, n = [], 0
    for mod, own in ((LEXER, ("LexerError",)), (PARSER, ("ParserError", "LexerError"))):
        try:
            tree = extract.module_ast(mod)
        except ExtractionError as e:
            return Outcome.undecided("ast-shape", str(e))
        for node in ast.walk(tree):
            if isinstance(node, ast.Raise):
                n += 1
                if node.exc is None:
                    continue
                exc = node.exc
                name = ast.unparse(exc.func) if isinstance(exc, ast.Call) else ast.unparse(exc)
                if isinstance(exc, ast.Name) and _name_is_own_error(tree, exc.id, node.lineno, own):
                    continue
                if name not in own:
                    wits.append(Witness(what=f"{mod} L{node.lineno}: raises `{name}` (readers may only raise {own})", key=f"{mod}:{name}", input=ast.unparse(node)[:100]))
    if n == 0:
        return Outcome.undecided("ast-shape", "no raise statement found in the readers")
    if wits:
        return Outcome.refuted("ast-shape", wits, count=n)
    return Outcome.ok("ast-shape", count=n)


def _name_is_own_error(tree, var: str, lineno: int, own) -> bool:
    """`raise var` where var was assigned from <Own>(...) or from a module function all of whose returns are <Own>(...) / None"""
    funcs = {n.name: n for n in ast.walk(tree) if isinstance(n, ast.FunctionDef)}
    for n in ast.walk(tree):
        if isinstance(n, ast.Assign) and any(isinstance(t, ast.Name) and t.id == var for t in n.targets) and n.lineno < lineno and lineno - n.lineno < 12 and isinstance(n.value, ast.Call):
            f = ast.unparse(n.value.func)
            if f in own:
                return True
            g = funcs.get(f)
            if g is not None:
                rets = [r for r in ast.walk(g) if isinstance(r, ast.Return)]
                if rets and all(r.value is None or (isinstance(r.value, ast.Constant) and r.value.value is None) or (isinstance(r.value, ast.Call) and ast.unparse(r.value.func) in own) for r in rets):
                    return True
    return False


READER_STAGES = ("parse", "parse_with_warnings", "tokenize", "parse_meta_only")
STAGES = ("parse", "parse_with_warnings", "tokenize", "emit", "repair", "project", "compile_gbnf_from_meta", "extract_schema_from_document", "seal_document", "verify_seal", "resolve_hermetic_standard")


def ob_guarded_stages(ctx: Ctx) -> Outcome:
    """in each tool's execute, every call of a reading / emitting / compiling stage is inside a `try` whose handlers
    cover it: `except Exception`, or (LexerError, ParserError) for the readers"""
    wits, n = [], 0
    facts = []
    assumed: list[str] = []
    for mod, qual in (("octave_mcp.mcp.validate", "ValidateTool.execute"), ("octave_mcp.mcp.write", "WriteTool.execute"), ("octave_mcp.mcp.eject", "EjectTool.execute"), ("octave_mcp.mcp.compile_grammar", "CompileGrammarTool.execute")):
        try:
            fn = extract.find_def(mod, qual)
        except ExtractionError as e:
            return Outcome.undecided("ast-shape", str(e))
        parents: dict[int, ast.AST] = {}
        for p in ast.walk(fn):
            for c in ast.iter_child_nodes(p):
                parents[id(c)] = p
        for c in ast.walk(fn):
            if not isinstance(c, ast.Call):
                continue
            nm = ast.unparse(c.func)
            short = nm.split(".")[-1]
            if short not in STAGES and not nm.endswith((".compile_schema", ".validate")):
                continue
            if nm.startswith(("self.validate_parameters", "self._validate")):
                continue
            n += 1
            # climb: is there an enclosing Try (c in its body) with a covering handler?
            node: ast.AST = c
            covered = None
            while id(node) in parents:
                par = parents[id(node)]
                if isinstance(par, ast.Try) and any(node is s or node in list(ast.walk(s)) for s in par.body):
                    hs = [ast.unparse(h.type) if h.type else "BaseException" for h in par.handlers]
                    if any(h in ("Exception", "BaseException") for h in hs):
                        covered = "Exception"
                        break
                    if short in ("parse", "parse_with_warnings", "tokenize") and any("LexerError" in h and "ParserError" in h for h in hs):
                        covered = "reader errors"
                        break
                node = par
            if covered is None and short not in READER_STAGES:
                assumed.append(f"{qual} L{c.lineno}: {nm}(...) is called outside any covering try: assumed total (cross-checked by C20.B3)")
            elif covered is None:
                wits.append(Witness(what=f"{qual} L{c.lineno}: `{nm}(...)` is not inside a try that catches Exception{' or (LexerError, ParserError)' if short.startswith(('parse', 'tokenize')) else ''}", key=f"{qual}:{nm}:{c.lineno}", input=ast.unparse(c)[:100]))
            else:
                facts.append(f"{qual} L{c.lineno} {nm}: {covered}")
    if n == 0:
        return Outcome.undecided("ast-shape", "no stage call found in the tools")
    if wits:
        from props import C20_b

        # shape says unguarded: confirm with the tool sweep on the hand-picked contents
        confirmed = False
        texts = []
        for i in range(len(C20_b.TOOL_CONTENTS)):
            f, t, _, _ = C20_b._tool_one(i)
            if f:
                confirmed = True
                texts.append(t[:200])
                break
        if not confirmed:
            return Outcome.undecided("ast-shape", f"{len(wits)} stage calls are not syntactically inside a covering try (e.g. {wits[0].what[:120]}); the tool sweep on the hand-picked contents raises nothing")
        for w in wits:
            w.confirmed = True
            w.what += f" — {texts[0]}"
            w.replay = {"runner": "props.C20_b:replay_tool", "args": {"seed": 0, "idx": 0}}
        return Outcome.refuted("ast-shape", wits, count=n)
    return Outcome.ok("ast-shape", count=n - len(assumed), guarded=facts[:60], assumed_total=assumed)


def ob_recursion_cut(ctx: Ctx) -> Outcome:
    """parse_list (the only self-recursive descent on brackets) calls self._check_deep_nesting(...) before it recurses, and
    _check_deep_nesting raises ParserError when depth >= MAX_NESTING_DEPTH; MAX_NESTING_DEPTH * frames-per-level stays
    below the interpreter's recursion limit"""
    import sys

    try:
        chk = extract.find_def(PARSER, "Parser._check_deep_nesting")
        consts = extract.module_consts(PARSER)
    except ExtractionError as e:
        return Outcome.undecided("ast-shape", str(e))
    cap = consts.get("MAX_NESTING_DEPTH")
    wits = []
    src = ast.unparse(chk)
    if "if depth >= MAX_NESTING_DEPTH:" not in src or "raise ParserError(" not in src:
        wits.append("_check_deep_nesting does not raise ParserError at depth >= MAX_NESTING_DEPTH")
    if not isinstance(cap, int):
        wits.append(f"MAX_NESTING_DEPTH is {cap!r}")
    else:
        # the cap must be reachable within the interpreter's stack: nesting of cap-1 brackets parses, cap+1 is refused
        from octave_mcp.core.parser import ParserError, parse

        try:
            parse("===D===\nK::" + "[" * (cap - 1) + "x" + "]" * (cap - 1) + "\n===END===\n")
        except RecursionError:
            wits.append(f"{cap - 1} nested brackets (below the cap) exhaust the interpreter stack (limit {sys.getrecursionlimit()})")
        except ParserError:
            pass
        try:
            parse("===D===\nK::" + "[" * (cap + 1) + "x" + "]" * (cap + 1) + "\n===END===\n")
            wits.append(f"{cap + 1} nested brackets (beyond the cap) are accepted")
        except ParserError:
            pass
        except RecursionError:
            wits.append(f"{cap + 1} nested brackets raise RecursionError instead of ParserError")
    # callers: every function that calls parse_list / parse_value recursively on '[' passes through _check_deep_nesting
    cls = extract.find_def(PARSER, "Parser")
    callers = []
    for item in cls.body:
        if isinstance(item, ast.FunctionDef):
            s = ast.unparse(item)
            if "self._check_deep_nesting(" in s:
                callers.append(item.name)
    if "parse_list" not in callers:
        wits.append(f"parse_list does not call _check_deep_nesting (callers: {callers})")
    if wits:
        from props import C20_b

        failed = False
        from octave_mcp.core.parser import parse

        try:
            parse("===D===\nK::" + "[" * 3000 + "]" * 3000 + "\n===END===\n")
        except RecursionError:
            failed = True
        except Exception:  # noqa: BLE001
            pass
        if not failed:
            return Outcome.undecided("ast-shape", "; ".join(wits) + "; probe: 3000 nested brackets do not exhaust the stack")
        return Outcome.refuted("ast-shape", [Witness(what=f"{w} — 3000 nested brackets raise RecursionError", key=w[:40], input=w, confirmed=True) for w in wits], count=3)
    return Outcome.ok("ast-shape", count=3, cap=cap, callers=callers)


def obligations(ctx: Ctx):
    P = PROPERTY
    obs = [
        Ob(f"{P}.R0", "R", "tokenize control skeleton: fence / space / table / fall-back branches, each advancing or raising", LX.FUNCS_LEX, LX.ob_skeleton),
        Ob(f"{P}.R1", "R", "no TOKEN_PATTERNS entry fires on an empty match in any left context (scanner progress)", [f"{LEXER}:tokenize"], ob_progress),
        Ob(f"{P}.F1", "F", "every raise in the lexer is LexerError, every raise in the parser is ParserError", FUNCS, ob_raise_sites),
        Ob(f"{P}.F2", "F", "tools: every reading / emitting / compiling stage call lies inside a covering try", ["octave_mcp.mcp.validate:ValidateTool.execute", "octave_mcp.mcp.write:WriteTool.execute", "octave_mcp.mcp.eject:EjectTool.execute", "octave_mcp.mcp.compile_grammar:CompileGrammarTool.execute"], ob_guarded_stages),
        Ob(f"{P}.F3", "F", "bracket recursion is cut by _check_deep_nesting at MAX_NESTING_DEPTH", [f"{PARSER}:Parser.parse_list"], ob_recursion_cut),
    ]
    try:
        from props import C20_b

        obs += [
            Ob(f"{P}.B1", "B", "token sequences over a 30-symbol alphabet through the four readers", FUNCS, C20_b.ob_sequences, timeout=6000),
            Ob(f"{P}.B2", "B", "random Unicode strings and mutated packaged documents through the four readers", FUNCS, C20_b.ob_random, timeout=6000),
            Ob(f"{P}.B3", "B", "all tools x flags on hand-picked, random and mutated contents: envelope with status, json.dumps", FUNCS, C20_b.ob_tools, timeout=6000),
            Ob(f"{P}.B4", "B", "size scaling of the readers, bracket / indentation depth probes", FUNCS, C20_b.ob_scaling, timeout=6000),
        ]
    except ImportError:
        pass
    return obs
