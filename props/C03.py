"""C03 — all lenient spellings converge on one canonical text in strict profile."""
from functools import partial

from props import docs_b, framesobs
from props import lexical as LX
from verif import extract
from verif.common import Ctx, Ob, Outcome, Witness
from verif.reglang import automata as A
from verif.reglang.alphabet import alphabet

PROPERTY = "C03"
LEVEL = "other"
LEVEL_TEXT = "the premise that turns 'same content' into 'same bytes' (the emitter consults no source position or ambient state) is proved by frame inference; alias normalisation and the absence of ASCII operators in bare emission are regular-language obligations; convergence of lenient spellings and the strict-profile shape are bounded over the content model with an independent line-level recogniser"
LEVEL_NOTE = "convergence rests on the parser (B); the line-shape contract of the emitter (C03.P1 in the design) is covered by the bounded recogniser only"
TECHNIQUE = "frame inference (F) + regular-language obligations (R) on the real emitter/lexer tables; bounded product of lenient rewrites over model documents (B)"
EXPLANATION = "C03: F emitter frame, R alias table and bare classes, B every combination of lenient rewrites canonicalises to the canonical rendering's canonical text, which an independent strict-profile recogniser accepts."
ASSUMPTIONS = ["as C01; the strict-profile recogniser (props.docs_b.strict_profile_problems) is written from the property text"]
TRUSTED_BASE = ["verif.reglang", "verif.frames", "verif.bounded.model"]

EMIT = ["octave_mcp.core.emitter:emit"]
UNICODE_OF = {"->": "→", "<->": "⇌", "+": "⊕", "~": "⧺", "vs": "⇌", "|": "∨", "&": "∧", "#": "§"}


def ob_alias_table(ctx: Ctx) -> Outcome:
    """C03.R1: every documented ASCII alias is in lexer.ASCII_ALIASES with the Unicode operator of the same
    kind, and the table pattern of that alias and of its Unicode form carry the same token type."""
    from verif.reglang import tokmodel

    try:
        aliases = extract.const("octave_mcp.core.lexer", "ASCII_ALIASES")
        pats = tokmodel.token_patterns()
    except extract.ExtractionError as e:
        return Outcome.undecided("ast-shape", str(e))
    wits = []
    n = 0
    import re

    for a, u in UNICODE_OF.items():
        n += 1
        if aliases.get(a) != u:
            wits.append(Witness(what=f"ASCII alias {a!r} normalises to {aliases.get(a)!r}, documented {u!r}", key=a, input=a))
            continue
        if a == "+":
            continue  # handled by the fall-back branch of tokenize (Token SYNTHESIS, value ⊕): pinned by the skeleton check + B differential
        ta = [t for p, t in pats if re.fullmatch(p, a)]
        tu = [t for p, t in pats if re.fullmatch(p, u)]
        if not ta or not tu or ta[0] != tu[0]:
            wits.append(Witness(what=f"alias {a!r} lexes as {ta[:1]}, its Unicode form {u!r} as {tu[:1]}", key=a, input=a))
    if wits:
        return Outcome.refuted("table", wits, count=n)
    return Outcome.ok("table", count=n)


def ob_bare_no_ascii_ops(ctx: Ctx) -> Outcome:
    """C03.R2: no string that needs_quotes leaves bare contains an ASCII operator alias (-> <-> + ~ | & #) or
    `vs` as a separate word: outside quotes the emitter writes Unicode operators only."""
    al = alphabet()
    try:
        bare = LX.bare_classes()["bare"]
    except extract.ExtractionError as e:
        return Outcome.undecided("declist", str(e))
    n = 0
    wits = []
    for op in ("->", "<->", "+", "~", "|", "&", "#"):
        n += 1
        bad = bare & A.concat(al, [A.sigma_star(al), op, A.sigma_star(al)])
        if not bad.is_empty():
            s = bad.witness_str()
            wits.append(Witness(what=f"bare emission {s!r} contains the ASCII operator {op!r}", key=s, input=s))
    # `vs` as an operator is a lexer notion (\bvs\b at a token start): that no bare value re-lexes with a TENSION
    # token is exactly C03.R3 (= C01.R1: bare classes re-lex to IDENTIFIER / VARIABLE tokens only)
    if wits:
        return Outcome.refuted("dfa", wits, count=n)
    return Outcome.ok("dfa", count=n)


def ob_b1(ctx: Ctx):
    return docs_b.run(ctx, {"C03"}, 4000, 30000, 12, 48)


ob_b1.wants_all_cores = True


def obligations(ctx: Ctx):
    P = PROPERTY
    return [
        Ob(f"{P}.F1.reads", "F", "the emitter reads no source position", EMIT, framesobs.ob_reads_no_position(EMIT)),
        Ob(f"{P}.F1.effects", "F", "the emitter has no ambient effect", EMIT, framesobs.ob_no_effects(EMIT, ("global_write", "env", "cwd", "clock", "random", "locale", "hash_order", "identity", "fs_read", "fs_write", "subprocess", "await"))),
        Ob(f"{P}.R0", "R", "tokenize control skeleton matches the step model", LX.FUNCS_LEX, LX.ob_skeleton),
        Ob(f"{P}.R1", "R", "every ASCII alias normalises to the Unicode operator of the same kind", ["octave_mcp.core.lexer:tokenize"], ob_alias_table),
        Ob(f"{P}.R2", "R", "bare emission contains no ASCII operator alias", LX.FUNCS_EMIT, ob_bare_no_ascii_ops),
        Ob(f"{P}.R3.ident", "R", "bare identifier-class strings re-lex to one IDENTIFIER token (no `vs`/literal token inside)", LX.FUNCS_EMIT + LX.FUNCS_LEX, partial(LX.ob_ident, oid=f"{P}.R3", which="ident")),
        Ob(f"{P}.R3.expr", "R", "bare operator expressions re-lex to IDENTIFIER / Unicode operator tokens only", LX.FUNCS_EMIT + LX.FUNCS_LEX, partial(LX.ob_expr, oid=f"{P}.R3")),
        Ob(f"{P}.B1", "B", "every combination of lenient rewrites converges on the canonical bytes; canonical text is in the strict profile", ["octave_mcp.core.parser:parse_with_warnings", "octave_mcp.core.emitter:emit"], ob_b1, timeout=3000),
    ]
