"""C03 — all lenient spellings converge on one canonical text in strict profile."""
from functools import partial

from props import docs_b, framesobs
from props import lexical as LX
from verif import extract
from verif.common import Ctx, Ob, Outcome, Witness
from verif.reglang import automata as A
from verif.reglang.alphabet import alphabet

PROPERTY = "C03"
LEVEL = "other"
LEVEL_TEXT = "the premise that turns 'same content' into 'same bytes' (the emitter consults no source position or ambient state) is proved by frame inference; alias normalisation and the absence of ASCII operators in bare emission are regular-language obligations; convergence of lenient spellings and the strict-profile shape are bounded over the content model with an independent line-level recogniser"
LEVEL_NOTE = "parser-level layout freedoms (indentation width, blank lines, multi-line lists, omitted END, optional quotes) are proved for all token values on the spines of contracts/parse_scalar.py; convergence of whole documents still rests on the parser (B); the line-shape contract of the emitter (C03.P1 in the design) is covered by the bounded recogniser only"
TECHNIQUE = "pre/postconditions on the real parser functions for the layout freedoms (symbolic INDENT widths and token values over concrete token spines; z3) + frame inference (F) + regular-language obligations (R) on the real emitter/lexer tables; bounded product of lenient rewrites over model documents (B)"
EXPLANATION = "C03: F emitter frame, R alias table and bare classes, B every combination of lenient rewrites canonicalises to the canonical rendering's canonical text, which an independent strict-profile recogniser accepts."
ASSUMPTIONS = ["as C01; the strict-profile recogniser (props.docs_b.strict_profile_problems) is written from the property text"]
TRUSTED_BASE = ["verif.reglang", "verif.frames", "verif.bounded.model", "verif.pyvc", "z3"]

EMIT = ["octave_mcp.core.emitter:emit"]
UNICODE_OF = {"->": "→", "<->": "⇌", "+": "⊕", "~": "⧺", "vs": "⇌", "|": "∨", "&": "∧", "#": "§"}


def ob_alias_table(ctx: Ctx) -> Outcome:
    """C03.R1: every documented ASCII alias is in lexer.ASCII_ALIASES with the Unicode operator of the same
    kind, and the table pattern of that alias and of its Unicode form carry the same token type."""
    from verif.reglang import tokmodel

    try:
        aliases = extract.const("octave_mcp.core.lexer", "ASCII_ALIASES")
        pats = tokmodel.token_patterns()
    except extract.ExtractionError as e:
        return Outcome.undecided("ast-shape", str(e))
    wits = []
    n = 0
    import re

    for a, u in UNICODE_OF.items():
        n += 1
        if aliases.get(a) != u:
            wits.append(Witness(what=f"ASCII alias {a!r} normalises to {aliases.get(a)!r}, documented {u!r}", key=a, input=a))
            continue
        if a == "+":
            continue  # handled by the fall-back branch of tokenize (Token SYNTHESIS, value ⊕): pinned by the skeleton check + B differential
        ta = [t for p, t in pats if re.fullmatch(p, a)]
        tu = [t for p, t in pats if re.fullmatch(p, u)]
        if not ta or not tu or ta[0] != tu[0]:
            wits.append(Witness(what=f"alias {a!r} lexes as {ta[:1]}, its Unicode form {u!r} as {tu[:1]}", key=a, input=a))
    if wits:
        return Outcome.refuted("table", wits, count=n)
    return Outcome.ok("table", count=n)


def probe_triple_quotes():
    """Concrete stand-in for C03.R4: single- and triple-quoted spellings of escape-heavy bodies lex to the same value."""
    from octave_mcp.core.lexer import tokenize

    bad = []
    bodies = ["", "a", "a b", '\\"', 'x\\"', '\\"x', "\\\\", 'a\\\\\\"', "\\n", "é\\t", 'say \\"hi\\"', "a\\\\"]
    for b in bodies:
        outs = []
        for q in ('"', '"' * 3):
            try:
                toks, _ = tokenize("K::" + q + b + q + "\n")
                outs.append([(t.type.name, t.value) for t in toks])
            except Exception as e:  # noqa: BLE001
                outs.append(f"{type(e).__name__}: {e}")
        if outs[0] != outs[1]:
            bad.append(f"body {b!r}: single-quoted {outs[0]!r} vs triple-quoted {outs[1]!r}")
    return (bool(bad), "; ".join(bad[:3]) or f"{len(bodies)} bodies lex alike in both spellings")


def replay_triple_quotes():
    return probe_triple_quotes()


def ob_triple_quotes(ctx: Ctx) -> Outcome:
    """C03.R4 (the `triple quotes` freedom, all bodies): for every lexeme "e" of the single-quoted STRING pattern,
    the spelling \"\"\"e\"\"\" (followed by end of input or by any character other than a quote) makes tokenize fire
    the triple-quoted STRING pattern on exactly that spelling — whatever the previous character. Together with the
    pinned STRING branch (value = matched_text[3:-3] / [1:-1], then ONE shared unescape pass) both spellings give
    the same token value. Language inclusion on the DFAs of the real TOKEN_PATTERNS; no length bound."""
    from verif.common import shape_verdict
    from verif.reglang import tokmodel

    al = alphabet()
    try:
        pats = tokmodel.token_patterns()
        LX.lexer_unescape()  # pins the stripping + shared unescape pass of the STRING branch
    except extract.ExtractionError as e:
        return shape_verdict("dfa", [str(e)], probe_triple_quotes, count=1, replay={"runner": "props.C03:replay_triple_quotes", "args": {}})
    strs = [(i, p) for i, (p, t) in enumerate(pats) if t == "STRING"]
    tri = [(i, p) for i, p in strs if p.startswith('"""')]
    one = [(i, p) for i, p in strs if not p.startswith('"""')]
    if len(tri) != 1 or len(one) != 1:
        return shape_verdict("dfa", [f"TOKEN_PATTERNS has {len(tri)} triple-quoted and {len(one)} single-quoted STRING patterns (contract expects one each)"], probe_triple_quotes, count=1, replay={"runner": "props.C03:replay_triple_quotes", "args": {}})
    ti = tri[0][0]
    single = A.dfa_regex(one[0][1], 0, None, al)
    quote = frozenset({al.cls('"')})
    follow_any = A.concat(al, [al.all - quote, A.sigma_star(al)])
    wits = []
    n = 0
    for prev_char in (None, ":", "a", " ", "["):
        sm = tokmodel.step_model(prev_char)
        prev = None if prev_char is None else al.cls(prev_char)
        fire = sm.Fire[ti]
        for tail_name, tail in (("end of input", None), ("a non-quote character", follow_any)):
            n += 1
            parts = ['""', single, '""', A.nfa_mark(al)] + ([tail] if tail is not None else [])
            want = A.concat(al, parts, prev)
            bad = want - fire
            if not bad.is_empty():
                w = bad.witness_str()
                text = w.replace("‹", "")
                wits.append(Witness(what=f"triple-quoted spelling {text!r} (previous character {prev_char!r}, followed by {tail_name}) is not lexed as one triple-quoted STRING token ending at ‹ in {w!r}", key=f"{prev_char}|{tail_name}", input=text, replay={"runner": "props.C03:replay_triple_quotes", "args": {}}))
    if wits:
        failed, ptext = probe_triple_quotes()
        for w in wits:
            w.confirmed = failed
            w.verifier_output = ptext
        return Outcome.refuted("dfa", wits, count=n)
    return Outcome.ok("dfa", count=n)


def ob_bare_no_ascii_ops(ctx: Ctx) -> Outcome:
    """C03.R2: no string that needs_quotes leaves bare contains an ASCII operator alias (-> <-> + ~ | & #) or
    `vs` as a separate word: outside quotes the emitter writes Unicode operators only."""
    al = alphabet()
    try:
        bare = LX.bare_classes()["bare"]
    except extract.ExtractionError as e:
        return Outcome.undecided("declist", str(e))
    n = 0
    wits = []
    for op in ("->", "<->", "+", "~", "|", "&", "#"):
        n += 1
        bad = bare & A.concat(al, [A.sigma_star(al), op, A.sigma_star(al)])
        if not bad.is_empty():
            s = bad.witness_str()
            wits.append(Witness(what=f"bare emission {s!r} contains the ASCII operator {op!r}", key=s, input=s))
    # `vs` as an operator is a lexer notion (\bvs\b at a token start): that no bare value re-lexes with a TENSION
    # token is exactly C03.R3 (= C01.R1: bare classes re-lex to IDENTIFIER / VARIABLE tokens only)
    if wits:
        return Outcome.refuted("dfa", wits, count=n)
    return Outcome.ok("dfa", count=n)


def ob_b1(ctx: Ctx):
    return docs_b.run(ctx, {"C03"}, 4000, 30000, 12, 48)


ob_b1.wants_all_cores = True


def ob_b2(ctx: Ctx):
    return docs_b.run_tools(ctx, 2000, 12000)


ob_b2.wants_all_cores = True


def probe_blank_lines():
    """documents with blank lines that carry spaces (widths unrelated to the indent) must canonicalise like the same
    documents without them; trailing spaces and width changes of real indentation must not matter either"""
    from octave_mcp.core.emitter import emit
    from octave_mcp.core.parser import parse_with_warnings

    base = "===D===\nMETA:\n  TYPE::T\nB:\n  K::1\n  C:\n    X::2\n  L::3\nT::4\n===END===\n"
    want = emit(parse_with_warnings(base)[0])
    bad = []
    lines = base.split("\n")
    for w in (1, 2, 3, 4, 5, 7):
        for at in range(1, len(lines) - 1):
            t = "\n".join(lines[:at] + [" " * w] + lines[at:])
            try:
                got = emit(parse_with_warnings(t)[0])
            except Exception as e:  # noqa: BLE001
                got = f"{type(e).__name__}: {e}"
            if got != want:
                bad.append(f"a line of {w} spaces before line {at + 1}: canonical text becomes {got!r}")
    return bool(bad), "; ".join(bad[:2]) or "probe: spaces-only lines of any width are ignored"


def ob_indent_guard(ctx: Ctx) -> Outcome:
    """C03.F2: in tokenize's space branch the INDENT token is appended exactly when
    space_count > 0 ∧ pos < len(content) ∧ content[pos] != '\\n' (a spaces-only line, or spaces at the end of the input,
    produce no INDENT), under `column == 1`. The guard is read from the AST and compared with the specification as a
    propositional formula over those three atoms (z3), so any equivalent spelling is accepted."""
    import ast

    import z3

    from verif.common import shape_verdict

    try:
        fn = extract.find_def("octave_mcp.core.lexer", "tokenize")
    except extract.ExtractionError as e:
        return Outcome.undecided("ast-shape", str(e))
    guards = []
    parents = {}
    for p_ in ast.walk(fn):
        for c in ast.iter_child_nodes(p_):
            parents[id(c)] = p_
    for n in ast.walk(fn):
        if isinstance(n, ast.Call) and ast.unparse(n.func) == "tokens.append" and n.args and ast.unparse(n.args[0]).startswith("Token(TokenType.INDENT"):
            # enclosing ifs up to the space branch
            chain = []
            node = n
            while id(node) in parents:
                par = parents[id(node)]
                if isinstance(par, ast.If):
                    in_body = any(node is x or node in list(ast.walk(x)) for x in par.body)
                    chain.append((par.test, in_body))
                    if ast.unparse(par.test) == "content[pos] == ' '":
                        break
                node = par
            guards.append(chain)
    probe_replay = {"runner": "props.C03:probe_blank_lines", "args": {}}
    if len(guards) != 1:
        return shape_verdict("ast-shape", [f"{len(guards)} sites append an INDENT token (expected one, in the space branch)"], probe_blank_lines, 3, probe_replay)
    a, b, c, col1 = z3.Bools("space_count_pos in_bounds not_newline column_is_1")
    atoms = {"space_count > 0": a, "space_count >= 1": a, "space_count": a, "space_count != 0": a, "space_count == 0": z3.Not(a), "pos < len(content)": b, "len(content) > pos": b, "pos >= len(content)": z3.Not(b), "pos == len(content)": z3.Not(b), "content[pos] != '\\n'": c, "content[pos] == '\\n'": z3.Not(c), "column == 1": col1, "column != 1": z3.Not(col1), "content[pos] == ' '": z3.BoolVal(True)}

    def conv(e):
        t = ast.unparse(e)
        if t in atoms:
            return atoms[t]
        if isinstance(e, ast.BoolOp):
            xs = [conv(v) for v in e.values]
            return z3.And(*xs) if isinstance(e.op, ast.And) else z3.Or(*xs)
        if isinstance(e, ast.UnaryOp) and isinstance(e.op, ast.Not):
            return z3.Not(conv(e.operand))
        raise KeyError(t)

    try:
        formula = z3.And(*[conv(t) if pos else z3.Not(conv(t)) for t, pos in guards[0]])
    except KeyError as e:
        return shape_verdict("ast-shape", [f"the INDENT guard uses a test this contract has no atom for: {e}"], probe_blank_lines, 3, probe_replay)
    spec = z3.And(col1, a, b, c)
    sv = z3.Solver()
    # short-circuit order: content[pos] is only evaluated when pos < len(content); as propositions, ¬in_bounds makes not_newline irrelevant
    sv.add(z3.Implies(z3.Not(b), c))
    sv.add(formula != spec)
    if sv.check() == z3.unsat:
        return Outcome.ok("z3+ast", count=3, guard=[(ast.unparse(t), pos) for t, pos in guards[0]])
    m = sv.model()
    failed, text = probe_blank_lines()
    w = Witness(what=f"INDENT is emitted under {[(ast.unparse(t), pos) for t, pos in guards[0]]}, which differs from `column == 1 ∧ space_count > 0 ∧ pos < len(content) ∧ content[pos] != '\\n'` when {m}; {text}", key="indent-guard", input=str(m), replay=probe_replay, confirmed=failed, verifier_output=str(m))
    if not failed:
        return Outcome.undecided("z3+ast", w.what[:300])
    return Outcome.refuted("z3+ast", [w], count=3)


def obligations(ctx: Ctx):
    P = PROPERTY
    return [
        Ob(f"{P}.F1.reads", "F", "the emitter reads no source position", EMIT, framesobs.ob_reads_no_position(EMIT)),
        Ob(f"{P}.F1.effects", "F", "the emitter has no ambient effect", EMIT, framesobs.ob_no_effects(EMIT, ("global_write", "env", "cwd", "clock", "random", "locale", "hash_order", "identity", "fs_read", "fs_write", "subprocess", "await"))),
        Ob(f"{P}.R0", "R", "tokenize control skeleton matches the step model", LX.FUNCS_LEX, LX.ob_skeleton),
        Ob(f"{P}.F2", "F", "INDENT is emitted exactly for spaces at the start of a line that are followed by something other than the line end", ["octave_mcp.core.lexer:tokenize"], ob_indent_guard),
        Ob(f"{P}.R1", "R", "every ASCII alias normalises to the Unicode operator of the same kind", ["octave_mcp.core.lexer:tokenize"], ob_alias_table),
        Ob(f"{P}.R2", "R", "bare emission contains no ASCII operator alias", LX.FUNCS_EMIT, ob_bare_no_ascii_ops),
        Ob(f"{P}.R4", "R", "the triple-quote freedom for every body: \"\"\"e\"\"\" fires the triple-quoted STRING pattern on exactly that spelling for every single-quoted lexeme \"e\"; both spellings share one unescape pass", ["octave_mcp.core.lexer:tokenize"], ob_triple_quotes),
        Ob(f"{P}.R3.ident", "R", "bare identifier-class strings re-lex to one IDENTIFIER token (no `vs`/literal token inside)", LX.FUNCS_EMIT + LX.FUNCS_LEX, partial(LX.ob_ident, oid=f"{P}.R3", which="ident")),
        Ob(f"{P}.R3.expr", "R", "bare operator expressions re-lex to IDENTIFIER / Unicode operator tokens only", LX.FUNCS_EMIT + LX.FUNCS_LEX, partial(LX.ob_expr, oid=f"{P}.R3")),
        Ob(f"{P}.B1", "B", "every combination of lenient rewrites converges on the canonical bytes; canonical text is in the strict profile", ["octave_mcp.core.parser:parse_with_warnings", "octave_mcp.core.emitter:emit"], ob_b1, timeout=3000),
        Ob(f"{P}.B2", "B", "the tools as canonicalisers: octave_validate and octave_write(lenient) on lenient renderings give the canonical bytes", ["octave_mcp.core.parser:parse_with_warnings", "octave_mcp.core.emitter:emit"], ob_b2, timeout=3000),
    ] + LX.parse_layout_obs(P) + LX.emit_layout_obs(P)
