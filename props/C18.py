"""C18 — absent, null and value stay distinct; changes touch only named keys."""
from __future__ import annotations

from functools import partial

from contracts import write_changes as WC
from props import lexical as LX
from verif.common import Ctx, Ob, Outcome
from verif.pyvc.adapter import contract_ob

PROPERTY = "C18"
LEVEL = "other"
LEVEL_TEXT = "tri-state dispatch and the changes frame proved on the real code: _is_delete_sentinel, _normalize_value_for_ast, _apply_changes (DELETE / null / value / list on a symbolic top-level key over a document with symbolic, possibly duplicate keys; META.X and META{...} requests), _apply_mutations, and the emitter on a document holding Absent / None / \"\" / [] at every position (exact output text); 'unmentioned keys keep exactly their canonical lines' additionally needs emit to be per-node (C01.F1) and the file to be canonical (C01, bounded); end to end through files is bounded"
LEVEL_NOTE = "document shapes are representative spines with symbolic keys and atom values; CLI `octave write --changes` has its own application code (bounded)"
TECHNIQUE = "pre/postconditions on the real functions, VCs from the AST discharged by z3 (exact string equality for the emitter); bounded request sweep on files"
EXPLANATION = "C18: P contracts (tri-state dispatch, frame of _apply_changes, emitter on Absent/null/empty), R three token shapes, B: model documents x requests through octave_write(changes) on files."
ASSUMPTIONS = ["representative document spines", "the file is canonical before the change for the 'same lines' clause (C01)"]
TRUSTED_BASE = ["z3", "verif.pyvc", "verif.reglang"]


def probe_unwritable_keys():
    """concrete stand-in for C18.F2: requests naming a new key the reader would not take back as one key must be refused"""
    from props import C18_b

    cases = list(C18_b._canon_cases())
    bad = []
    for i, (kf, k, vf, v) in enumerate(cases):
        if kf == "plain" or vf not in ("scalar", "list"):
            continue
        failed, text = C18_b._canon_one(i)
        if failed:
            bad.append(text)
    # the names inside a {"META": {...}} request: written into META as they are spelled
    import asyncio
    import tempfile

    from octave_mcp.core.parser import parse
    from octave_mcp.mcp.write import WriteTool

    for name in ("true", "null", "vs", "a b", "1", "$V", "K::V", "§1"):
        with tempfile.TemporaryDirectory(prefix="vf_mk_") as d:
            p = d + "/a.oct.md"
            with open(p, "w", encoding="utf-8") as fh:
                fh.write('===D===\nMETA:\n  TYPE::X\n---\nK::1\n===END===\n')
            r = asyncio.run(WriteTool().execute(target_path=p, changes={"META": {name: 1, "LAST": 2}}))
            if r.get("status") == "success":
                try:
                    back = parse(open(p, encoding="utf-8").read())
                    if back.meta.get("LAST") != 2 or back.meta.get(name) != 1:
                        bad.append(f'changes={{"META": {{{name!r}: 1, "LAST": 2}}}} reports success, the file reads back with META {dict(back.meta)!r}')
                except Exception as e:  # noqa: BLE001
                    bad.append(f'changes={{"META": {{{name!r}: 1, "LAST": 2}}}} reports success, the file is unreadable: {type(e).__name__}')
    return bool(bad), "; ".join(bad[:2])[:600] or "every request naming an unwritable key is refused (or its file is a fixed point)"


def ob_writable_keys(ctx: Ctx) -> Outcome:
    """C18.F2 — `a value request sets exactly that value`: a new key is written as it is spelled, so the request is
    refused unless the READER takes `KEY::x` back as an assignment to exactly that key. Contract on the source:
    (a) WriteTool._is_writable_key tokenizes `<name>::x` with the real lexer and requires tokens[0] to be an IDENTIFIER
        whose value is the name, followed by ASSIGN (LexerError => False);
    (b) in execute, `self._apply_changes(doc, changes)` is dominated by the computation of the unwritable keys of the
        request with that predicate and an error return when there is one."""
    import ast

    from verif import extract
    from verif.common import shape_verdict

    W = "octave_mcp.mcp.write"
    problems = []
    try:
        pred = extract.find_def(W, "WriteTool._is_writable_key")
        ex = extract.find_def(W, "WriteTool.execute")
    except extract.ExtractionError as e:
        return shape_verdict("ast-shape", [str(e)], probe_unwritable_keys, count=1, replay={"runner": "props.C18:probe_unwritable_keys", "args": {}})
    src = ast.unparse(pred)
    for need in ("tokenize(f'{name}::x')", "except LexerError:\n        return False", "tokens[0].type == TokenType.IDENTIFIER", "tokens[0].value == name", "tokens[1].type == TokenType.ASSIGN"):
        if need.replace("\\n", "\n") not in src:
            problems.append(f"_is_writable_key: `{need}` not found")
    ok = False
    meta_inner = [False]
    for node in ast.walk(ex):
        for field in ("body", "orelse"):
            blk = getattr(node, field, None)
            if not isinstance(blk, list):
                continue
            idx = next((i for i, st in enumerate(blk) if any(isinstance(c, ast.Call) and ast.unparse(c.func) == "self._apply_changes" for c in ast.walk(st))), None)
            if idx is None:
                continue
            for i in range(idx):
                st = blk[i]
                if isinstance(st, ast.Assign) and "self._is_writable_key(k)" in ast.unparse(st.value) and "for k in changes" in ast.unparse(st.value) and i + 1 < len(blk):
                    nm = ast.unparse(st.targets[0])
                    # between the list and its test only statements that can make the list LONGER (nm += ..., nm.extend /
                    # append, under any condition) or that do not touch it
                    j = i + 1
                    while j < idx:
                        nxt = blk[j]
                        if isinstance(nxt, ast.If) and ast.unparse(nxt.test) == nm and isinstance(nxt.body[-1], ast.Return) and "_error_envelope" in ast.unparse(nxt.body[-1]):
                            ok = True
                            break
                        shrinks = False
                        for sub in ast.walk(nxt):
                            if isinstance(sub, (ast.Assign, ast.AnnAssign, ast.Delete, ast.NamedExpr, ast.For, ast.With)):
                                tg = sub.targets if isinstance(sub, (ast.Assign, ast.Delete)) else [getattr(sub, "target", None)] + ([it.optional_vars for it in sub.items] if isinstance(sub, ast.With) else [])
                                if any(t is not None and any(isinstance(x, ast.Name) and x.id == nm for x in ast.walk(t)) for t in tg):
                                    shrinks = True
                            if isinstance(sub, ast.AugAssign) and ast.unparse(sub.target) == nm and not isinstance(sub.op, ast.Add):
                                shrinks = True
                            if isinstance(sub, ast.Call) and isinstance(sub.func, ast.Attribute) and ast.unparse(sub.func.value) == nm and sub.func.attr not in ("append", "extend"):
                                shrinks = True
                            if isinstance(sub, ast.Call) and ast.unparse(sub.func) == "self._apply_changes":
                                shrinks = True
                            if isinstance(sub, (ast.AugAssign,)) and ast.unparse(sub.target) == nm and "_is_writable_key(k)" in ast.unparse(sub.value) and "META" in ast.unparse(nxt) + "".join(ast.unparse(b) for b in blk[i + 1:j + 1]):
                                meta_inner[0] = True
                        if shrinks:
                            break
                        j += 1
    if not ok:
        problems.append("execute: self._apply_changes(doc, changes) is not dominated by `bad = [k for k in changes if ... not self._is_writable_key(k)]; if bad: return <error envelope>`")
    if ok and not meta_inner[0]:
        problems.append('execute: the field names INSIDE a {"META": {...}} request do not go through _is_writable_key before _apply_changes')
    if problems:
        return shape_verdict("ast-shape", problems, probe_unwritable_keys, count=3, replay={"runner": "props.C18:probe_unwritable_keys", "args": {}})
    return Outcome.ok("ast-shape", count=3)


def obligations(ctx: Ctx):
    P = PROPERTY
    obs = []
    for k in ("scalar", "dict_op", "dict_other", "dict_op_nonstr"):
        obs.append(contract_ob(f"{P}.P2.sentinel.{k}", "_is_delete_sentinel iff dict with $op == DELETE", (lambda k=k: WC.sentinel_contract(k)), f"contracts.write_changes:sentinel_contract('{k}')"))
    for k in ("scalar", "zone", "nested"):
        obs.append(contract_ob(f"{P}.P2.normalize.{k}", "_normalize_value_for_ast keeps scalars/zones, wraps lists/dicts in order", (lambda k=k: WC.normalize_contract(k)), f"contracts.write_changes:normalize_contract('{k}')"))
    for o in ("delete", "null", "value", "list"):
        obs.append(contract_ob(f"{P}.P3.{o}", f"_apply_changes {o}: only the named top-level key changes (first match / append; DELETE removes all)", (lambda o=o: WC.apply_changes_contract(o)), f"contracts.write_changes:apply_changes_contract('{o}')"))
    for k in ("dot_set", "dot_delete", "dot_new", "merge"):
        obs.append(contract_ob(f"{P}.P3.meta.{k}", f"_apply_changes META request {k}: merges, never drops unmentioned META fields", (lambda k=k: WC.meta_changes_contract(k)), f"contracts.write_changes:meta_changes_contract('{k}')"))
    for k in ("dot_set", "dot_new", "merge"):
        obs.append(contract_ob(f"{P}.P3.meta-nested.{k}", f"_apply_changes META request {k}: META fields the request does not name keep their value unconverted, also when it is a nested block (dict) or a list value - nothing unnamed is re-normalised", (lambda k=k: WC.meta_changes_nested_contract(k)), f"contracts.write_changes:meta_changes_nested_contract('{k}')"))
    obs += [
        contract_ob(f"{P}.P4", "_apply_mutations sets/removes only the given META keys", WC.mutations_contract, "contracts.write_changes:mutations_contract()"),
        contract_ob(f"{P}.P1.emit", "emit: Absent contributes no text, None is null, \"\" is \"\", [] is []", WC.emit_tristate_contract, "contracts.write_changes:emit_tristate_contract()"),
        contract_ob(f"{P}.P1.guard", "emit_value(Absent) raises ValueError", lambda: WC.EMIT_VALUE_ABSENT, "contracts.write_changes:EMIT_VALUE_ABSENT"),
        Ob(f"{P}.R1", "R", "null / \"\" re-lex as NULL / STRING: three different token shapes", LX.FUNCS_EMIT + LX.FUNCS_LEX, partial(LX.ob_literals, oid=f"{P}.R1")),
        Ob(f"{P}.R1.q", "R", "quoted emission (incl. \"\") is one STRING token", LX.FUNCS_EMIT + LX.FUNCS_LEX, partial(LX.ob_quoted_shape, oid=f"{P}.R1")),
    ]
    from props import framesobs as _FO

    W = "octave_mcp.mcp.write:WriteTool.execute"
    obs += [
        Ob(f"{P}.F1.state", "F", "the document a request edits is built from the file read by THIS call: the tool's closure keeps no process state (module objects, memoised parsed documents) that an earlier request could have edited", [W], _FO.ob_no_effects([W], ("global_write",))),
        Ob(f"{P}.F2.keys", "F", "a request naming a key the reader would not take back as one key (space, leading digit, reserved word, sigil, '::') is refused before anything is applied: the predicate is the real lexer on `KEY::x`", [W, "octave_mcp.mcp.write:WriteTool._is_writable_key"], ob_writable_keys),
        Ob(f"{P}.F1.tool", "F", "the WriteTool object carries nothing from one request to the next (no method in the closure of execute stores through self): a preview or an earlier request cannot leak into this one", [W], _FO.ob_tool_stateless(("write",))),
        Ob(f"{P}.F1.memo", "F", "memoised functions in the tool's closure are keyed by arguments whose equality implies they are indistinguishable", [W], _FO.ob_memo_keys([W])),
    ]
    try:
        from props import C18_b

        obs.append(Ob(f"{P}.B2", "B", "the file a changes request produces is canonical: the next normalize accepts it and leaves it byte-identical (unusual keys, nested / odd-keyed maps, control characters)", ["octave_mcp.mcp.write:WriteTool.execute"], C18_b.ob_b2, timeout=1200))
        obs.append(Ob(f"{P}.B1", "B", "octave_write(changes=...) on files: unmentioned keys keep their lines; DELETE / null / value per key; META merge; sequences", ["octave_mcp.mcp.write:WriteTool.execute"], C18_b.ob_b1, timeout=3000))
    except ImportError:
        pass
    return obs
